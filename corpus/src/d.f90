! Fortran payload for the readelf comparison
module shapes
  implicit none
  type :: point
     real :: x, y
     integer :: id
  end type point
  integer, parameter :: limit = 10
  real, allocatable :: grid(:,:)
  real, pointer :: view(:)
  character(len=12) :: title = 'hello'
contains
  function norm2d(p) result(r)
    type(point), intent(in) :: p
    real :: r
    r = p%x * p%x + p%y * p%y
  end function norm2d
  subroutine fill(a, n, label)
    integer, intent(in) :: n
    real, intent(inout) :: a(n)
    character(len=*), intent(in) :: label
    integer :: i
    do i = 1, n
       a(i) = real(i) + len(label)
    end do
  end subroutine fill
end module shapes
subroutine driver(m)
  use shapes
  implicit none
  integer, intent(in) :: m
  real :: buf(8)
  integer :: cnt
  real :: scale
  common /shared/ cnt, scale
  namelist /cfg/ cnt, scale
  type(point) :: p
  allocate(grid(m, 2))
  p = point(1.0, 2.0, 3)
  call fill(buf, 8, title)
  grid(1, 1) = norm2d(p) + buf(2) * scale
  cnt = cnt + 1
  deallocate(grid)
end subroutine driver
