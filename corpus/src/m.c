/* Program entry for fully linked executables (dynamic, static, PIE and not): libc imports with symbol versions,
   thread-local storage, a constructor, a weak reference. */
#include <stdio.h>
#include <stdlib.h>
#include <string.h>
struct point { int x, y; unsigned flags : 3; unsigned kind : 5; };
struct node { struct node *next; long value; };
extern int area(struct point *p, int n);
extern long sum_list(const struct node *n);
extern long vsum(int count, ...);
extern int optional_hook(int) __attribute__((weak));
static __thread int tls_counter = 7;
__thread long tls_zero;
static void __attribute__((constructor)) init_me(void) { tls_counter++; }
int main(int argc, char **argv)
{
    struct point p[2] = { { 1, 2, 1, 3 }, { 3, 4, 2, 5 } };
    struct node b = { 0, 5 }, a = { &b, 4 };
    char *buf = malloc(32);
    if (!buf)
        return 1;
    snprintf(buf, 32, "%d %ld", area(p, 2), sum_list(&a));
    tls_zero = vsum(2, 1L, 2L) + (long)strlen(buf) + tls_counter;
    if (optional_hook)
        tls_zero += optional_hook(argc);
    puts(buf);
    free(buf);
    return (int)(tls_zero & 1) + (argv[0] == 0);
}
