// Program entry for a linked C++ executable: libstdc++ imports, exceptions, a static object with a destructor.
#include <cstdio>
#include <stdexcept>
#include <string>
#include <vector>
int use_templates(int seed);
struct Guard { std::string name; ~Guard() { std::printf("%s\n", name.c_str()); } };
static Guard guard{"done"};
int main(int argc, char **)
{
    std::vector<int> v{1, 2, 3};
    try {
        if (argc > 5)
            throw std::runtime_error("many");
        v.push_back(use_templates(argc));
    } catch (const std::exception &e) {
        std::puts(e.what());
        return 2;
    }
    return v.back() & 1;
}
