// C++ payload for the readelf comparison: no headers, only language features that shape DWARF.
namespace outer { namespace inner {
enum class Colour : unsigned char { Red = 1, Green = 2, Blue = 250 };
struct Base {
    virtual ~Base() {}
    virtual int area() const = 0;
    virtual int sides() const { return 0; }
protected:
    int tag_ = 7;
private:
    unsigned flags_ : 3;
    unsigned more_ : 5;
public:
    static const int kLimit = 42;
    Base() : flags_(1), more_(2) {}
};
struct Square final : public Base {
    int side;
    explicit Square(int s) : side(s) {}
    int area() const override { return side * side; }
    int sides() const override { return 4; }
};
template <typename T, int N> struct Array {
    T items[N];
    T &at(int i) { return items[i]; }
    const T &at(int i) const { return items[i]; }
    template <typename F> void each(F f) { for (int i = 0; i < N; ++i) f(items[i]); }
};
union Variant { int i; float f; char bytes[8]; };
typedef int (Base::*AreaFn)() const;
inline int twice(int x) { return x + x; }
} using inner::Colour; }
using namespace outer;
namespace alias = outer::inner;
static int counter;
constexpr long kBig = -123456789012345L;
volatile const double kPi = 3.25;
int (*fnptr)(int) = &alias::twice;
alias::AreaFn member_fn = &alias::Base::area;
int sum_areas(const alias::Base *const *shapes, int n, Colour c)
{
    int total = 0;
    for (int i = 0; i < n; ++i) {
        const alias::Base &b = *shapes[i];
        int a = (b.*member_fn)();
        if (c == Colour::Blue) { int bonus = alias::twice(a); total += bonus; }
        else total += a;
    }
    counter += total;
    return total;
}
int use_templates(int seed)
{
    alias::Array<int, 4> arr{{1, 2, 3, seed}};
    alias::Array<alias::Variant, 2> vs{};
    vs.at(0).i = seed;
    int acc = 0;
    arr.each([&acc](int &v) { acc += v; });
    alias::Square sq(acc);
    int &&tmp = acc + 1;
    return sq.area() + tmp + static_cast<int>(kBig % 7) + fnptr(2);
}
