/* Small source for compiler-produced debug payloads (C11, C18). */
struct point { int x, y; unsigned flags : 3; unsigned kind : 5; };
enum color { RED, GREEN = 5, BLUE };
union u { long l; char c[8]; double d; };
typedef int (*fn_t)(struct point *, enum color);
static int helper(struct point *p, enum color c) { return p->x * (int)c + p->y; }
int global_counter = 3;
const char *names[] = { "alpha", "beta", 0 };
int area(struct point *p, int n)
{
    int i, s = 0;
    fn_t f = helper;
    for (i = 0; i < n; i++) {
        union u v;
        v.l = p[i].x;
        if (v.c[0] & 1)
            s += f(&p[i], GREEN);
        else
            s -= p[i].y;
    }
    return s + global_counter;
}
