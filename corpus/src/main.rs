use std::collections::HashMap;
#[derive(Debug, Clone)]
enum Shape { Circle { r: u32 }, Rect { w: u32, h: u32 }, Empty }
trait Area { fn area(&self) -> u32; }
impl Area for Shape { fn area(&self) -> u32 { match *self { Shape::Circle { r } => 3 * r * r, Shape::Rect { w, h } => w * h, Shape::Empty => 0 } } }
fn main() {
    let mut m: HashMap<String, Vec<Shape>> = HashMap::new();
    m.entry("a".to_string()).or_default().push(Shape::Rect { w: 2, h: 3 });
    m.entry("b".to_string()).or_default().push(Shape::Circle { r: 2 });
    let t: u32 = m.values().flatten().map(|s| s.area()).sum();
    let c = |x: u32| x + t;
    println!("{} {:?}", c(1), Shape::Empty);
}
