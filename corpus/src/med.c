static char bigbuf[0x20000] = {1};
char bigbss[0x40000];
const char bigro[0x20000] = {2};
int get(int i) { return bigbuf[i] + bigbss[i] + bigro[i]; }
