program p
  implicit none
  integer :: i
  real(8) :: a(10)
  do i = 1, 10
    a(i) = sqrt(real(i, 8))
  end do
  print *, sum(a)
end program p
