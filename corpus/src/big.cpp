#include <vector>
#include <map>
#include <string>
#include <memory>
#include <functional>
#include <iostream>
#include <algorithm>
#include <thread>
struct B { virtual ~B(); virtual int f() const = 0; };
struct D final : B { int f() const override { return 1; } std::map<std::string, std::vector<int>> m; };
B::~B() {}
template <typename... T> int count(T... t) { return sizeof...(t); }
int main() { D d; std::shared_ptr<B> p = std::make_shared<D>(); std::function<int()> fn = [&]{ return p->f() + count(1, 2.0, 'c'); }; std::cout << fn(); return 0; }
