#include <stdio.h>
#include <stdlib.h>
#include <string.h>
#include <pthread.h>
#include <math.h>
#include <signal.h>
#include <sys/socket.h>
#include <sys/stat.h>
#include <netinet/in.h>
#include <setjmp.h>
#include <complex.h>
#include <wchar.h>
#include <locale.h>
#include <time.h>
_Complex double cz; long double ld; __int128 i128; _Float128 f128; wchar_t wc[3]; _Bool bb;
int main(void) { return (int)creal(cz); }
