// Rust payload for the readelf comparison (no_std: only core)
#![no_std]
#![crate_type = "lib"]
pub enum Shape { Circle { r: u32 }, Rect { w: u32, h: u32 }, Empty }
pub struct Pair<T> { pub a: T, pub b: T }
pub trait Area { fn area(&self) -> u32; }
impl Area for Shape {
    fn area(&self) -> u32 {
        match *self { Shape::Circle { r } => 3 * r * r, Shape::Rect { w, h } => w * h, Shape::Empty => 0 }
    }
}
pub fn total(shapes: &[Shape], extra: Option<u32>) -> u32 {
    let mut t = 0u32;
    for s in shapes { t = t.wrapping_add(s.area()); }
    match extra { Some(e) => t.wrapping_add(e), None => t }
}
pub fn swap<T: Copy>(p: &mut Pair<T>) { let t = p.a; p.a = p.b; p.b = t; }
pub static GLOBAL: Pair<i16> = Pair { a: -3, b: 7 };
