/* Second translation unit: several units per file, inlining, a lexical block, varargs. */
#include <stdarg.h>
struct node { struct node *next; long value; };
static inline long twice(long v) { return v + v; }
long sum_list(const struct node *n)
{
    long t = 0;
    while (n) { t += twice(n->value); n = n->next; }
    return t;
}
long vsum(int count, ...)
{
    va_list ap; long t = 0; int i;
    va_start(ap, count);
    for (i = 0; i < count; i++) { long x = va_arg(ap, long); { long y = x * 2; t += y; } }
    va_end(ap);
    return t;
}
