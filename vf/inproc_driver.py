"""Child process of C18's `inprocess` kind: dumps a sequence of (file, option) jobs through the clone's main() in ONE
interpreter and reports the text of each. usage: python inproc_driver.py <repo> < jobs.json > outputs.json"""
import gc
import io
import json
import os
import sys

repo = sys.argv[1]
sys.path.insert(0, repo)
sys.path.insert(0, os.path.join(repo, 'scripts'))
os.chdir(repo)
import readelf      # noqa: E402

jobs = json.load(sys.stdin)
outs = []
for path, option in jobs:
    buf = io.StringIO()
    sys.argv = ['readelf.py', option, path]
    err = None
    try:
        readelf.main(buf)
    except SystemExit as e:
        err = 'exit %s' % (e.code,)
    except Exception as e:            # noqa: BLE001 - reported to the parent, which judges it
        err = 'exception %s: %s' % (type(e).__name__, e)
    outs.append({'out': buf.getvalue(), 'err': err})
    del buf
    gc.collect()
json.dump(outs, sys.stdout)
