"""Monitors attached from the harness: traced streams (M2), position poisoning,
API-boundary wrappers with evaluation counters (M1), reach observer (M4), logical
step meter (M5)."""
import collections
import functools
import importlib
import inspect
import io
import sys

from .core import BudgetExceeded


# ---------------------------------------------------------------- M2 streams
class TracedBytesIO(io.BytesIO):
    """BytesIO recording every seek/read/tell. `log` (when not None) receives
    (op, position_before, argument, n_bytes_returned)."""

    def __init__(self, *a):
        io.BytesIO.__init__(self, *a)
        self.ops = 0
        self.nread = 0
        self.log = None
        self.lo = None          # lowest / highest byte actually returned by read()
        self.hi = None

    def seek(self, *a):
        self.ops += 1
        if self.log is not None:
            self.log.append(('seek', io.BytesIO.tell(self), a, 0))
        return io.BytesIO.seek(self, *a)

    def read(self, *a):
        self.ops += 1
        pos = io.BytesIO.tell(self)
        r = io.BytesIO.read(self, *a)
        n = len(r)
        self.nread += n
        if n:
            if self.lo is None or pos < self.lo:
                self.lo = pos
            if self.hi is None or pos + n > self.hi:
                self.hi = pos + n
        if self.log is not None:
            self.log.append(('read', pos, a, n))
        return r

    def tell(self):
        self.ops += 1
        return io.BytesIO.tell(self)

    def reset_extent(self):
        self.lo = self.hi = None

    def size(self):
        return len(self.getbuffer())


def poison(streams, rng, mode=None):
    """Environment move between two API calls: leave every shared stream somewhere
    unrelated. Uses the untraced seek so the trace only holds the library's moves."""
    for s in streams:
        n = len(s.getbuffer())
        m = mode or rng.choice('serx')
        if m == 's':
            p = 0
        elif m == 'e':
            p = n
        elif m == 'x':
            p = n + 7
        else:
            p = rng.randrange(n + 1)
        io.BytesIO.seek(s, p)


class PoisonedIter:
    """Wraps a generator obtained from the library by client code: every time an item
    has been handed to the client, the shared streams are repositioned before the
    generator is resumed (the only point where foreign code can run)."""

    def __init__(self, it, streams, rng, counter=None):
        self.it = iter(it)
        self.streams = streams
        self.rng = rng
        self.counter = counter

    def __iter__(self):
        return self

    def __next__(self):
        poison(self.streams, self.rng)
        if self.counter is not None:
            self.counter['poisoned_yields'] += 1
        return next(self.it)


# ---------------------------------------------------------------- M1 wrappers
class Hooks:
    """Wrap class attributes / module functions from outside, count evaluations, and
    restore on exit."""

    def __init__(self):
        self.saved = []
        self.calls = collections.Counter()

    def wrap_method(self, cls, name, before=None, after=None):
        orig = cls.__dict__[name]
        hooks = self
        key = '%s.%s' % (cls.__name__, name)
        fn = orig.__func__ if isinstance(orig, (staticmethod, classmethod)) else orig

        @functools.wraps(fn)
        def wrapper(*a, **kw):
            hooks.calls[key] += 1
            if before:
                before(a, kw)
            r = fn(*a, **kw)
            if after:
                r2 = after(a, kw, r)
                if r2 is not None:
                    r = r2
            return r
        new = wrapper
        if isinstance(orig, staticmethod):
            new = staticmethod(wrapper)
        elif isinstance(orig, classmethod):
            new = classmethod(wrapper)
        setattr(cls, name, new)
        self.saved.append((cls, name, orig))
        return wrapper

    def wrap_function_everywhere(self, func, make_wrapper):
        """Replace `func` in every elftools module namespace holding a reference."""
        w = make_wrapper(func)
        for modname, mod in list(sys.modules.items()):
            if not modname.startswith('elftools') or mod is None:
                continue
            for k, v in list(vars(mod).items()):
                if v is func:
                    setattr(mod, k, w)
                    self.saved.append((mod, k, func))
        return w

    def restore(self):
        for obj, name, orig in reversed(self.saved):
            setattr(obj, name, orig)
        self.saved = []


# ---------------------------------------------------------------- M4 reach
def resolve(spec):
    """'pkg.mod:Class.func' -> function object or None if it no longer exists."""
    modname, _, qual = spec.partition(':')
    try:
        obj = importlib.import_module(modname)
        for part in qual.split('.'):
            obj = obj.__dict__[part] if isinstance(obj, type) else getattr(obj, part)
    except (ImportError, AttributeError, KeyError):
        return None
    if isinstance(obj, (staticmethod, classmethod)):
        obj = obj.__func__
    if isinstance(obj, property):
        obj = obj.fget
    return obj if hasattr(obj, '__code__') else None


def _code_lines(code):
    lines = {l for _, _, l in code.co_lines() if l}
    for c in code.co_consts:
        if inspect.iscode(c):
            lines |= _code_lines(c)
    return lines


def _all_codes(code):
    yield code
    for c in code.co_consts:
        if inspect.iscode(c):
            yield from _all_codes(c)


class Reach:
    """sys.monitoring LINE events, enabled only on the code objects of the anchored
    functions, so the cost stays local to them."""
    TOOL = 3

    def __init__(self, specs):
        self.mon = sys.monitoring
        self.hits = collections.Counter()
        self.codes = {}
        for s in specs:
            f = resolve(s)
            if f is None:
                continue
            for c in _all_codes(f.__code__):
                self.codes[c] = s
        try:
            self.mon.use_tool_id(self.TOOL, 'vf-reach')
        except ValueError:
            pass
        self.mon.register_callback(self.TOOL, self.mon.events.LINE, self._line)

    def _line(self, code, line):
        self.hits[(self.codes.get(code, '?'), line)] += 1

    def enable(self):
        for c in self.codes:
            self.mon.set_local_events(self.TOOL, c, self.mon.events.LINE)

    def disable(self):
        for c in self.codes:
            self.mon.set_local_events(self.TOOL, c, 0)

    def reset(self):
        self.hits = collections.Counter()

    def snapshot(self):
        return dict(self.hits)


def summarize_reach(specs, hits):
    out = {}
    for s in specs:
        f = resolve(s)
        if f is None:
            out[s] = 'unresolved'
            continue
        lines = _code_lines(f.__code__)
        first = f.__code__.co_firstlineno
        lines.discard(first)
        hit = {l for (sp, l) in hits if sp == s}
        calls = max([n for (sp, l), n in hits.items() if sp == s] or [0])
        unhit = sorted(lines - hit)
        out[s] = {'lines': len(lines), 'lines_hit': len(lines & hit),
                  'max_line_hits': calls, 'unhit': unhit[:40]}
    return out


# ---------------------------------------------------------------- M5 step meter
class StepMeter:
    """Logical time: number of Python function entries (PY_START) plus taken jumps. Raises
    BudgetExceeded inside the monitored call when the budget is crossed, so the
    verdict never depends on wall clock."""
    TOOL = 4

    def __init__(self):
        self.mon = sys.monitoring
        try:
            self.mon.use_tool_id(self.TOOL, 'vf-meter')
        except ValueError:
            pass
        self.steps = 0
        self.budget = 0
        # function entries and taken jumps (loop iterations): a loop that calls nothing is counted too
        self.EVENTS = self.mon.events.PY_START | self.mon.events.JUMP
        self.mon.register_callback(self.TOOL, self.mon.events.PY_START, self._cb)
        self.mon.register_callback(self.TOOL, self.mon.events.JUMP, self._cb3)

    def _cb(self, code, off):
        self.steps += 1
        if self.steps > self.budget:
            self.mon.set_events(self.TOOL, 0)
            raise BudgetExceeded('%d steps' % self.steps)

    def _cb3(self, code, off, dest):
        self.steps += 1
        if self.steps > self.budget:
            self.mon.set_events(self.TOOL, 0)
            raise BudgetExceeded('%d steps' % self.steps)

    def start(self, budget):
        self.steps = 0
        self.budget = budget
        self.mon.set_events(self.TOOL, self.EVENTS)

    def stop(self):
        self.mon.set_events(self.TOOL, 0)
        return self.steps
