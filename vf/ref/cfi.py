"""Reference interpreter for call-frame instructions, written from DWARF 5 section 6.4.2.
Instructions are abstract tuples produced by vf.gen.cfigen."""


def interp(ins, caf, daf, init_rules, init_cfa, pc0):
    """-> list of rows (pc, cfa, rules) in emission order. cfa: None | ('ro', reg, off) |
    ('expr', bytes list); rules: reg -> (kind, arg)."""
    rules = dict(init_rules)
    cfa = init_cfa
    pc = pc0
    rows = []
    stack = []
    for i in ins:
        k = i[0]
        if k == 'adv':
            rows.append((pc, cfa, dict(rules)))
            pc += i[1] * caf
        elif k == 'setloc':
            rows.append((pc, cfa, dict(rules)))
            pc = i[1]
        elif k == 'off':
            rules[i[1]] = ('OFFSET', i[2] * daf)
        elif k == 'valoff':
            rules[i[1]] = ('VAL_OFFSET', i[2] * daf)
        elif k == 'restore':
            if i[1] in init_rules:
                rules[i[1]] = init_rules[i[1]]
            else:
                rules.pop(i[1], None)
        elif k == 'undef':
            rules[i[1]] = ('UNDEFINED', None)
        elif k == 'same':
            rules[i[1]] = ('SAME_VALUE', None)
        elif k == 'reg':
            rules[i[1]] = ('REGISTER', i[2])
        elif k == 'expr':
            rules[i[1]] = ('EXPRESSION', i[2])
        elif k == 'valexpr':
            rules[i[1]] = ('VAL_EXPRESSION', i[2])
        elif k == 'rem':
            stack.append((cfa, dict(rules)))
        elif k == 'res':
            cfa, rules = stack.pop()
            rules = dict(rules)
        elif k == 'defcfa':
            cfa = ('ro', i[1], i[2] * (daf if i[3] else 1))
        elif k == 'defcfareg':
            cfa = ('ro', i[1], cfa[2])
        elif k == 'defcfaoff':
            cfa = ('ro', cfa[1], i[1] * (daf if i[2] else 1))
        elif k == 'cfaexpr':
            cfa = ('expr', i[1])
        # 'nop', 'args' (GNU_args_size) and 'negra' (AARCH64_negate_ra_state) leave the table alone
    rows.append((pc, cfa, dict(rules)))
    return rows


def canon(rows):
    """pc -> (cfa, rules); rows sharing a pc collapse to the last one."""
    m = {}
    for pc, cfa, rules in rows:
        m[pc] = (cfa, rules)
    return m


def first_mentions(ins, order):
    order = list(order)
    for i in ins:
        if i[0] in ('off', 'valoff', 'restore', 'undef', 'same', 'reg', 'expr', 'valexpr') and i[1] not in order:
            order.append(i[1])
    return order
