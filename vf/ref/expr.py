"""DWARF expression operand table, encoder and generator, written from DWARF 5
sections 2.5 / 7.7.1, the GNU extension notes and the WebAssembly DWARF note.
Operand kinds: u1 u2 u4 u8 s1 s2 s4 s8 uleb sleb addr off ref4 blk tblk expr wasm."""
import struct
from ..gen.leb import uleb, sleb

SPEC = {
    0x03: ['addr'], 0x06: [], 0x08: ['u1'], 0x09: ['s1'], 0x0a: ['u2'], 0x0b: ['s2'], 0x0c: ['u4'],
    0x0d: ['s4'], 0x0e: ['u8'], 0x0f: ['s8'], 0x10: ['uleb'], 0x11: ['sleb'],
    0x12: [], 0x13: [], 0x14: [], 0x15: ['u1'], 0x16: [], 0x17: [], 0x18: [], 0x19: [], 0x1a: [],
    0x1b: [], 0x1c: [], 0x1d: [], 0x1e: [], 0x1f: [], 0x20: [], 0x21: [], 0x22: [], 0x23: ['uleb'],
    0x24: [], 0x25: [], 0x26: [], 0x27: [], 0x28: ['s2'], 0x29: [], 0x2a: [], 0x2b: [], 0x2c: [],
    0x2d: [], 0x2e: [], 0x2f: ['s2'],
    0x90: ['uleb'], 0x91: ['sleb'], 0x92: ['uleb', 'sleb'], 0x93: ['uleb'], 0x94: ['u1'], 0x95: ['u1'],
    0x96: [], 0x97: [], 0x98: ['u2'], 0x99: ['u4'], 0x9a: ['off'], 0x9b: [], 0x9c: [],
    0x9d: ['uleb', 'uleb'], 0x9e: ['blk'], 0x9f: [],
    0xa0: ['off', 'sleb'], 0xa1: ['uleb'], 0xa2: ['uleb'], 0xa3: ['expr'], 0xa4: ['tblk'],
    0xa5: ['uleb', 'uleb'], 0xa6: ['u1', 'uleb'], 0xa7: ['u1', 'uleb'], 0xa8: ['uleb'], 0xa9: ['uleb'],
    0xe0: [], 0xed: ['wasm'], 0xf0: [], 0xf2: ['off', 'sleb'], 0xf3: ['expr'], 0xf4: ['tblk'],
    0xf5: ['uleb', 'uleb'], 0xf6: ['u1', 'uleb'], 0xf7: ['uleb'], 0xfa: ['ref4'],
}
for _i in range(32):
    SPEC[0x30 + _i] = []
    SPEC[0x50 + _i] = []
    SPEC[0x70 + _i] = ['sleb']

BOUND = {
    'u1': [0, 1, 0x7f, 0x80, 0xff], 'u2': [0, 1, 0x7fff, 0x8000, 0xffff],
    'u4': [0, 1, 0x7fffffff, 0x80000000, 0xffffffff], 'u8': [0, 1, 2 ** 63 - 1, 2 ** 63, 2 ** 64 - 1],
    'uleb': [0, 1, 0x7f, 0x80, 0x3fff, 0x4000, 2 ** 21 - 1, 2 ** 21, 2 ** 32, 2 ** 63, 2 ** 64 - 1],
    'sleb': [0, 1, -1, 63, 64, -64, -65, 8191, 8192, -8192, -8193, 2 ** 31, -2 ** 31, 2 ** 63 - 1, -2 ** 63],
}
FIXW = {'u1': 1, 'u2': 2, 'u4': 4, 'u8': 8, 's1': 1, 's2': 2, 's4': 4, 's8': 8}


def pick(rng, kind, w=None):
    if rng.random() < 0.6:
        if kind in BOUND:
            return rng.choice(BOUND[kind])
        if kind[0] == 's':
            w = FIXW[kind]
            return rng.choice([0, 1, -1, 2 ** (8 * w - 1) - 1, -2 ** (8 * w - 1)])
    if kind[0] == 'u' and kind in FIXW:
        return rng.getrandbits(8 * FIXW[kind])
    if kind[0] == 's' and kind in FIXW:
        w = FIXW[kind]
        return rng.getrandbits(8 * w) - 2 ** (8 * w - 1)
    if kind == 'uleb':
        return rng.getrandbits(rng.randrange(1, 65))
    if kind == 'sleb':
        return rng.getrandbits(rng.randrange(1, 64)) - rng.getrandbits(rng.randrange(1, 64))
    raise ValueError(kind)


def enc_operand(kind, v, le, asz, osz):
    """Encode one operand value (as produced by gen / as returned by the parser)."""
    order = 'little' if le else 'big'
    if kind in FIXW:
        return v.to_bytes(FIXW[kind], order, signed=kind[0] == 's')
    if kind == 'uleb':
        return uleb(v)
    if kind == 'sleb':
        return sleb(v)
    if kind == 'addr':
        return v.to_bytes(asz, order)
    if kind == 'off':
        return v.to_bytes(osz, order)
    if kind == 'ref4':
        return v.to_bytes(4, order)
    raise ValueError(kind)


def gen_expr(rng, le, asz, osz, nops, depth=0, maxdepth=4, ops=None, big_blob=False):
    """-> (bytes, [(opcode, args, offset)]) ; args hold nested op lists for expr operands."""
    out = bytearray()
    res = []
    cands = ops or list(SPEC)
    for _ in range(nops):
        op = rng.choice(cands)
        if depth >= maxdepth and 'expr' in SPEC[op]:
            op = 0x96
        off = len(out)
        out.append(op)
        args = []
        for k in SPEC[op]:
            if k == 'blk':
                n = rng.choice([0, 1, 5, 127, 128, 200] + ([70000] if big_blob else []))
                b = bytes(rng.getrandbits(8) for _ in range(n)) if n < 1000 else bytes(n)
                out += uleb(len(b)) + b
                args.append(list(b))
            elif k == 'tblk':
                t = pick(rng, 'uleb')
                n = rng.choice([0, 1, 2, 4, 8, 16, 255, rng.randrange(256)])
                b = bytes(rng.getrandbits(8) for _ in range(n))
                out += uleb(t) + bytes([n]) + b
                args += [t, list(b)]
            elif k == 'expr':
                b, sub = gen_expr(rng, le, asz, osz, rng.randint(0, 4), depth + 1, maxdepth, ops)
                out += uleb(len(b)) + b
                args.append(sub)
            elif k == 'wasm':
                kind = rng.choice([0, 1, 2, 3])
                if kind == 3:
                    v = pick(rng, 'u4')
                    out += bytes([3]) + enc_operand('u4', v, le, asz, osz)
                else:
                    v = pick(rng, 'uleb')
                    out += bytes([kind]) + uleb(v)
                args += [kind, v]
            else:
                if k == 'addr':
                    v = rng.choice([0, 1, 2 ** (8 * asz) - 1, 2 ** (8 * asz - 1), rng.getrandbits(8 * asz)])
                elif k == 'off':
                    v = rng.choice([0, 1, 2 ** (8 * osz) - 1, 2 ** (8 * osz - 1), rng.getrandbits(8 * osz)])
                elif k == 'ref4':
                    v = rng.choice([0, 1, 2 ** 32 - 1, 2 ** 31, rng.getrandbits(32)])
                else:
                    v = pick(rng, k)
                out += enc_operand(k, v, le, asz, osz)
                args.append(v)
        res.append((op, args, off))
    return bytes(out), res


def reencode(ops, le, asz, osz):
    """Re-encode a parse result [(op, args, offset)] with minimal LEB128 - the inverse the
    property statement asks for. Raises KeyError/ValueError when the shape is not encodable."""
    out = bytearray()
    for op, args, off in ops:
        out.append(op)
        args = list(args)
        for k in SPEC[op]:
            if k == 'blk':
                b = bytes(args.pop(0))
                out += uleb(len(b)) + b
            elif k == 'tblk':
                t = args.pop(0)
                b = bytes(args.pop(0))
                out += uleb(t) + bytes([len(b)]) + b
            elif k == 'expr':
                b = reencode(args.pop(0), le, asz, osz)
                out += uleb(len(b)) + b
            elif k == 'wasm':
                kind = args.pop(0)
                v = args.pop(0)
                out += bytes([kind]) + (enc_operand('u4', v, le, asz, osz) if kind == 3 else uleb(v))
            else:
                out += enc_operand(k, args.pop(0), le, asz, osz)
        if args:
            raise ValueError('surplus operands for %#x' % op)
    return bytes(out)
