"""Expected symbolic names for numeric codes, from the vendored registries. The library's
own table is consulted only to learn whether it claims a name the registries do not know
(such names are accepted unjudged; their values are C17's business)."""
import json
import os

from .. import VERIF_DIR

_R = {}


def _reg():
    if not _R:
        names = {}
        for fn in ('glibc_elf_h.json', 'llvm14_binaryformat.json'):
            with open(os.path.join(VERIF_DIR, 'registry', fn)) as f:
                for k, v in json.load(f)['names'].items():
                    names.setdefault(k, set()).add(v)
        _R['names'] = names
        inv = {}
        for k, vs in names.items():
            for v in vs:
                inv.setdefault((k.split('_')[0] + '_' + k.split('_')[1] if k.startswith('DW_') else k.split('_')[0], v), set()).add(k)
        _R['inv'] = inv
    return _R


def registry_names(prefix, num):
    """prefix like 'DW_TAG', 'DW_AT', 'DW_FORM', 'SHT', 'PT' ..."""
    return _reg()['inv'].get((prefix, num), set())


def known(name):
    return name in _reg()['names']


def name_ok(prefix, num, observed, libtable):
    """Is `observed` an acceptable report for code `num`?  libtable: the library's
    name->value dict for this kind."""
    if isinstance(observed, str):
        if observed in registry_names(prefix, num):
            return True
        if not known(observed) and libtable.get(observed) == num:
            return True           # library-only name, unjudged
        return False
    if observed != num:
        return False
    # raw number: fine unless the library's table has a name for it
    return not any(v == num for k, v in libtable.items() if isinstance(v, int) and isinstance(k, str))
