"""Expected symbolic names for numeric codes, from the vendored registries. The library's
own table is consulted only to learn whether it claims a name the registries do not know
(such names are accepted unjudged; their values are C17's business)."""
import json
import os
import re

from .. import VERIF_DIR

_R = {}


def _reg():
    if not _R:
        names = {}
        for fn in ('glibc_elf_h.json', 'llvm14_binaryformat.json'):
            with open(os.path.join(VERIF_DIR, 'registry', fn)) as f:
                for k, v in json.load(f)['names'].items():
                    names.setdefault(k, set()).add(v)
        _R['names'] = names
        inv = {}
        for k, vs in names.items():
            for v in vs:
                inv.setdefault((k.split('_')[0] + '_' + k.split('_')[1] if k.startswith('DW_') else k.split('_')[0], v), set()).add(k)
        _R['inv'] = inv
    return _R


def registry_names(prefix, num):
    """prefix like 'DW_TAG', 'DW_AT', 'DW_FORM', 'SHT', 'PT' ..."""
    return _reg()['inv'].get((prefix, num), set())


def known(name):
    return name in _reg()['names']


def name_ok(prefix, num, observed, libtable):
    """Is `observed` an acceptable report for code `num`?  libtable: the library's
    name->value dict for this kind."""
    if isinstance(observed, str):
        if observed in registry_names(prefix, num):
            return True
        if not known(observed) and libtable.get(observed) == num:
            return True           # library-only name, unjudged
        return False
    if observed != num:
        return False
    # raw number: fine unless the library's table has a name for it
    return not any(v == num for k, v in libtable.items() if isinstance(v, int) and isinstance(k, str))


# machine infixes of registry names -> e_machine codes they apply to (my own map)
MACH = {'ARM': {40}, 'AARCH64': {183}, 'X86_64': {62}, 'AMD64': {62}, 'MIPS': {8},
        'RISCV': {243}, 'PARISC': {15}, 'ALPHA': {0x9026, 41}, 'IA_64': {50}, 'HEX': {164},
        'HEXAGON': {164}, 'MSP430': {105}, 'CSKY': {252}, 'PPC': {20}, 'PPC64': {21},
        'SPARC': {2, 18, 43}, 'S390': {22}, 'NIOS2': {113}, 'ARC': {45, 93, 195}, 'HP': {15},
        'AVR': {83}, 'XTENSA': {94}, 'SH': {42}, 'M68K': {4}, 'LOONGARCH': {258}}


RANGE_MARK = re.compile(r'_(LO|HI)(OS|PROC|USER|SUNW|RESERVE)$|RNG(LO|HI)$|^DT_ENCODING$')


def applicable(name, prefix, machine):
    """Is registry name `name` (prefix + ...) in the table that applies to this machine?
    Only section, segment and dynamic-tag codes have machine-specific ranges; names of the OS
    range (SUNW, GNU) are shown whatever EI_OSABI says and are not judged by OS."""
    rest = name[len(prefix):]
    if prefix not in ('SHT_', 'PT_', 'DT_'):
        return True
    for inf, ms in MACH.items():
        if rest.startswith(inf + '_') or rest == inf:
            better = [i for i in MACH if i != inf and i.startswith(inf) and rest.startswith(i + '_')]
            if better:
                continue
            return machine in ms
    return True


def elf_name_ok(prefix, num, observed, libtables, machine):
    """prefix with trailing underscore ('SHT_'); libtables: iterable of the library's name->value
    dicts for this kind (all machines)."""
    regnames = {n for n in registry_names(prefix[:-1], num) if applicable(n, prefix, machine)}
    # the limit of a reserved range is not the name of a code the registries also name on its own
    # (DT_FILTER / DT_HIPROC, DT_PREINIT_ARRAY / DT_ENCODING, SHT_GNU_versym / SHT_HIOS)
    # - only where the proper name is a generic gABI one: what a code of the OS or processor range means depends on
    # the OS ABI, so the library may report PT_LOOS for PT_HP_TLS or STT_LOOS for STT_GNU_IFUNC
    vendors = set(MACH) | {'SUNW', 'GNU', 'ANDROID', 'HP', 'IA', 'VERSYM', 'VERDEF', 'VERNEED'}
    proper = {n for n in regnames if not RANGE_MARK.search(n) and n.split('_')[1] not in vendors}
    if proper and prefix == 'DT_':
        regnames = proper
    if isinstance(observed, str):
        if observed in regnames:
            return True
        if not known(observed) and any(t.get(observed) == num for t in libtables):
            # a name only the library knows: unjudged, unless it is another spelling of a machine-specific name and
            # the file is for a different machine (SHT_AMD64_UNWIND on an i386 file)
            return applicable(observed, prefix, machine)
        return False
    if observed != num:
        return False
    for t in libtables:
        for k, v in t.items():
            if v == num and isinstance(k, str) and k.startswith(prefix) and (known(k) or regnames) and applicable(k, prefix, machine):
                # the library has an applicable name that the registries confirm (under this or another spelling:
                # SHT_AMD64_UNWIND / SHT_X86_64_UNWIND) but reported the raw code
                return False
    return True
