"""Reference line-number state machine, written from DWARF 5 section 6.2.5
(DWARF 2-4 differ only in the registers that exist)."""
FIELDS = ('address', 'op_index', 'file', 'line', 'column', 'is_stmt', 'basic_block', 'end_sequence',
          'prologue_end', 'epilogue_begin', 'isa', 'discriminator')


def run(P, ops, quirks=frozenset()):
    """P: dict(opcode_base, line_range, line_base, mil, maxops, dis); ops: abstract operations
    as produced by vf.gen.linegen. -> list of row dicts."""
    def init():
        return dict(address=0, op_index=0, file=1, line=1, column=0, is_stmt=bool(P['dis']), basic_block=False,
                    end_sequence=False, prologue_end=False, epilogue_begin=False, isa=0, discriminator=0)
    s = init()
    rows = []

    def adv(opadv):
        # 6.2.5.1: operation advance applied to (address, op_index)
        m = P['maxops']
        s['address'] += P['mil'] * ((s['op_index'] + opadv) // m)
        s['op_index'] = (s['op_index'] + opadv) % m

    def emit():
        rows.append(dict(s))
        s['discriminator'] = 0
        s['basic_block'] = False
        s['prologue_end'] = False
        s['epilogue_begin'] = False
    for o in ops:
        k = o[0]
        if k == 'special':
            a = o[1] - P['opcode_base']
            adv(a // P['line_range'])
            s['line'] += P['line_base'] + a % P['line_range']
            emit()
        elif k == 'std':
            op = o[1]
            if op == 1:
                emit()
            elif op == 2:
                adv(o[2])
            elif op == 3:
                s['line'] += o[2]
            elif op == 4:
                s['file'] = o[2]
            elif op == 5:
                s['column'] = o[2]
            elif op == 6:
                s['is_stmt'] = not s['is_stmt']
            elif op == 7:
                s['basic_block'] = True
            elif op == 8:
                adv((255 - P['opcode_base']) // P['line_range'])
            elif op == 9:
                s['address'] += o[2]
                s['op_index'] = 0
            elif op == 10:
                s['prologue_end'] = True
            elif op == 11:
                s['epilogue_begin'] = True
            elif op == 12:
                s['isa'] = o[2]
        elif k == 'ext':
            if o[1] == 1:
                s['end_sequence'] = True
                emit()
                s = init()
            elif o[1] == 2:
                s['address'] = o[2]
                s['op_index'] = 0
            elif o[1] == 4:
                s['discriminator'] = o[2]
            # 3 (define_file) and unknown extended opcodes do not touch the registers
        # 'unkstd': skipped by standard_opcode_lengths
    return rows
