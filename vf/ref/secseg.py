"""binutils' ELF_SECTION_IN_SEGMENT_STRICT (include/elf/internal.h), transcribed.
Values are plain ints; widths: the address/offset type of the class (unsigned arithmetic)."""
PT_LOAD, PT_DYNAMIC, PT_NOTE, PT_PHDR, PT_TLS = 1, 2, 4, 6, 7
PT_GNU_EH_FRAME, PT_GNU_STACK, PT_GNU_RELRO = 0x6474e550, 0x6474e551, 0x6474e552
PT_GNU_SFRAME = 0x6474e554
PT_GNU_MBIND_LO, PT_GNU_MBIND_HI = 0x6474e555, 0x6474e555 + 4095
SHT_NOBITS = 8
SHF_ALLOC, SHF_TLS = 0x2, 0x400


def tbss_special(sec, seg):
    return bool(sec['sh_flags'] & SHF_TLS) and sec['sh_type'] == SHT_NOBITS and seg['p_type'] != PT_TLS


def in_segment_strict(sec, seg, bits, quirks=frozenset()):
    M = (1 << bits) - 1
    flags, st, pt = sec['sh_flags'], sec['sh_type'], seg['p_type']
    size = 0 if tbss_special(sec, seg) else sec['sh_size']
    tls = bool(flags & SHF_TLS)
    alloc = bool(flags & SHF_ALLOC)
    if not ((tls and pt in (PT_TLS, PT_GNU_RELRO, PT_LOAD)) or (not tls and pt not in (PT_TLS, PT_PHDR))):
        return False
    if not alloc and (pt in (PT_LOAD, PT_DYNAMIC, PT_GNU_EH_FRAME, PT_GNU_STACK, PT_GNU_RELRO, PT_GNU_SFRAME)
                      or PT_GNU_MBIND_LO <= pt <= PT_GNU_MBIND_HI):
        return False
    if st != SHT_NOBITS:
        d = (sec['sh_offset'] - seg['p_offset']) & M
        if not (sec['sh_offset'] >= seg['p_offset'] and d <= ((seg['p_filesz'] - 1) & M) and d + size <= seg['p_filesz']):
            return False
    if alloc:
        d = (sec['sh_addr'] - seg['p_vaddr']) & M
        if not (sec['sh_addr'] >= seg['p_vaddr'] and d <= ((seg['p_memsz'] - 1) & M) and d + size <= seg['p_memsz']):
            return False
    # no zero size sections at start or end of PT_DYNAMIC nor PT_NOTE
    if pt in (PT_DYNAMIC, PT_NOTE) and sec['sh_size'] == 0 and seg['p_memsz'] != 0:
        a = st == SHT_NOBITS or (sec['sh_offset'] > seg['p_offset'] and sec['sh_offset'] - seg['p_offset'] < seg['p_filesz'])
        b = (not alloc) or (sec['sh_addr'] > seg['p_vaddr'] and sec['sh_addr'] - seg['p_vaddr'] < seg['p_memsz'])
        if not (a and b):
            return False
    return True
