"""Reference disassembler for ARM EHABI unwind byte-code, written from IHI 0038B table 4
(frame unwinding instructions); text format as printed by llvm-readobj, which the library
cites as its reference. Register masks are 32 bits wide as in llvm-readobj."""
GPR = ("r0", "r1", "r2", "r3", "r4", "r5", "r6", "r7", "r8", "r9", "r10", "fp", "ip", "sp", "lr", "pc")


def gpr(mask):
    return '{%s}' % ', '.join(GPR[i] for i in range(16) if mask >> i & 1)


def regs(mask, p):
    return '{%s}' % ', '.join(p + str(i) for i in range(32) if mask >> i & 1)


def rng_(start, count):
    return ((1 << (count + 1)) - 1) << start


class Truncated(Exception):
    pass


def disasm(bc):
    """-> [(bytes of the instruction as list, text)]"""
    i = 0
    out = []
    n = len(bc)
    while i < n:
        b = bc[i]
        s = i

        def operand():
            if i + 1 >= n:
                raise Truncated()
            return bc[i + 1]
        if b & 0xc0 == 0x00:
            txt = 'vsp = vsp + %u' % (((b & 0x3f) << 2) + 4)
            i += 1
        elif b & 0xc0 == 0x40:
            txt = 'vsp = vsp - %u' % (((b & 0x3f) << 2) + 4)
            i += 1
        elif b & 0xf0 == 0x80:
            m = (operand() << 4) | ((b & 0xf) << 12)
            txt = 'refuse to unwind' if m == 0 else 'pop ' + gpr(m)
            i += 2
        elif b == 0x9d:
            txt = 'reserved (ARM MOVrr)'
            i += 1
        elif b == 0x9f:
            txt = 'reserved (WiMMX MOVrr)'
            i += 1
        elif b & 0xf0 == 0x90:
            txt = 'vsp = r%u' % (b & 0xf)
            i += 1
        elif b & 0xf8 == 0xa0:
            txt = 'pop ' + gpr(rng_(4, b & 7))
            i += 1
        elif b & 0xf8 == 0xa8:
            txt = 'pop ' + gpr(rng_(4, b & 7) | (1 << 14))
            i += 1
        elif b == 0xb0:
            txt = 'finish'
            i += 1
        elif b == 0xb1:
            o = operand()
            txt = 'spare' if (o & 0xf0 or o == 0) else 'pop ' + gpr(o & 0xf)
            i += 2
        elif b == 0xb2:
            j = i + 1
            v = 0
            sh = 0
            while True:
                if j >= n:
                    raise Truncated()
                c = bc[j]
                v |= (c & 0x7f) << sh
                sh += 7
                j += 1
                if not c & 0x80:
                    break
            txt = 'vsp = vsp + %u' % (0x204 + (v << 2))
            i = j
        elif b == 0xb3:
            o = operand()
            txt = 'pop ' + regs(rng_(o >> 4, o & 0xf), 'd')
            i += 2
        elif b & 0xfc == 0xb4:
            txt = 'spare'
            i += 1
        elif b & 0xf8 == 0xb8:
            txt = 'pop ' + regs(rng_(8, b & 7), 'd')
            i += 1
        elif b == 0xc6:
            o = operand()
            txt = 'pop ' + regs(rng_(o >> 4, o & 0xf), 'wR')
            i += 2
        elif b == 0xc7:
            o = operand()
            txt = 'spare' if (o & 0xf0 or o == 0) else 'pop ' + regs(o & 0xf, 'wCGR')
            i += 2
        elif b == 0xc8:
            o = operand()
            txt = 'pop ' + regs(rng_(16 + (o >> 4), o & 0xf), 'd')
            i += 2
        elif b == 0xc9:
            o = operand()
            txt = 'pop ' + regs(rng_(o >> 4, o & 0xf), 'd')
            i += 2
        elif b & 0xf8 == 0xc8:
            txt = 'spare'
            i += 1
        elif b & 0xf8 == 0xc0:
            txt = 'pop ' + regs(rng_(10, b & 7), 'wR')
            i += 1
        elif b & 0xf8 == 0xd0:
            txt = 'pop ' + regs(rng_(8, b & 7), 'd')
            i += 1
        else:
            txt = 'spare'
            i += 1
        out.append((list(bc[s:i]), txt))
    return out
