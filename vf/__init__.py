"""Runtime-monitoring verification machinery for pyelftools (see /verif/DESIGN.md)."""
import os
import sys

VERIF_DIR = os.path.dirname(os.path.dirname(os.path.abspath(__file__)))
REPO = os.environ.get('VERIF_REPO', '/repo')


def use_repo():
    """Make `import elftools` resolve to the tree under verification."""
    if sys.path[0] != REPO:
        sys.path.insert(0, REPO)
    import elftools
    got = os.path.dirname(os.path.dirname(os.path.abspath(elftools.__file__)))
    if os.path.realpath(got) != os.path.realpath(REPO):
        raise RuntimeError('elftools imported from %s, expected %s' % (got, REPO))
