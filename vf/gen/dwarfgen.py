"""Independent DWARF writer: .debug_info/.debug_abbrev/.debug_types trees with every
attribute form and the tables the index forms need, carrying their ground truth.
Written from DWARF 2-5 (sections 7.5, 7.26-7.29); shares no code with elftools."""
import io
import struct

from .leb import uleb, sleb

FORM = {'addr': 0x01, 'block2': 0x03, 'block4': 0x04, 'data2': 0x05, 'data4': 0x06, 'data8': 0x07,
        'string': 0x08, 'block': 0x09, 'block1': 0x0a, 'data1': 0x0b, 'flag': 0x0c, 'sdata': 0x0d,
        'strp': 0x0e, 'udata': 0x0f, 'ref_addr': 0x10, 'ref1': 0x11, 'ref2': 0x12, 'ref4': 0x13,
        'ref8': 0x14, 'ref_udata': 0x15, 'indirect': 0x16, 'sec_offset': 0x17, 'exprloc': 0x18,
        'flag_present': 0x19, 'strx': 0x1a, 'addrx': 0x1b, 'ref_sup4': 0x1c, 'strp_sup': 0x1d,
        'data16': 0x1e, 'line_strp': 0x1f, 'ref_sig8': 0x20, 'implicit_const': 0x21, 'loclistx': 0x22,
        'rnglistx': 0x23, 'ref_sup8': 0x24, 'strx1': 0x25, 'strx2': 0x26, 'strx3': 0x27, 'strx4': 0x28,
        'addrx1': 0x29, 'addrx2': 0x2a, 'addrx3': 0x2b, 'addrx4': 0x2c, 'GNU_ref_alt': 0x1f20,
        'GNU_strp_alt': 0x1f21}
BASE_FORMS = ['addr', 'block2', 'block4', 'data2', 'data4', 'data8', 'string', 'block', 'block1', 'data1',
              'flag', 'sdata', 'strp', 'udata', 'indirect', 'sec_offset', 'exprloc', 'flag_present',
              'data16', 'line_strp', 'implicit_const', 'ref_sup4', 'ref_sup8', 'strp_sup', 'GNU_ref_alt',
              'GNU_strp_alt']
V5_INDEX_FORMS = ['strx', 'strx1', 'strx2', 'strx3', 'strx4', 'addrx', 'addrx1', 'addrx2', 'addrx3', 'addrx4',
                  'loclistx', 'rnglistx']
REF_FORMS = ['ref1', 'ref2', 'ref4', 'ref8', 'ref_udata', 'ref_addr']
UT = {'compile': 1, 'type': 2, 'partial': 3, 'skeleton': 4, 'split_compile': 5, 'split_type': 6}
AT_SIBLING, AT_TYPE = 0x01, 0x49
AT_STR_OFFSETS_BASE, AT_ADDR_BASE, AT_RNGLISTS_BASE, AT_LOCLISTS_BASE = 0x72, 0x73, 0x74, 0x8c
TAGS = [0x11, 0x2e, 0x34, 0x24, 0x0b, 0x13, 0x0d, 0x16, 0x0f, 0x01, 0x4109, 0x5555, 0x3fff]
ATS = [0x03, 0x3a, 0x3b, 0x11, 0x12, 0x1c, 0x0b, 0x3e, 0x2007, 0x3fe1, 0x5a5a, 0x02, 0x38, 0x1b, 0x25] + \
    list(range(0x60, 0x70))
REF_ATS = [0x49, 0x31, 0x47, 0x1d, 0x64]      # type, abstract_origin, specification, containing_type, object_pointer


class Die:
    __slots__ = ('code', 'tag', 'ch', 'attrs', 'children', 'off', 'size', 'parent', 'null', 'pre', 'unit', 'children_term', 'pad')

    def __init__(self, code=0, tag=None, ch=False, null=False):
        self.code, self.tag, self.ch, self.null = code, tag, ch, null
        self.pad = 0              # redundant LEB128 continuation groups in the abbreviation code (0 for almost all entries)
        self.attrs = []       # Attr
        self.children = []
        self.off = self.size = None
        self.parent = None
        self.children_term = None


class Attr:
    __slots__ = ('name', 'form', 'final', 'data', 'raw', 'value', 'off', 'ref', 'prefix', 'width')

    def __init__(self, name, form):
        self.name, self.form = name, form
        self.final = form         # final form after DW_FORM_indirect
        self.data = b''
        self.raw = self.value = None
        self.ref = None           # (target Die, scope 'unit'|'section') to patch after layout
        self.prefix = b''         # indirection prefix bytes
        self.width = 0
        self.off = None


class Unit:
    def __init__(self):
        self.dies = []            # pre-order incl. null entries
        self.section = '.debug_info'


class Built:
    def __init__(self):
        self.sec = {}
        self.units = []
        self.tunits = []
        self.le = True

    def descriptors(self, stream_cls=io.BytesIO):
        return {n: stream_cls(b) for n, b in self.sec.items()}


class Gen:
    def __init__(self, rng, le):
        self.rng, self.le = rng, le
        self.order = 'little' if le else 'big'
        self.strs = bytearray(b'\0')
        self.lstrs = bytearray(b'\0')
        self.str_offsets = bytearray()
        self.addr = bytearray()
        self.loclists = bytearray()
        self.rnglists = bytearray()

    def I(self, v, w):
        return v.to_bytes(w, self.order)

    def add_str(self, tab):
        r = self.rng
        t = ('n%d' % r.randint(0, 10 ** 6)).encode() + b'x' * r.choice([0, 0, 0, 57, 58, 59, 60, 122, 300])
        if r.random() < 0.05:
            t = b''
        if r.random() < 0.1:
            t += 'é中'.encode('utf-8')
        buf = self.strs if tab == 'str' else self.lstrs
        o = len(buf)
        buf += t + b'\0'
        return o, t


def gen_value(g, form, ver, asz, osz, ctx, rng, depth=0):
    """Encode one attribute value -> Attr fields (data, raw, value, final form)."""
    a = Attr(None, form)
    r = rng
    f = form
    if f == 'addr':
        v = r.choice([0, 1, 2 ** (8 * asz) - 1, 2 ** (8 * asz - 1), r.getrandbits(8 * asz)])
        a.data, a.raw, a.value = g.I(v, asz), v, v
    elif f in ('data1', 'data2', 'data4', 'data8'):
        w = int(f[4:])
        v = r.choice([0, 1, 2 ** (8 * w) - 1, 2 ** (8 * w - 1), r.getrandbits(8 * w)])
        a.data, a.raw, a.value = g.I(v, w), v, v
    elif f == 'data16':
        b = bytes(r.getrandbits(8) for _ in range(16))
        a.data, a.raw, a.value = b, list(b), list(b)
    elif f in ('block1', 'block2', 'block4', 'block', 'exprloc'):
        n = r.choice([0, 1, 5, 127, 128, 130, 255, 256] + ([70000] if ctx.get('big_blocks', True) and r.random() < 0.02 and f not in ('block1', 'block2') else []))
        if f == 'block1':
            n = min(n, 255)
        b = bytes(r.getrandbits(8) for _ in range(n)) if n < 1000 else bytes(n)
        pad = r.choice([0, 0, 1]) if f in ('block', 'exprloc') else 0
        pre = {'block1': lambda: g.I(n, 1), 'block2': lambda: g.I(n, 2), 'block4': lambda: g.I(n, 4)}.get(
            f, lambda: uleb(n, pad))()
        a.data, a.raw, a.value = pre + b, list(b), list(b)
    elif f == 'string':
        t = ('s%d' % r.randint(0, 999)).encode() + b'y' * r.choice([0, 0, 61, 62, 63, 64, 200])
        a.data, a.raw, a.value = t + b'\0', t, t
    elif f == 'flag':
        v = r.choice([0, 1, 2, 255])
        a.data, a.raw, a.value = bytes([v]), v, v != 0
    elif f == 'flag_present':
        a.data, a.raw, a.value = b'', b'', True
    elif f == 'sdata':
        v = r.choice([0, -1, 63, -64, 64, -65, 2 ** 31, -2 ** 31, 2 ** 63 - 1, -2 ** 63, r.getrandbits(40) - 2 ** 39])
        a.data, a.raw, a.value = sleb(v, r.choice([0, 0, 1, 3])), v, v
    elif f == 'udata':
        v = r.choice([0, 1, 127, 128, 16383, 16384, 2 ** 32, 2 ** 64 - 1, r.getrandbits(30)])
        a.data, a.raw, a.value = uleb(v, r.choice([0, 0, 1, 3])), v, v
    elif f == 'strp':
        o, t = g.add_str('str')
        a.data, a.raw, a.value = g.I(o, osz), o, t
    elif f == 'line_strp':
        o, t = g.add_str('l')
        a.data, a.raw, a.value = g.I(o, osz), o, t
    elif f in ('sec_offset', 'strp_sup', 'GNU_ref_alt', 'GNU_strp_alt'):
        v = r.choice([0, 1, 2 ** (8 * osz) - 1, r.getrandbits(31)])
        a.data, a.raw, a.value = g.I(v, osz), v, v
    elif f == 'ref_sup4':
        v = r.choice([0, 2 ** 32 - 1, r.getrandbits(32)])
        a.data, a.raw, a.value = g.I(v, 4), v, v
    elif f in ('ref_sup8', 'ref_sig8'):
        v = r.choice([0, 2 ** 64 - 1, r.getrandbits(64)])
        a.data, a.raw, a.value = g.I(v, 8), v, v
    elif f in ('strx', 'strx1', 'strx2', 'strx3', 'strx4'):
        w = {'strx1': 1, 'strx2': 2, 'strx3': 3, 'strx4': 4}.get(f)
        if w is not None and len(ctx['stroffs']) >= 1 << (8 * w):
            idx = r.randrange(1 << (8 * w))     # table outgrew the index width: reuse an entry
            t = ctx['strtexts'][idx]
        else:
            o, t = g.add_str('str')
            idx = len(ctx['stroffs'])
            ctx['stroffs'].append(o)
            ctx['strtexts'].append(t)
        a.data, a.raw, a.value = (uleb(idx, r.choice([0, 0, 1])) if w is None else g.I(idx, w)), idx, t
    elif f in ('addrx', 'addrx1', 'addrx2', 'addrx3', 'addrx4'):
        w = {'addrx1': 1, 'addrx2': 2, 'addrx3': 3, 'addrx4': 4}.get(f)
        if w is not None and len(ctx['addrs']) >= 1 << (8 * w):
            idx = r.randrange(1 << (8 * w))
            v = ctx['addrs'][idx]
        else:
            v = r.choice([0, 2 ** (8 * asz) - 1, r.getrandbits(8 * asz)])
            idx = len(ctx['addrs'])
            ctx['addrs'].append(v)
        a.data, a.raw, a.value = (uleb(idx, r.choice([0, 0, 1])) if w is None else g.I(idx, w)), idx, v
    elif f in ('loclistx', 'rnglistx'):
        tab = ctx['locoffs'] if f == 'loclistx' else ctx['rngoffs']
        idx = len(tab)
        tab.append(None)      # filled by the table builder: entry offset relative to the table base
        a.data, a.raw, a.value = uleb(idx), idx, ('listx', f, idx)
    elif f == 'indirect':
        cands = [x for x in ctx['forms'] if x not in ('implicit_const',) and (depth < 2 or x != 'indirect')]
        real = r.choice(cands)
        inner = gen_value(g, real, ver, asz, osz, ctx, rng, depth + 1)
        a.data, a.raw, a.value, a.final = uleb(FORM[real]) + inner.data, inner.raw, inner.value, inner.final
        a.ref = inner.ref
        a.prefix = uleb(FORM[real]) + inner.prefix
        a.width = inner.width
    elif f in REF_FORMS:
        if f == 'ref_addr':
            w = asz if ver == 2 else osz
        else:
            w = {'ref1': 1, 'ref2': 2, 'ref4': 4, 'ref8': 8, 'ref_udata': 4}[f]
        a.width = w
        a.data = bytes(w)
        a.ref = 'pending'
    else:
        raise KeyError(f)
    return a


def enc_ref(g, form, w, v):
    if form == 'ref_udata':
        return uleb(v, 4 - len(uleb(v)))      # padded to the reserved 4 bytes
    return g.I(v, w)


def gen_info(rng, le, nunits=None, versions=(2, 3, 4, 5), exclude=(), unit_types=None, max_depth=5,
             max_kids=4, sibling=None, types_section=False, small=False, top_extra=None, ref_attrs=True,
             shared_abbrev=None, allow_big=True, force=None, init_str=None, init_lstr=None, big_blocks=True):
    """Build a set of debug sections. Returns Built."""
    g = Gen(rng, le)
    if init_str:
        g.strs = bytearray(init_str)       # tables other generators already index into
    if init_lstr:
        g.lstrs = bytearray(init_lstr)
    B = Built()
    B.le = le
    info = bytearray()
    types = bytearray()
    abbrev = bytearray()
    nunits = nunits or rng.choice([1, 1, 2, 3, 4, 6])
    shared = rng.random() < 0.3 if shared_abbrev is None else shared_abbrev
    shared_tab = None
    pending_units = []
    for ui in range(nunits):
        ver = rng.choice(versions)
        fmt = rng.choice([32, 64])
        asz = rng.choice([4, 8])
        if force and ui < len(force):      # caller-fixed unit parameters
            ver = force[ui].get('ver', ver)
            fmt = force[ui].get('fmt', fmt)
            asz = force[ui].get('asz', asz)
        osz = fmt // 8
        in_types = types_section and ver == 4 and rng.random() < 0.5
        if ver >= 5:
            ut = rng.choice(unit_types or ['compile', 'compile', 'partial', 'skeleton', 'split_compile', 'type', 'split_type'])
        else:
            ut = 'type' if in_types else 'compile'
        forms = [f for f in BASE_FORMS if f not in exclude]
        if ver >= 5:
            forms += [f for f in V5_INDEX_FORMS if f not in exclude]
        sibmode = sibling if sibling is not None else rng.choice(['none', 'none', 'ref4', 'ref1', 'ref2', 'ref8', 'ref_udata',
                                                                   'ref_addr', 'mixed'])
        if in_types and sibmode in ('ref_addr', 'mixed'):
            sibmode = 'ref4'      # DW_FORM_ref_addr always designates .debug_info; it cannot link siblings of a type unit
        ctx = dict(stroffs=[], addrs=[], locoffs=[], rngoffs=[], forms=forms, strtexts=[], big_blocks=big_blocks and allow_big)
        # ---- abbreviation declarations
        if shared and shared_tab is not None and shared_tab['ver5'] == (ver >= 5) and shared_tab['sib'] == sibmode:
            decls, abbrev_off = shared_tab['decls'], shared_tab['off']
        else:
            if rng.random() < 0.3:
                abbrev += bytes(rng.getrandbits(8) | 1 for _ in range(rng.randrange(1, 9)))   # unrelated bytes between tables
            abbrev_off = len(abbrev)
            decls = {}
            nab = rng.randint(3, 8)
            codes = rng.sample([1, 2, 3, 4, 5, 6, 7, 127, 128, 129, 300, 16383, 16384, 2 ** 21 + 5, 2 ** 28 + 1], nab)
            for ci, code in enumerate(codes):
                tag = rng.choice(TAGS)
                ch = ci < nab // 2 + 1
                specs = []
                if ch and sibmode != 'none' and rng.random() < 0.8:
                    sf = sibmode if sibmode != 'mixed' else rng.choice(REF_FORMS)
                    specs.append((AT_SIBLING, sf, None))
                for _ in range(rng.randint(0, 6)):
                    an = rng.choice(ATS)
                    if any(s[0] == an for s in specs):
                        continue
                    f = rng.choice(forms)
                    ic = rng.choice([0, -1, 1, 63, -64, 2 ** 40, -2 ** 40, 2 ** 63 - 1, -2 ** 63]) if f == 'implicit_const' else None
                    specs.append((an, f, ic))
                if ref_attrs and rng.random() < 0.5:
                    an = rng.choice(REF_ATS)
                    if not any(s[0] == an for s in specs):
                        specs.insert(rng.randrange(len(specs) + 1), (an, rng.choice(REF_FORMS + ['ref4', 'indirect-ref']), None))
                if rng.random() < 0.15 and 'ref_sig8' not in exclude:
                    if not any(s[0] == 0x69 for s in specs):
                        specs.append((0x69, 'ref_sig8', None))    # DW_AT_signature
                decls[code] = (tag, ch, specs)
            # the unit entry's own declaration
            top_code = rng.choice([8, 9, 200, 2 ** 14 + 3])
            while top_code in decls:
                top_code += 1
            tspecs = []
            if ver >= 5:
                bases = [(AT_STR_OFFSETS_BASE, 'sec_offset', None), (AT_ADDR_BASE, 'sec_offset', None),
                         (AT_RNGLISTS_BASE, 'sec_offset', None), (AT_LOCLISTS_BASE, 'sec_offset', None)]
                uses = []
                for _ in range(rng.randint(0, 4)):
                    an = rng.choice(ATS)
                    if not any(s[0] == an for s in uses):
                        uses.append((an, rng.choice(forms), None))
                uses = [(an, f, rng.choice([0, -5]) if f == 'implicit_const' else None) for an, f, _ in uses]
                tspecs = bases + uses if rng.random() < 0.5 else uses + bases   # bases before or after first use
                if rng.random() < 0.3:
                    rng.shuffle(tspecs)
            else:
                for _ in range(rng.randint(0, 4)):
                    an = rng.choice(ATS)
                    if not any(s[0] == an for s in tspecs):
                        f = rng.choice(forms)
                        tspecs.append((an, f, rng.choice([0, -5]) if f == 'implicit_const' else None))
            extra = top_extra(ui, ver, fmt, asz) if top_extra else []
            for an, f, val in extra:
                tspecs.append((an, f, ('fixed', val)))
            decls[top_code] = (rng.choice([0x11, 0x3c, 0x41]), True, tspecs)
            decls['top'] = top_code
            order = [c for c in decls if c != 'top']
            rng.shuffle(order)
            for code in order:
                tag, ch, specs = decls[code]
                abbrev += uleb(code) + uleb(tag) + bytes([1 if ch else 0])
                for an, f, ic in specs:
                    ff = 'indirect' if f == 'indirect-ref' else f
                    abbrev += uleb(an) + uleb(FORM[ff])
                    if f == 'implicit_const':
                        abbrev += sleb(ic)
                abbrev += b'\0\0'
            abbrev += b'\0'
            if shared:
                shared_tab = dict(decls=decls, off=abbrev_off, ver5=ver >= 5, sib=sibmode)
        # ---- the tree
        U = Unit()
        U.ver, U.fmt, U.asz, U.ut, U.abbrev_off, U.sibmode = ver, fmt, asz, ut, abbrev_off, sibmode
        U.section = '.debug_types' if in_types else '.debug_info'
        top_code = decls['top']
        withkids = [c for c, d in decls.items() if c != 'top' and c != top_code and d[1]]
        leaf = [c for c, d in decls.items() if c != 'top' and c != top_code and not d[1]] or withkids
        anyc = [c for c in decls if c != 'top' and c != top_code]
        budget = [rng.choice([4, 12, 40]) if small else rng.choice([6, 20, 60, 150])]

        def make(code, depth, parent):
            tag, ch, specs = decls[code]
            d = Die(code, tag, ch)
            if rng.random() < 0.02:
                d.pad = 1                        # abbreviation code in a non-minimal LEB128 spelling
            d.parent = parent
            d.unit = U
            U.dies.append(d)
            for an, f, ic in specs:
                if f == 'implicit_const':
                    a = Attr(an, f)
                    a.raw = a.value = ic
                elif isinstance(ic, tuple):       # fixed caller-supplied value
                    a = Attr(an, f)
                    w = osz if f == 'sec_offset' else int(f[4:])
                    a.data, a.raw, a.value = g.I(ic[1], w), ic[1], ic[1]
                elif f == 'indirect-ref':
                    real = rng.choice(REF_FORMS)
                    inner = gen_value(g, real, ver, asz, osz, ctx, rng)
                    a = Attr(an, 'indirect')
                    a.final, a.prefix, a.width, a.ref = real, uleb(FORM[real]), inner.width, 'pending'
                    a.data = a.prefix + inner.data
                else:
                    a = gen_value(g, f, ver, asz, osz, ctx, rng)
                    a.name = an
                a.name = an
                d.attrs.append(a)
            if ch:
                nk = 0
                if depth < max_depth and budget[0] > 0:
                    nk = rng.choice([0, 1, 2, 3, max_kids]) if depth else rng.randint(1, max_kids)
                    if allow_big and depth == 1 and rng.random() < 0.01 and not small:
                        nk = 400
                for _ in range(nk):
                    if budget[0] <= 0 and nk < 100:
                        break
                    budget[0] -= 1
                    c = rng.choice(leaf if (depth >= max_depth - 1 or nk >= 100) else anyc)
                    d.children.append(make(c, depth + 1, d))
                z = Die(null=True)
                if rng.random() < 0.04:
                    z.pad = rng.choice([1, 2])       # a null entry is an abbreviation code 0 in any LEB128 spelling
                z.parent = d
                z.unit = U
                U.dies.append(z)
                d.children_term = z
            return d
        top = make(top_code, 0, None)
        U.top = top
        U.ctx = ctx
        pending_units.append(U)
    # ---- layout: units in order, .debug_types units in their own section
    pos = {'.debug_info': 0, '.debug_types': 0}
    for U in pending_units:
        osz = U.fmt // 8
        ill = 4 if U.fmt == 32 else 12
        if U.section == '.debug_types':
            hdrlen = ill + 2 + osz + 1 + 8 + osz
        elif U.ver >= 5:
            hdrlen = ill + 2 + 1 + 1 + osz + (8 if U.ut in ('skeleton', 'split_compile') else 0) + \
                (8 + osz if U.ut in ('type', 'split_type') else 0)
        else:
            hdrlen = ill + 2 + osz + 1
        U.off = pos[U.section]
        U.hdrlen = hdrlen
        p = U.off + hdrlen
        for d in U.dies:
            d.off = p
            if d.null:
                d.size = 1 + d.pad
            else:
                sz = len(uleb(d.code, d.pad))
                for a in d.attrs:
                    a.off = p + sz
                    sz += len(a.data)
                d.size = sz
            p += d.size
        U.size = p - U.off
        pos[U.section] = p
    # ---- resolve references, base attributes and tables
    all_info = [U for U in pending_units if U.section == '.debug_info']
    sigs = {}
    for U in pending_units:
        if U.section == '.debug_types' or U.ut in ('type', 'split_type'):
            U.signature = rng.getrandbits(64)
            real = [d for d in U.dies if not d.null]
            U.type_die = rng.choice(real)
            sigs[U.signature] = U
    for U in pending_units:
        osz = U.fmt // 8
        real = [d for d in U.dies if not d.null]
        ctx = U.ctx
        # tables for this unit (appended in unit order; bases known now)
        if U.ver >= 5:
            hdr = 8 if U.fmt == 32 else 16
            U.so_base = len(g.str_offsets) + hdr
            tbl = b''.join(g.I(o, osz) for o in ctx['stroffs'])
            g.str_offsets += (g.I(len(tbl) + 4, 4) if U.fmt == 32 else b'\xff\xff\xff\xff' + g.I(len(tbl) + 4, 8)) + \
                g.I(5, 2) + g.I(0, 2) + tbl
            U.addr_base = len(g.addr) + hdr
            at = b''.join(g.I(x, U.asz) for x in ctx['addrs'])
            g.addr += (g.I(len(at) + 4, 4) if U.fmt == 32 else b'\xff\xff\xff\xff' + g.I(len(at) + 4, 8)) + \
                g.I(5, 2) + bytes([U.asz, 0]) + at
            for name, buf, offs, endbyte in (('rng', g.rnglists, ctx['rngoffs'], 0), ('loc', g.loclists, ctx['locoffs'], 0)):
                n = len(offs)
                hdr2 = (12 if U.fmt == 32 else 20)
                base = len(buf) + hdr2
                # each list: a lone end_of_list byte, preceded by a random gap
                lists = bytearray()
                rel = []
                for k in range(n):
                    lists += b'\0' * 0
                    rel.append(n * osz + len(lists))
                    lists += b'\0'           # DW_RLE/DW_LLE_end_of_list
                body = g.I(5, 2) + bytes([U.asz, 0]) + g.I(n, 4) + b''.join(g.I(x, osz) for x in rel) + bytes(lists)
                buf += (g.I(len(body), 4) if U.fmt == 32 else b'\xff\xff\xff\xff' + g.I(len(body), 8)) + body
                if name == 'rng':
                    U.rng_base, U.rng_rel = base, rel
                else:
                    U.loc_base, U.loc_rel = base, rel
        for d in real:
            for a in d.attrs:
                if a.ref == 'pending':
                    form = a.final
                    if a.name == AT_SIBLING:
                        sibs = d.parent.children if d.parent else [d]
                        i = sibs.index(d)
                        tgt = sibs[i + 1] if i + 1 < len(sibs) else (d.parent.children_term if d.parent else d.children_term)
                    elif form == 'ref_addr':
                        if not all_info:
                            return None       # a section-relative reference needs a .debug_info unit to point into
                        tu = rng.choice(all_info)
                        tgt = rng.choice([x for x in tu.dies if not x.null])
                    else:
                        tgt = rng.choice(real)
                    v = tgt.off if form == 'ref_addr' else tgt.off - U.off
                    if v >= 1 << (8 * a.width) or (form == 'ref_udata' and v >= 1 << 28):
                        return None       # does not fit: caller retries with another seed
                    a.data = a.prefix + enc_ref(g, form, a.width, v)
                    a.raw = a.value = v
                    a.ref = tgt
                elif a.final == 'ref_sig8' and sigs and rng.random() < 0.7:
                    tu = rng.choice(list(sigs.values()))
                    a.data = a.prefix + g.I(tu.signature, 8)
                    a.raw = a.value = tu.signature
                    a.ref = ('sig', tu)
                elif a.name in (AT_STR_OFFSETS_BASE, AT_ADDR_BASE, AT_RNGLISTS_BASE, AT_LOCLISTS_BASE) and d is U.top \
                        and U.ver >= 5 and a.form == 'sec_offset':
                    v = {AT_STR_OFFSETS_BASE: U.so_base, AT_ADDR_BASE: U.addr_base, AT_RNGLISTS_BASE: U.rng_base,
                         AT_LOCLISTS_BASE: U.loc_base}[a.name]
                    a.data, a.raw, a.value = g.I(v, osz), v, v
                elif isinstance(a.value, tuple) and a.value and a.value[0] == 'listx':
                    _, f, idx = a.value
                    a.value = (U.loc_base + U.loc_rel[idx]) if f == 'loclistx' else (U.rng_base + U.rng_rel[idx])
    # ---- emit
    out = {'.debug_info': info, '.debug_types': types}
    for U in pending_units:
        osz = U.fmt // 8
        ulen = U.size - (4 if U.fmt == 32 else 12)
        il = g.I(ulen, 4) if U.fmt == 32 else b'\xff\xff\xff\xff' + g.I(ulen, 8)
        if U.section == '.debug_types':
            hdr = il + g.I(U.ver, 2) + g.I(U.abbrev_off, osz) + bytes([U.asz]) + g.I(U.signature, 8) + \
                g.I(U.type_die.off - U.off, osz)
        elif U.ver >= 5:
            hdr = il + g.I(U.ver, 2) + bytes([UT[U.ut], U.asz]) + g.I(U.abbrev_off, osz)
            if U.ut in ('skeleton', 'split_compile'):
                U.dwo_id = rng.getrandbits(64)
                hdr += g.I(U.dwo_id, 8)
            elif U.ut in ('type', 'split_type'):
                hdr += g.I(U.signature, 8) + g.I(U.type_die.off - U.off, osz)
        else:
            hdr = il + g.I(U.ver, 2) + g.I(U.abbrev_off, osz) + bytes([U.asz])
        assert len(hdr) == U.hdrlen
        buf = out[U.section]
        assert len(buf) == U.off
        buf += hdr
        for d in U.dies:
            if d.null:
                buf += uleb(0, d.pad)
            else:
                buf += uleb(d.code, d.pad) + b''.join(a.data for a in d.attrs)
            assert len(buf) == d.off + d.size, (len(buf), d.off, d.size)
        U.ulen = ulen
        (B.tunits if U.section == '.debug_types' else B.units).append(U)
    B.sec = {'.debug_info': bytes(info), '.debug_abbrev': bytes(abbrev), '.debug_str': bytes(g.strs),
             '.debug_line_str': bytes(g.lstrs)}
    if types:
        B.sec['.debug_types'] = bytes(types)
    if g.str_offsets:
        B.sec['.debug_str_offsets'] = bytes(g.str_offsets)
        B.sec['.debug_addr'] = bytes(g.addr)
        B.sec['.debug_rnglists'] = bytes(g.rnglists)
        B.sec['.debug_loclists'] = bytes(g.loclists)
    B.sigs = sigs
    return B


def gen_info_retry(rng, le, **kw):
    for _ in range(50):
        b = gen_info(rng, le, **kw)
        if b is not None:
            return b
    kw['sibling'] = 'ref4'
    kw['ref_attrs'] = False
    return gen_info(rng, le, **kw)


ORDER = ['.debug_info', '.debug_aranges', '.debug_abbrev', '.debug_frame', '.eh_frame', '.debug_str',
         '.debug_loc', '.debug_ranges', '.debug_line', '.debug_pubtypes', '.debug_pubnames', '.debug_addr',
         '.debug_str_offsets', '.debug_line_str', '.debug_loclists', '.debug_rnglists', '.debug_sup',
         '.gnu_debugaltlink', '.debug_types']


def make_dwarfinfo(sections, le, stream_cls=io.BytesIO, default_address_size=8, machine='x64', addresses=None):
    """DWARFInfo through its public constructor; returns (dwarfinfo, {name: stream})."""
    from elftools.dwarf.dwarfinfo import DWARFInfo, DebugSectionDescriptor, DwarfConfig
    streams = {}
    args = []
    for n in ORDER:
        b = sections.get(n)
        if b is None:
            args.append(None)
        else:
            s = stream_cls(b)
            streams[n] = s
            args.append(DebugSectionDescriptor(s, n, 0, len(b), (addresses or {}).get(n, 0)))
    return DWARFInfo(DwarfConfig(le, machine, default_address_size), *args), streams
