"""LEB128 encoders/decoders written from the DWARF standard (appendix C)."""


def uleb(v, pad=0):
    """Minimal ULEB128 of v >= 0, followed by `pad` redundant continuation groups."""
    assert v >= 0
    out = bytearray()
    while True:
        b = v & 0x7f
        v >>= 7
        if v or pad:
            out.append(b | 0x80)
        else:
            out.append(b)
            break
        if not v and pad:
            for i in range(pad):
                out.append(0x80 if i < pad - 1 else 0x00)
            break
    return bytes(out)


def sleb(v, pad=0):
    out = bytearray()
    while True:
        b = v & 0x7f
        v >>= 7          # arithmetic shift
        done = (v == 0 and not b & 0x40) or (v == -1 and b & 0x40)
        if done and not pad:
            out.append(b)
            break
        out.append(b | 0x80)
        if done:
            fill = 0x7f if v == -1 else 0x00
            for i in range(pad):
                out.append(fill | (0x80 if i < pad - 1 else 0))
            break
    return bytes(out)


def dec_uleb(b, pos=0):
    """-> (value, new position) or raises IndexError when truncated."""
    v = 0
    shift = 0
    while True:
        x = b[pos]
        pos += 1
        v |= (x & 0x7f) << shift
        shift += 7
        if not x & 0x80:
            return v, pos


def dec_sleb(b, pos=0):
    v = 0
    shift = 0
    while True:
        x = b[pos]
        pos += 1
        v |= (x & 0x7f) << shift
        shift += 7
        if not x & 0x80:
            if x & 0x40:
                v -= 1 << shift
            return v, pos
