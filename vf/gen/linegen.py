"""Line-number program units (header versions 2-5 + opcode stream) with ground truth."""
import struct
from .leb import uleb, sleb

LNCT = {1: 'DW_LNCT_path', 2: 'DW_LNCT_directory_index', 3: 'DW_LNCT_timestamp', 4: 'DW_LNCT_size', 5: 'DW_LNCT_MD5'}
F = {'string': 0x08, 'line_strp': 0x1f, 'strp': 0x0e, 'udata': 0x0f, 'data1': 0x0b, 'data2': 0x05, 'data4': 0x06,
     'data8': 0x07, 'data16': 0x1e, 'block': 0x09}
STD_LENS = [0, 1, 1, 1, 1, 0, 0, 0, 1, 0, 0, 1]


class LineUnit:
    pass


def gen_unit(rng, le, strtab, lstrtab, ver=None, fmt=None, asz=None, nops=None, allow_unk_std=True, allow_vliw=True,
             terminate=False):
    """strtab/lstrtab: bytearrays of .debug_str/.debug_line_str to append to.
    -> LineUnit with .data (unit bytes), ground truth header tables, params, ops."""
    E = '<' if le else '>'
    order = 'little' if le else 'big'
    u = LineUnit()
    u.ver = ver or rng.choice([2, 3, 4, 5])
    u.fmt = fmt or rng.choice([32, 64])
    u.asz = asz or rng.choice([4, 8])
    osz = u.fmt // 8
    bases = [1, 4, 10, 13, 13, 13, 13] + ([14, 20, 100, 255] if allow_unk_std else [])
    u.opcode_base = rng.choice(bases)
    u.line_range = rng.choice([1, 2, 9, 12, 14, 255])
    u.line_base = rng.choice([-128, -5, -3, 0, 1, 127])
    u.mil = rng.choice([1, 1, 2, 4, 8])
    u.maxops = rng.choice([1, 1, 2, 3, 4, 8]) if (allow_vliw and u.ver >= 4) else 1
    u.dis = rng.choice([0, 1])
    lens = STD_LENS + [rng.randint(0, 3) for _ in range(300)]
    u.std_lens = lens[:max(0, u.opcode_base - 1)]
    body = bytes([u.mil]) + (bytes([u.maxops]) if u.ver >= 4 else b'') + bytes([u.dis]) + \
        struct.pack('b', u.line_base) + bytes([u.line_range, u.opcode_base]) + bytes(u.std_lens)

    def name(i, p='f'):
        return (p + '%d' % rng.randint(0, 10 ** 5)).encode() + b'z' * rng.choice([0, 0, 58, 59, 60, 130]) + \
            ('é'.encode() if rng.random() < 0.1 else b'')
    if u.ver < 5:
        u.dirs = [name(i, 'dir') for i in range(rng.choice([0, 1, 2, 5]))]
        u.files = [(name(i), rng.choice([0, 1, len(u.dirs), 200]), rng.choice([0, 1, 2 ** 32, rng.getrandbits(31)]),
                    rng.choice([0, 127, 128, 2 ** 40])) for i in range(rng.choice([0, 1, 2, 7]))]
        for d in u.dirs:
            body += d + b'\0'
        body += b'\0'
        for n, di, mt, ln in u.files:
            body += n + b'\0' + uleb(di) + uleb(mt) + uleb(ln)
        body += b'\0'
    else:
        def fmt_entries(kinds, count, isfile):
            fmtspec = []
            for ct in kinds:
                if ct == 1:
                    form = rng.choice(['string', 'line_strp', 'strp'])
                elif ct == 2:
                    form = rng.choice(['udata', 'data1', 'data2'])
                elif ct == 3:
                    form = rng.choice(['udata', 'data4', 'data8', 'block'])
                elif ct == 4:
                    form = rng.choice(['udata', 'data1', 'data2', 'data4', 'data8'])
                else:
                    form = 'data16'
                fmtspec.append((ct, form))
            out = bytes([len(fmtspec)]) + b''.join(uleb(ct) + uleb(F[f]) for ct, f in fmtspec)
            out += uleb(count)
            entries = []
            for i in range(count):
                e = {}
                for ct, form in fmtspec:
                    if form == 'string':
                        v = name(i)
                        out += v + b'\0'
                    elif form in ('line_strp', 'strp'):
                        v = name(i)
                        tab = lstrtab if form == 'line_strp' else strtab
                        o = len(tab)
                        tab += v + b'\0'
                        out += o.to_bytes(osz, order)
                    elif form == 'udata':
                        v = rng.choice([0, 1, 127, 128, 2 ** 33])
                        out += uleb(v)
                    elif form.startswith('data') and form != 'data16':
                        w = int(form[4:])
                        v = rng.getrandbits(8 * w)
                        out += v.to_bytes(w, order)
                    elif form == 'data16':
                        b = bytes(rng.getrandbits(8) for _ in range(16))
                        out += b
                        v = list(b)
                    else:
                        b = bytes(rng.getrandbits(8) for _ in range(rng.choice([0, 4, 8])))
                        out += uleb(len(b)) + b
                        v = list(b)
                    e[LNCT[ct]] = v
                entries.append(e)
            return out, fmtspec, entries
        dk = [1] + ([2] if False else [])
        db, u.dir_format, u.directories = fmt_entries([1], rng.choice([1, 2, 4] * 6 + [127, 128, 200]), False)     # counts are ULEB128: both sides of 128
        fk = [1] + rng.sample([2, 3, 4, 5], rng.randint(0, 4))
        rng.shuffle(fk)
        if 1 not in fk:
            fk.insert(0, 1)
        fb, u.file_format, u.file_names = fmt_entries(fk, rng.choice([0, 1, 2, 6] * 5 + [127, 128, 300]), True)
        body += db + fb
    # ---- program
    prog = bytearray()
    ops = []
    n = rng.choice([0, 1, 3, 10, 40, 60, 300]) if nops is None else nops
    defined = []
    for i in range(n):
        k = rng.random()
        if k < 0.35 and u.opcode_base <= 255:
            op = rng.randint(max(u.opcode_base, 1), 255)
            prog.append(op)
            ops.append(('special', op))
        elif k < 0.8:
            cands = [o for o in range(1, min(u.opcode_base, 13))]
            if u.opcode_base > 13:
                cands += rng.sample(range(13, u.opcode_base), min(4, u.opcode_base - 13))
            if not cands:
                continue
            op = rng.choice(cands)
            prog.append(op)
            if op == 2:
                v = rng.choice([0, 1, 5, 127, 128, 200, 70000])
                prog += uleb(v, rng.choice([0, 0, 1, 9, 11] if allow_vliw else [0, 0, 1]))       # padded to ten bytes and more: still the same number
                ops.append(('std', op, v))
            elif op == 3:
                v = rng.choice([-3, 0, 1, 63, 64, -64, -65, 100, -100000])
                prog += sleb(v, rng.choice([0, 0, 1, 8, 9, 11] if allow_vliw else [0, 0, 1]))   # (the cross-validation programs keep to what LLVM accepts)
                ops.append(('std', op, v))
            elif op in (4, 5, 12):
                v = rng.choice([0, 1, 7, 127, 128, 300, 2 ** 32])
                prog += uleb(v, rng.choice([0, 0, 0, 9] if allow_vliw else [0]))
                ops.append(('std', op, v))
            elif op == 9:
                v = rng.choice([0, 1, 0x1234, 0xffff])
                prog += struct.pack(E + 'H', v)
                ops.append(('std', op, v))
            elif op >= 13:
                args = [rng.choice([0, 5, 127, 128, 500, 2 ** 30]) for _ in range(u.std_lens[op - 1])]
                for a in args:
                    prog += uleb(a)
                ops.append(('unkstd', op, args))
            else:
                ops.append(('std', op))
        else:
            e = rng.choice([1, 1, 2, 2, 3, 4, 4, 0x80, 0x05, 0xff])
            if e == 1:
                prog += b'\0\x01\x01'
                ops.append(('ext', 1))
            elif e == 2:
                a = rng.choice([0, 0x1000, 0x7fff0000, 2 ** (8 * u.asz - 1)])
                prog += b'\0' + uleb(1 + u.asz) + b'\x02' + a.to_bytes(u.asz, order)
                ops.append(('ext', 2, a))
            elif e == 3:
                if u.ver >= 5:
                    continue        # DW_LNE_define_file is reserved in DWARF 5
                nm = name(i, 'df')
                ent = (nm, rng.choice([0, 1, 300]), rng.choice([0, 2 ** 31]), rng.choice([0, 4096]))
                pl = nm + b'\0' + uleb(ent[1]) + uleb(ent[2]) + uleb(ent[3])
                prog += b'\0' + uleb(1 + len(pl)) + b'\x03' + pl
                ops.append(('ext', 3, ent))
                defined.append(ent)
            elif e == 4:
                v = rng.choice([0, 1, 127, 128, 300, 2 ** 31])
                b = uleb(v)
                prog += b'\0' + uleb(1 + len(b)) + b'\x04' + b
                ops.append(('ext', 4, v))
            else:
                pl = bytes(rng.getrandbits(8) for _ in range(rng.choice([0, 1, 5, 130])))
                prog += b'\0' + uleb(1 + len(pl), rng.choice([0, 0, 1])) + bytes([e]) + pl
                ops.append(('ext', e))
    if terminate and (not ops or ops[-1] != ('ext', 1)):
        prog += b'\0\x01\x01'
        ops.append(('ext', 1))
    u.ops = ops
    u.defined = defined
    pre = struct.pack(E + 'H', u.ver) + (bytes([u.asz, 0]) if u.ver >= 5 else b'')
    unit = pre + len(body).to_bytes(osz, order) + body + bytes(prog)
    il = len(unit).to_bytes(4, order) if u.fmt == 32 else b'\xff\xff\xff\xff' + len(unit).to_bytes(8, order)
    u.data = il + unit
    u.header_length = len(body)
    u.unit_length = len(unit)
    u.prog_rel = len(il) + len(pre) + osz + len(body)
    u.params = dict(opcode_base=u.opcode_base, line_range=u.line_range, line_base=u.line_base, mil=u.mil,
                    maxops=u.maxops, dis=u.dis)
    return u
