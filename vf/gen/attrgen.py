"""Build-attribute sections (ARM IHI 0045 / RISC-V psABI) with ground truth."""
import struct
from .leb import uleb

# tag number -> value kind, from the ARM ABI addenda (scope tags 1-3; NTBS: 4, 5, 67;
# 32 = uleb + NTBS; 65 = nested attribute as NTBS); everything else in the table: uleb
ARM_TAGS = [4, 5, 6, 7, 8, 9, 10, 11, 12, 13, 14, 15, 16, 17, 18, 19, 20, 21, 22, 23, 24, 25, 26, 27, 28, 29,
            30, 31, 32, 34, 36, 38, 42, 44, 46, 48, 50, 52, 64, 65, 66, 67, 68, 70, 72, 74, 76]
ARM_NTBS = {4, 5, 67}
RISCV_TAGS = [4, 5, 6, 8, 10, 12, 14, 16]
RISCV_NTBS = {5}
STRS = ['', 'ARM v7', 'x', 'Cortex-A9', 'rv64i2p0_m2p0', 'é中', '2.09']


def gen_attr(rng, arch, depth=0):
    """-> (bytes, (tagnum, value, extra))"""
    tags, ntbs = (ARM_TAGS, ARM_NTBS) if arch == 'arm' else (RISCV_TAGS, RISCV_NTBS)
    t = rng.choice(tags)
    if arch == 'arm' and t == 65 and depth:
        t = 6
    if t in ntbs:
        s = rng.choice(STRS)
        return uleb(t) + s.encode('utf-8') + b'\0', (t, s, None)
    if arch == 'arm' and t == 32:
        v = rng.choice([0, 1, 2, 127, 128, 70000])
        s = rng.choice(STRS)
        return uleb(t) + uleb(v) + s.encode('utf-8') + b'\0', (t, v, s)
    if arch == 'arm' and t == 65:
        # nested attribute, integer payload (then NUL) or string payload
        if rng.random() < 0.5:
            it = rng.choice([6, 7, 8, 34])
            v = rng.choice([0, 1, 10, 127, 128])
            return uleb(t) + uleb(it) + uleb(v) + b'\0', (t, (it, v, None), None)
        s = rng.choice(STRS)
        it = rng.choice([4, 5, 67])
        return uleb(t) + uleb(it) + s.encode('utf-8') + b'\0', (t, (it, s, None), None)
    v = rng.choice([0, 1, 2, 3, 127, 128, 300, 16383, 16384, 2 ** 21, 2 ** 28, 2 ** 32 - 1, 2 ** 35 + 1, 2 ** 42 + 7, 2 ** 63, 2 ** 64 - 1])
    pad = rng.choice([0, 0, 0, 1, 6])
    return uleb(t) + uleb(v, pad), (t, v, None)


def gen_section(rng, arch, le, nsub=None):
    """-> (bytes, tree) tree = [(vendor, length, [(scope tag, size, extra, [attrs])])]"""
    E = '<' if le else '>'
    body = b'A'
    tree = []
    nsub = nsub or rng.choice([1, 1, 2, 3, 4])
    for s in range(nsub):
        vendor = rng.choice(['aeabi', 'gnu', 'riscv', 'vend', 'x', 'ünï'])
        subs = b''
        esub = []
        for ss in range(rng.choice([1, 1, 2, 3, 4])):
            scope = rng.choice([1, 1, 2, 3])
            nums = []
            numb = b''
            if scope != 1:
                nums = [rng.choice([1, 2, 127, 128, 5000, 2 ** 35 + 3, 2 ** 42 + 7]) for _ in range(rng.choice([0, 1, 3]))]
                numb = b''.join(uleb(x) for x in nums) + b'\0'
            attrs = b''
            ea = []
            for a in range(rng.choice([0, 1, 2, 5, 12, 40])):
                b, e = gen_attr(rng, arch)
                attrs += b
                ea.append(e)
            size = 1 + 4 + len(numb) + len(attrs)
            subs += uleb(scope) + struct.pack(E + 'I', size) + numb + attrs
            esub.append((scope, size, nums if scope != 1 else None, ea))
        blk = vendor.encode('utf-8') + b'\0' + subs
        length = 4 + len(blk)
        body += struct.pack(E + 'I', length) + blk
        tree.append((vendor, length, esub))
    return body, tree
