"""Well-formed dynamic objects of the shape a linker writes (one PT_LOAD mapping the file at
address == offset, PT_DYNAMIC, consistent DT_* tags), for the output-equivalence workloads of C18.
Independent of elftools."""
import struct
from . import elfgen

LIBS = ['libc.so.6', 'libm.so.6', 'libfoo.so.1', 'libdl.so.2']
NEEDV = ['GLIBC_2.2.5', 'GLIBC_2.17', 'GLIBC_2.34', 'FOO_1.0', 'FOO_PRIVATE']
DEFV = ['VER_1.0', 'VER_1.1', 'VER_2.0', 'VER_2.1', 'LIBTEST_PRIVATE']
SYMS = ['printf', 'sin', 'cos', 'foo', 'bar', 'baz', 'qux', 'memcpy', 'dlopen', 'a_rather_long_symbol_name_that_readelf_truncates', 'x']


def elf_hash(name):
    h = 0
    for c in name.encode():
        h = (h << 4) + c
        g = h & 0xf0000000
        if g:
            h ^= g >> 24
        h &= ~g
    return h & 0xffffffff


def gen_versions(rng):
    """-> (image, description). A shared object with .gnu.version, .gnu.version_d, .gnu.version_r."""
    cls = rng.choice([32, 64])
    le = rng.random() < 0.7
    E = '<' if le else '>'
    is64 = cls == 64
    machine = rng.choice([62, 183, 21, 243]) if is64 else rng.choice([3, 40, 8])
    soname = 'libtest.so.1'
    ndef = rng.choice([0, 1, 2, 3, 5])
    nneed = rng.choice([0, 1, 2, 3])
    if ndef == 0 and nneed == 0:
        nneed = 1
    names = [soname] + LIBS + NEEDV + DEFV + SYMS
    tab, offs = elfgen.strtab([n.encode() for n in names])
    so = {n: offs[n.encode()] for n in names}
    # version definitions
    vd = bytearray()
    defs = []
    ndx = 1
    if ndef:
        plan = [dict(flags=1, ndx=1, names=[soname])]
        for i in range(ndef):
            ndx += 1
            parents = [DEFV[j] for j in range(i) if rng.random() < 0.6][-2:]
            plan.append(dict(flags=rng.choice([0, 0, 0, 2, 4, 6]), ndx=ndx, names=[DEFV[i]] + parents))
        for k, p in enumerate(plan):
            last = k == len(plan) - 1
            size = 20 + 8 * len(p['names'])
            vd += struct.pack(E + 'HHHHIII', 1, p['flags'], p['ndx'], len(p['names']), elf_hash(p['names'][0]), 20, 0 if last else size)
            for j, n in enumerate(p['names']):
                vd += struct.pack(E + 'II', so[n], 0 if j == len(p['names']) - 1 else 8)
            defs.append(p)
    # version needs
    vn = bytearray()
    needs = []
    for f in range(nneed):
        naux = rng.choice([1, 1, 2, 3])
        auxs = []
        for a in range(naux):
            ndx += 1
            auxs.append(dict(name=rng.choice(NEEDV), flags=rng.choice([0, 0, 0, 2, 4, 6]), other=ndx))
        last = f == nneed - 1
        vn += struct.pack(E + 'HHIII', 1, naux, so[LIBS[f]], 16, 0 if last else 16 + 16 * naux)
        for j, a in enumerate(auxs):
            vn += struct.pack(E + 'IHHII', elf_hash(a['name']), a['flags'], a['other'], so[a['name']], 0 if j == naux - 1 else 16)
        needs.append(dict(file=LIBS[f], aux=auxs))
    # symbols: undefined ones take needed versions, defined ones take defined versions
    nsym = rng.choice([1, 2, 4, 5, 9, 13])
    syms = [elfgen.sym_pack(E, is64, 0, 0, 0, 0, 0, 0)]
    vers = [0]
    need_idx = [a['other'] for n in needs for a in n['aux']]
    def_idx = [p['ndx'] for p in defs[1:]]
    for i in range(1, nsym):
        name = rng.choice(SYMS)
        undefined = rng.random() < 0.5
        if undefined:
            syms.append(elfgen.sym_pack(E, is64, so[name], 0, 0, 0x12, 0, 0))
            v = rng.choice(need_idx) if need_idx and rng.random() < 0.8 else rng.choice([0, 1])
        else:
            syms.append(elfgen.sym_pack(E, is64, so[name], 0x1000 + 16 * i, 8, rng.choice([0x12, 0x11, 0x22]), 0, 1))
            v = rng.choice(def_idx) if def_idx and rng.random() < 0.8 else rng.choice([0, 1, 1])
            if v > 1 and rng.random() < 0.25:
                v |= 0x8000
        vers.append(v)
    versym = b''.join(struct.pack(E + 'H', v) for v in vers)
    symsz = 24 if is64 else 16
    dsz = 16 if is64 else 8

    def make(addr):
        """addr: {section name: address} from the first pass (or {} for the first pass)."""
        tags = [(5, addr.get('.dynstr', 0)), (6, addr.get('.dynsym', 0)), (10, len(tab)), (11, symsz), (14, so[soname]),
                (0x6ffffff0, addr.get('.gnu.version', 0))]
        for f in range(nneed):
            tags.insert(0, (1, so[LIBS[f]]))
        if ndef:
            tags += [(0x6ffffffc, addr.get('.gnu.version_d', 0)), (0x6ffffffd, len(defs))]
        if nneed:
            tags += [(0x6ffffffe, addr.get('.gnu.version_r', 0)), (0x6fffffff, nneed)]
        tags.append((0, 0))
        dyn = b''.join(struct.pack(E + ('qQ' if is64 else 'iI'), t if t < 2 ** 31 or is64 else t - 2 ** 32, v) for t, v in tags)
        secs = [elfgen.Sec('.text', 1, flags=6, data=b'\x90' * 64, addr=addr.get('.text', 0), align=16),
                elfgen.Sec('.dynsym', 11, flags=2, data=b''.join(syms), link='.dynstr', info=1, entsize=symsz, align=8, addr=addr.get('.dynsym', 0)),
                elfgen.Sec('.dynstr', 3, flags=2, data=tab, addr=addr.get('.dynstr', 0)),
                elfgen.Sec('.gnu.version', 0x6fffffff, flags=2, data=versym, link='.dynsym', entsize=2, align=2, addr=addr.get('.gnu.version', 0))]
        if ndef:
            secs.append(elfgen.Sec('.gnu.version_d', 0x6ffffffd, flags=2, data=bytes(vd), link='.dynstr', info=len(defs), align=8,
                                   addr=addr.get('.gnu.version_d', 0)))
        if nneed:
            secs.append(elfgen.Sec('.gnu.version_r', 0x6ffffffe, flags=2, data=bytes(vn), link='.dynstr', info=nneed, align=8,
                                   addr=addr.get('.gnu.version_r', 0)))
        secs.append(elfgen.Sec('.dynamic', 6, flags=3, data=dyn, link='.dynstr', entsize=dsz, align=8, addr=addr.get('.dynamic', 0)))
        segs = [elfgen.Seg(type=1, flags=7, offset=0, vaddr=0, filesz=0, align=0x1000), elfgen.Seg(type=2, flags=6, sec='.dynamic', align=8)]
        return secs, segs
    secs, segs = make({})
    img, info = elfgen.build(cls=cls, le=le, machine=machine, etype=3, sections=secs, segments=segs)
    addr = {s.name: s.offset for s in info['secs'] if s.name}
    secs, segs = make(addr)
    segs[0].filesz = segs[0].memsz = len(img)
    segs[1].vaddr = segs[1].paddr = addr['.dynamic']
    img2, info2 = elfgen.build(cls=cls, le=le, machine=machine, etype=3, sections=secs, segments=segs)
    assert len(img2) == len(img) and all(s.offset == addr[s.name] for s in info2['secs'] if s.name in addr)
    desc = dict(cls=cls, le=le, machine=machine, defs=[(p['ndx'], p['flags'], p['names']) for p in defs],
                needs=[(n['file'], [(a['name'], a['flags'], a['other']) for a in n['aux']]) for n in needs], versym=vers)
    return img2, desc


def gen_notes_file(rng):
    """-> (image, description): note sections as linkers and assemblers write them - single-note sections and
    sections holding several notes, GNU-owned and foreign owners."""
    cls = rng.choice([32, 64])
    le = rng.random() < 0.7
    E = '<' if le else '>'
    machine = rng.choice([62, 183]) if cls == 64 else rng.choice([3, 40])

    def note(owner, typ, desc, al=4):
        name = owner.encode() + b'\0'
        rec = struct.pack(E + 'III', len(name), len(desc), typ) + name
        rec += b'\0' * (-len(rec) % al) + desc         # padding is relative to the start of the note
        return rec + b'\0' * (-len(rec) % al)

    def one():
        k = rng.choice(['build', 'abi', 'gold', 'foreign', 'foreign', 'go'])
        if k == 'build':
            return 'build-id', note('GNU', 3, bytes(rng.getrandbits(8) for _ in range(rng.choice([8, 16, 20]))))
        if k == 'abi':
            return 'abi-tag', note('GNU', 1, struct.pack(E + 'IIII', rng.choice([0, 1, 2, 3, 4, 5]), rng.choice([2, 3, 5]), rng.randrange(40), rng.randrange(40)))
        if k == 'gold':
            return 'gold', note('GNU', 4, b'gold 1.' + str(rng.randrange(10, 20)).encode())
        if k == 'go':
            return 'go', note('Go', 4, bytes(rng.getrandbits(8) for _ in range(rng.choice([4, 20, 40]))))
        return 'foreign', note(rng.choice(['vendor', 'ACME', 'x']), rng.choice([1, 2, 3, 0x77, 0x12345]),   # owners GNU readelf has no table for
                               bytes(rng.getrandbits(8) for _ in range(rng.choice([0, 4, 8, 24]))))
    secs = [elfgen.Sec('.text', 1, flags=6, data=b'\x90' * 32, addr=0x1000, align=16)]
    shape = []
    addr = 0x2000
    for i in range(rng.choice([1, 2, 3])):
        n = rng.choice([1, 1, 2, 3])
        parts = [one() for _ in range(n)]
        data = b''.join(p[1] for p in parts)
        secs.append(elfgen.Sec('.note.%s%d' % (parts[0][0], i), 7, flags=2, data=data, align=4, addr=addr))
        addr += 0x100
        shape.append([p[0] for p in parts])
    if cls == 64 and machine in (62, 183) and rng.random() < 0.6:
        W = 'Q'
        props = b''
        kinds = []
        for j in range(rng.choice([1, 2, 3])):
            pk = rng.choice(['stack', 'nocopy', 'feat'])
            if pk == 'stack':
                pd = struct.pack(E + W, rng.choice([0x1000, 0x800000]))
                pt = 1
            elif pk == 'nocopy':
                pd, pt = b'', 2
            else:
                pt = 0xc0000002 if machine == 62 else 0xc0000000
                pd = struct.pack(E + 'I', rng.choice([1, 2, 3]))
            rec = struct.pack(E + 'II', pt, len(pd)) + pd
            props += rec + b'\0' * (-len(rec) % 8)
            kinds.append(pk)
        secs.append(elfgen.Sec('.note.gnu.property', 7, flags=2, data=note('GNU', 5, props, 8), align=8, addr=addr))
        shape.append(['property:' + '+'.join(kinds)])
    img, info = elfgen.build(cls=cls, le=le, machine=machine, etype=2, sections=secs)
    return img, dict(cls=cls, le=le, machine=machine, sections=shape)
