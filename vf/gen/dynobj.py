"""Well-formed dynamic objects of the shape a linker writes (one PT_LOAD mapping the file at
address == offset, PT_DYNAMIC, consistent DT_* tags), for the output-equivalence workloads of C18.
Independent of elftools."""
import struct
from . import elfgen

LIBS = ['libc.so.6', 'libm.so.6', 'libfoo.so.1', 'libdl.so.2']
NEEDV = ['GLIBC_2.2.5', 'GLIBC_2.17', 'GLIBC_2.34', 'FOO_1.0', 'FOO_PRIVATE']
DEFV = ['VER_1.0', 'VER_1.1', 'VER_2.0', 'VER_2.1', 'LIBTEST_PRIVATE']
SYMS = ['printf', 'sin', 'cos', 'foo', 'bar', 'baz', 'qux', 'memcpy', 'dlopen', 'a_rather_long_symbol_name_that_readelf_truncates', 'x']


def elf_hash(name):
    h = 0
    for c in name.encode():
        h = (h << 4) + c
        g = h & 0xf0000000
        if g:
            h ^= g >> 24
        h &= ~g
    return h & 0xffffffff


def gen_versions(rng):
    """-> (image, description). A shared object with .gnu.version, .gnu.version_d, .gnu.version_r."""
    cls = rng.choice([32, 64])
    le = rng.random() < 0.7
    E = '<' if le else '>'
    is64 = cls == 64
    machine = rng.choice([62, 183, 21, 243]) if is64 else rng.choice([3, 40, 8])
    soname = 'libtest.so.1'
    ndef = rng.choice([0, 1, 2, 3, 5])
    nneed = rng.choice([0, 1, 2, 3])
    if ndef == 0 and nneed == 0:
        nneed = 1
    names = [soname] + LIBS + NEEDV + DEFV + SYMS
    tab, offs = elfgen.strtab([n.encode() for n in names])
    so = {n: offs[n.encode()] for n in names}
    # version definitions
    vd = bytearray()
    defs = []
    ndx = 1
    if ndef:
        plan = [dict(flags=1, ndx=1, names=[soname])]
        for i in range(ndef):
            ndx += 1
            parents = [DEFV[j] for j in range(i) if rng.random() < 0.6][-2:]
            plan.append(dict(flags=rng.choice([0, 0, 0, 2, 4, 6]), ndx=ndx, names=[DEFV[i]] + parents))
        var = getattr(rng, 'variant', None)
        if len(plan) > 2 and (rng.random() < 0.3 or (var is not None and var % 2 == 1)):
            rest = plan[1:]
            rng.shuffle(rest)               # the chain order need not follow the indices
            if [p['ndx'] for p in rest] == sorted(p['ndx'] for p in rest):
                rest = rest[1:] + rest[:1]
            plan = plan[:1] + rest
        apart = (rng.random() < 0.3) if getattr(rng, 'variant', None) is None else rng.variant % 3 == 0   # all entries first, then all auxiliary records
        if apart:
            auxpos = 20 * len(plan)
            auxb = b''
            for k, p in enumerate(plan):
                last = k == len(plan) - 1
                vd += struct.pack(E + 'HHHHIII', 1, p['flags'], p['ndx'], len(p['names']), elf_hash(p['names'][0]),
                                  auxpos + len(auxb) - 20 * k, 0 if last else 20)
                for j, n in enumerate(p['names']):
                    auxb += struct.pack(E + 'II', so[n], 0 if j == len(p['names']) - 1 else 8)
                defs.append(p)
            vd += auxb
        else:
            for k, p in enumerate(plan):
                last = k == len(plan) - 1
                size = 20 + 8 * len(p['names'])
                vd += struct.pack(E + 'HHHHIII', 1, p['flags'], p['ndx'], len(p['names']), elf_hash(p['names'][0]), 20, 0 if last else size)
                for j, n in enumerate(p['names']):
                    vd += struct.pack(E + 'II', so[n], 0 if j == len(p['names']) - 1 else 8)
                defs.append(p)
    # version needs
    vn = bytearray()
    needs = []
    napart = (rng.random() < 0.3) if getattr(rng, 'variant', None) is None else rng.variant % 3 == 1
    nauxb = b''
    for f in range(nneed):
        naux = rng.choice([1, 1, 2, 3])
        auxs = []
        for a in range(naux):
            ndx += 1
            auxs.append(dict(name=rng.choice(NEEDV), flags=rng.choice([0, 0, 0, 2, 4, 6]), other=ndx))
        last = f == nneed - 1
        ab = b''.join(struct.pack(E + 'IHHII', elf_hash(a['name']), a['flags'], a['other'], so[a['name']], 0 if j == naux - 1 else 16)
                      for j, a in enumerate(auxs))
        if napart:
            vn += struct.pack(E + 'HHIII', 1, naux, so[LIBS[f]], 16 * nneed + len(nauxb) - 16 * f, 0 if last else 16)
            nauxb += ab
        else:
            vn += struct.pack(E + 'HHIII', 1, naux, so[LIBS[f]], 16, 0 if last else 16 + 16 * naux) + ab
        needs.append(dict(file=LIBS[f], aux=auxs))
    vn += nauxb
    # symbols: undefined ones take needed versions, defined ones take defined versions
    nsym = rng.choice([1, 2, 4, 5, 9, 13])
    var = getattr(rng, 'variant', None)
    # a hidden versioned entry directly in front of a global and a local one (a row printer must not carry the mark along)
    hidden_run = var is not None and var % 4 == 2 and ndef
    if hidden_run:
        nsym = max(nsym, 5)
    syms = [elfgen.sym_pack(E, is64, 0, 0, 0, 0, 0, 0)]
    vers = [0]
    need_idx = [a['other'] for n in needs for a in n['aux']]
    def_idx = [p['ndx'] for p in defs[1:]]
    for i in range(1, nsym):
        name = rng.choice(SYMS)
        undefined = rng.random() < 0.5 and not (hidden_run and i <= 3)
        if undefined:
            syms.append(elfgen.sym_pack(E, is64, so[name], 0, 0, 0x12, 0, 0))
            v = rng.choice(need_idx) if need_idx and rng.random() < 0.8 else rng.choice([0, 1])
        else:
            syms.append(elfgen.sym_pack(E, is64, so[name], 0x1000 + 16 * i, 8, rng.choice([0x12, 0x11, 0x22]), 0, 1))
            v = rng.choice(def_idx) if def_idx and rng.random() < 0.8 else rng.choice([0, 1, 1])
            if v > 1 and rng.random() < 0.25:
                v |= 0x8000
            if need_idx and rng.random() < 0.2:
                v = rng.choice(need_idx)        # a copy-relocated object: defined here, versioned by the library it comes from
            if hidden_run and i <= 3:
                v = (rng.choice(def_idx) | 0x8000, 1, 0)[i - 1]
        vers.append(v)
    versym = b''.join(struct.pack(E + 'H', v) for v in vers)
    symsz = 24 if is64 else 16
    dsz = 16 if is64 else 8
    dyn_at = rng.choice([None, None, 1, 3])
    null_val = rng.choice([0, 0, 0x1234])
    vorder = rng.choice([None, None, ['.gnu.version_d', '.gnu.version_r', '.gnu.version'], ['.gnu.version_r', '.gnu.version', '.gnu.version_d']])
    after_null = [(1, so[LIBS[1]]), (0, 0)] if rng.random() < 0.3 else []
    with_rel = rng.random() < 0.6 and machine != 243       # (the clone has no relocation names for RISC-V)
    # addresses in the upper half of the address space (kernel-style images, MIPS kseg0): values are unsigned
    top = 1 << (cls - 1)
    high_tags = [(12, top | 0x1000), (13, (1 << cls) - 16), (3, top)][:rng.choice([0, 0, 1, 3])]
    # further tags a linker writes, with the value kinds readelf formats differently (addresses, sizes, counts, flags, enums)
    pool = [(25, 0x3e00), (27, 16), (26, 0x3e10), (28, 8), (32, 0x3e20), (33, 8), (2, 48), (20, 7 if rng.random() < 0.5 else 17), (23, 0x600),
            (7, 0x500), (8, 72), (9, 24), (0x6ffffff9, 3), (17, 0x480), (18, 32), (19, 16), (0x6ffffffa, 2), (21, 0), (22, 0), (16, 0), (24, 0),
            (30, rng.choice([1, 2, 8, 0x1f])), (0x6ffffffb, rng.choice([1, 0x8000001, 0x421])), (15, so[soname]), (29, so[LIBS[0]]),
            (0x6ffffef5, 0x300), (4, 0x340), (0x6ffffdf5, 86400 * 365 + 3600 * 13 + 61), (36, 0x700), (35, 16), (37, cls // 8)]
    if machine == 8:
        pool += [(0x70000001, 1), (0x70000005, rng.choice([2, 0xc00, 0x13])), (0x70000006, 0x400000), (0x7000000a, 5), (0x70000011, 12),
                 (0x70000012, 3), (0x70000013, 7), (0x70000016, 0x4100), (0x70000035, 0x4200)]
    if machine == 183:
        pool += [(0x70000001, 0), (0x70000003, 0), (0x70000005, 0)]
    # (PPC64 has no dynamic-tag table in the library: DT_PPC64_GLINK/OPT are outside the clone's descriptions)
    extra_tags = [t for t in pool if rng.random() < 0.35]
    seen = set()
    extra_tags = [t for t in extra_tags if not (t[0] in seen or seen.add(t[0]))]

    def make(addr):
        """addr: {section name: address} from the first pass (or {} for the first pass)."""
        tags = [(5, addr.get('.dynstr', 0)), (6, addr.get('.dynsym', 0)), (10, len(tab)), (11, symsz), (14, so[soname]),
                (0x6ffffff0, addr.get('.gnu.version', 0))]
        tags += high_tags + extra_tags
        for f in range(nneed):
            tags.insert(0, (1, so[LIBS[f]]))
        if ndef:
            tags += [(0x6ffffffc, addr.get('.gnu.version_d', 0)), (0x6ffffffd, len(defs))]
        if nneed:
            tags += [(0x6ffffffe, addr.get('.gnu.version_r', 0)), (0x6fffffff, nneed)]
        tags.append((0, null_val))            # the terminator ends the array whatever its value
        tags += after_null
        dyn = b''.join(struct.pack(E + ('qQ' if is64 else 'iI'), t if t < 2 ** 31 or is64 else t - 2 ** 32, v) for t, v in tags)
        secs = [elfgen.Sec('.text', 1, flags=6, data=b'\x90' * 64, addr=addr.get('.text', 0), align=16),
                elfgen.Sec('.dynsym', 11, flags=2, data=b''.join(syms), link='.dynstr', info=1, entsize=symsz, align=8, addr=addr.get('.dynsym', 0)),
                elfgen.Sec('.dynstr', 3, flags=2, data=tab, addr=addr.get('.dynstr', 0)),
                elfgen.Sec('.gnu.version', 0x6fffffff, flags=2, data=versym, link='.dynsym', entsize=2, align=2, addr=addr.get('.gnu.version', 0))]
        if ndef:
            secs.append(elfgen.Sec('.gnu.version_d', 0x6ffffffd, flags=2, data=bytes(vd), link='.dynstr', info=len(defs), align=8,
                                   addr=addr.get('.gnu.version_d', 0)))
        if nneed:
            secs.append(elfgen.Sec('.gnu.version_r', 0x6ffffffe, flags=2, data=bytes(vn), link='.dynstr', info=nneed, align=8,
                                   addr=addr.get('.gnu.version_r', 0)))
        if nsym > 1 and with_rel:
            # dynamic relocations against the versioned symbols: readelf -r appends the version to the name
            rtype = {62: 6, 183: 1025, 21: 38, 243: 2, 3: 6, 40: 21, 8: 3}[machine]
            rela = is64
            recs = b''
            for i in range(1, nsym):
                info_ = (i << 32 | rtype) if is64 else (i << 8 | rtype)
                recs += struct.pack(E + ('QQq' if is64 else 'II'), *((0x3000 + 8 * i, info_, 0) if rela else (0x3000 + 4 * i, info_)))
            secs.append(elfgen.Sec('.rela.dyn' if rela else '.rel.dyn', 4 if rela else 9, flags=2, data=recs, link='.dynsym', info=0,
                                   entsize=len(recs) // (nsym - 1), align=8, addr=addr.get('.rela.dyn' if rela else '.rel.dyn', 0)))
        if vorder:
            head = [x for x in secs if not x.name.startswith('.gnu.version')]
            vs = [x for x in secs if x.name.startswith('.gnu.version')]
            vs.sort(key=lambda x: vorder.index(x.name) if x.name in vorder else 9)
            secs[:] = head + vs
        dsec = elfgen.Sec('.dynamic', 6, flags=3, data=dyn, link='.dynstr', entsize=dsz, align=8, addr=addr.get('.dynamic', 0))
        # the order of the section headers is the linker's business: .dynamic need not come after the version sections
        secs.insert(dyn_at if dyn_at is not None else len(secs), dsec)
        segs = [elfgen.Seg(type=1, flags=7, offset=0, vaddr=0, filesz=0, align=0x1000), elfgen.Seg(type=2, flags=6, sec='.dynamic', align=8)]
        return secs, segs
    secs, segs = make({})
    img, info = elfgen.build(cls=cls, le=le, machine=machine, etype=3, sections=secs, segments=segs)
    addr = {s.name: s.offset for s in info['secs'] if s.name}
    secs, segs = make(addr)
    segs[0].filesz = segs[0].memsz = len(img)
    segs[1].vaddr = segs[1].paddr = addr['.dynamic']
    img2, info2 = elfgen.build(cls=cls, le=le, machine=machine, etype=3, sections=secs, segments=segs)
    assert len(img2) == len(img) and all(s.offset == addr[s.name] for s in info2['secs'] if s.name in addr)
    desc = dict(cls=cls, le=le, machine=machine, defs=[(p['ndx'], p['flags'], p['names']) for p in defs],
                needs=[(n['file'], [(a['name'], a['flags'], a['other']) for a in n['aux']]) for n in needs], versym=vers)
    return img2, desc


def gen_notes_file(rng):
    """-> (image, description): note sections as linkers and assemblers write them - single-note sections and
    sections holding several notes, GNU-owned and foreign owners."""
    cls = rng.choice([32, 64])
    le = rng.random() < 0.7
    E = '<' if le else '>'
    machine = rng.choice([62, 183]) if cls == 64 else rng.choice([3, 40])
    var = getattr(rng, 'variant', None)
    if var is not None and var % 2 == 0 and machine == 40:
        machine = 3                     # every other file carries a property note, which ARM files do not

    def note(owner, typ, desc, al=4):
        name = owner.encode() + b'\0'
        rec = struct.pack(E + 'III', len(name), len(desc), typ) + name
        rec += b'\0' * (-len(rec) % al) + desc         # padding is relative to the start of the note
        return rec + b'\0' * (-len(rec) % al)

    def one():
        k = rng.choice(['build', 'abi', 'gold', 'foreign', 'foreign', 'go'])
        if k == 'build':
            return 'build-id', note('GNU', 3, bytes(rng.getrandbits(8) for _ in range(rng.choice([8, 16, 20]))))
        if k == 'abi':
            return 'abi-tag', note('GNU', 1, struct.pack(E + 'IIII', rng.choice([0, 1, 2, 3, 4, 5]), rng.choice([2, 3, 5]), rng.randrange(40), rng.randrange(40)))
        if k == 'gold':
            return 'gold', note('GNU', 4, b'gold 1.' + str(rng.randrange(10, 20)).encode())
        if k == 'go':
            d = bytes(rng.getrandbits(8) for _ in range(rng.choice([4, 20, 40])))
            if rng.random() < 0.5:
                # as the Go linker writes it: n_namesz 4 for "Go\0\0"
                return 'go4', struct.pack(E + 'III', 4, len(d), 4) + b'Go\0\0' + d
            return 'go', note('Go', 4, d)
        return 'foreign', note(rng.choice(['vendor', 'ACME', 'x']), rng.choice([1, 2, 3, 0x77, 0x12345]),   # owners GNU readelf has no table for
                               bytes(rng.getrandbits(8) for _ in range(rng.choice([0, 4, 8, 24]))))
    secs = [elfgen.Sec('.text', 1, flags=6, data=b'\x90' * 32, addr=0x1000, align=16)]
    shape = []
    addr = 0x2000
    for i in range(rng.choice([1, 2, 3])):
        n = rng.choice([1, 1, 2, 3])
        parts = [one() for _ in range(n)]
        data = b''.join(p[1] for p in parts)
        secs.append(elfgen.Sec('.note.%s%d' % (parts[0][0], i), 7, flags=2, data=data, align=4, addr=addr))
        addr += 0x100
        shape.append([p[0] for p in parts])
    if machine in (62, 183, 3) and (rng.random() < 0.6 if var is None else var % 2 == 0):
        W = 'Q' if cls == 64 else 'I'
        pal = 8 if cls == 64 else 4
        props = b''
        kinds = []
        for j in range(rng.choice([1, 2, 3])):
            pk = rng.choice(['stack', 'nocopy', 'feat', 'bound'])
            if var is not None and j == 0:
                pk = 'bound'
            if pk == 'bound':
                # the ends of the processor and application ranges and their neighbours
                bounds = [0xc0000000 + 0x7fff, 0xdfffffff, 0xe0000000, 0xffffffff, 0xbfffffff, 0xdffffffe, 0xe0000001, 0xfffffffe, 3]
                pt = bounds[((var // 2 if var is not None else rng.randrange(99)) + j) % len(bounds)]
                pd = bytes(rng.getrandbits(8) for _ in range(rng.choice([0, 4, 8])))
                pk = 'bound:%#x' % pt
            elif pk == 'stack':
                pd = struct.pack(E + W, rng.choice([0x1000, 0x800000]))
                pt = 1
            elif pk == 'nocopy':
                pd, pt = b'', 2
            else:
                pt = 0xc0000002 if machine in (62, 3) else 0xc0000000
                pd = struct.pack(E + 'I', rng.choice([1, 2, 3]))
            rec = struct.pack(E + 'II', pt, len(pd)) + pd
            props += rec + b'\0' * (-len(rec) % pal)
            kinds.append(pk)
        pdata = note('GNU', 5, props, pal)
        if rng.random() < 0.4:
            pdata += note('GNU', 5, struct.pack(E + 'II', 2, 0) + b'\0' * (pal - 8 if pal > 8 else 0), pal)     # ld -r keeps one note per input
            kinds.append('second-note')
        secs.append(elfgen.Sec('.note.gnu.property', 7, flags=2, data=pdata, align=pal, addr=addr))
        shape.append(['property:' + '+'.join(kinds)])
    img, info = elfgen.build(cls=cls, le=le, machine=machine, etype=2, sections=secs)
    return img, dict(cls=cls, le=le, machine=machine, sections=shape)


def gen_symtab_file(rng):
    """-> (image, description): a relocatable object with a .symtab exercising every symbol type, binding,
    visibility and section-index kind the description tables know, local symbols first as the gABI requires."""
    cls = rng.choice([32, 64])
    le = rng.random() < 0.7
    E = '<' if le else '>'
    is64 = cls == 64
    machine = rng.choice([62, 183, 21, 243, 22]) if is64 else rng.choice([3, 40, 8, 20])
    nsec = 4
    names = ['', 'main', 'counter', 'a_rather_long_symbol_name_that_needs_truncating_in_narrow_mode', 'x', '_start', 'file.c',
             'weak_fn', 'tls_var', 'common_blk', 'ifunc_resolver', 'with.dots.and$dollar', 'Z3fooILi3EEvv', 'esc\x1bname', 'us\x1f\x1c']
    tab, offs = elfgen.strtab([n.encode() for n in names])
    empty_at = len(tab) - 1          # the terminator of the last string: a non-zero offset of an empty name
    # an object with the GNU extensions STT_GNU_IFUNC / STB_GNU_UNIQUE, marked by the GNU OS ABI; the FreeBSD OS ABI gives
    # type 10 the same meaning (binutils get_symbol_type) but has no unique binding
    ext = (None, 3, None, 9, None, 3)[getattr(rng, 'variant', rng.randrange(6)) % 6]
    gnu = ext == 3
    types = [0, 1, 2, 3, 4, 5, 6] + ([10, 10] if ext else [])
    nloc = rng.choice([1, 2, 4, 7])
    nglob = rng.choice([0, 1, 3, 8, 20])
    syms = [elfgen.sym_pack(E, is64, 0, 0, 0, 0, 0, 0)]
    shape = []
    for i in range(nloc + nglob):
        local = i < nloc
        typ = rng.choice(types)
        bind = 0 if local else rng.choice([1, 1, 2] + ([10] if gnu else []))
        if bind == 10 and typ != 10:
            typ = 1                     # unique binding is for data objects
        if typ == 3:
            bind, name = 0, ''
            if not local:
                typ = 2
        if typ == 4:
            name, shndx = 'file.c', 0xfff1
        name = '' if typ == 3 else rng.choice(names[1:])
        shndx = rng.choice([0, 1, 2, 3, 0xfff1, 0xfff2]) if typ not in (3, 4) else (rng.randrange(1, nsec) if typ == 3 else 0xfff1)
        if typ == 5:
            shndx = 0xfff2
        vis = rng.choice([0, 0, 0, 1, 2, 3])
        value = rng.choice([0, 8, 0x1000, 0xdeadbeef, 2 ** (cls - 1) + 5])
        size = rng.choice([0, 4, 99999, 100000, 2 ** 31])
        noff = offs[name.encode()]
        if typ == 3 and rng.random() < 0.3:
            noff = empty_at
        syms.append(elfgen.sym_pack(E, is64, noff, value, size, (bind << 4) | typ, vis, shndx))
        shape.append((typ, bind, vis, shndx))
    secs = [elfgen.Sec('.text', 1, flags=6, data=b'\x90' * 32, align=16),
            elfgen.Sec('.data', 1, flags=3, data=b'\0' * 16, align=8),
            elfgen.Sec('.bss', 8, flags=3, data=b'', size=64, align=8),
            elfgen.Sec('.symtab', 2, data=b''.join(syms), link='.strtab', info=1 + nloc, entsize=24 if is64 else 16, align=8),
            elfgen.Sec('.strtab', 3, data=tab)]
    # STT_GNU_IFUNC / STB_GNU_UNIQUE are GNU extensions: assemblers mark such files with the GNU OS ABI
    osabi = ext or 0
    img, info = elfgen.build(cls=cls, le=le, machine=machine, etype=1, osabi=osabi, sections=secs)
    return img, dict(cls=cls, le=le, machine=machine, osabi=osabi, nloc=nloc, nglob=nglob, kinds=sorted(set(shape))[:12])


RELOC_MACH = {  # machine: (class, little-endian, RELA?, enum name)
    3: (32, True, False, 'ENUM_RELOC_TYPE_i386'), 62: (64, True, True, 'ENUM_RELOC_TYPE_x64'), 40: (32, True, False, 'ENUM_RELOC_TYPE_ARM'),
    183: (64, True, True, 'ENUM_RELOC_TYPE_AARCH64'), 8: (32, False, False, 'ENUM_RELOC_TYPE_MIPS'), 21: (64, True, True, 'ENUM_RELOC_TYPE_PPC64'),
    22: (64, False, True, 'ENUM_RELOC_TYPE_S390X'), 20: (32, False, True, 'ENUM_RELOC_TYPE_PPC'),
    'mips64': (64, False, True, 'ENUM_RELOC_TYPE_MIPS'), 'mips64el': (64, True, True, 'ENUM_RELOC_TYPE_MIPS')}


def gen_reloc_file(rng, type_tables):
    """-> (image, description): a relocatable object with one or two relocation sections whose entries use
    types from `type_tables[machine]` (a list of numbers), named and section symbols, no-symbol entries,
    negative and large addends."""
    v = getattr(rng, 'variant', None)
    keys = sorted(RELOC_MACH, key=str)
    mkey = rng.choice(keys) if v is None else keys[v % len(keys)]          # every machine in every run
    cls, le, rela, _ = RELOC_MACH[mkey]
    machine = 8 if isinstance(mkey, str) else mkey
    mips64 = isinstance(mkey, str)
    E = '<' if le else '>'
    is64 = cls == 64
    names = ['', 'callee', 'table', 'a_rather_long_symbol_name_that_needs_truncating', 'v']
    tab, offs = elfgen.strtab([n.encode() for n in names])
    syms = [elfgen.sym_pack(E, is64, 0, 0, 0, 0, 0, 0),
            elfgen.sym_pack(E, is64, 0, 0, 0, 3, 0, 1),                       # section symbol of .text
            elfgen.sym_pack(E, is64, offs[b'v'] if rng.random() < 0.3 else 0, 0, 0, 3, 0, 2),   # section symbol of .data, sometimes with a name of its own
            elfgen.sym_pack(E, is64, 0, 0x1c, 0, 0, 0, 2)]                    # anonymous local label in .data
    for n in names[1:]:
        syms.append(elfgen.sym_pack(E, is64, offs[n.encode()], rng.choice([0, 0x10, 0x1234]), 4, 0x12 if n != 'table' else 0x11,
                                    0, rng.choice([0, 1, 2])))
    nsym = len(syms)
    types = type_tables[mkey]

    def recs(n):
        out = b''
        shape = []
        for i in range(n):
            t = rng.choice(types)
            s = rng.choice([0] + list(range(1, nsym)))
            off = rng.choice([0, 4, 8, 0x1c, 0x100] + ([0xffffffff81000018, 2 ** 48 + 8] if is64 else [0x80000010]))
            add = rng.choice([0, 4, -4, -128, 0x7fffffff, -2 ** 31])
            if mips64:
                # r_sym (32 bits), special symbol, third, second and first type (8 bits each)
                t2, t3 = rng.choice([(0, 0), (0, 0), (24, 5), (24, 0)])
                out += struct.pack(E + 'QIBBBB', off, s, rng.choice([0, 0, 1, 2]), t3, t2, t & 0xff) + struct.pack(E + 'q', add)
            elif is64:
                out += struct.pack(E + 'QQ', off, (s << 32) | t) + (struct.pack(E + 'q', add) if rela else b'')
            else:
                out += struct.pack(E + 'II', off, (s << 8) | (t & 0xff)) + (struct.pack(E + 'i', add) if rela else b'')
            shape.append((t, s, add if rela else None))
        return out, shape
    n1 = rng.choice([1, 2, 5, 12])
    r1, s1 = recs(n1)
    if rela and not mips64:
        # R_*_RELATIVE-style entry: no symbol, the addend is a signed number
        t0 = rng.choice(types)
        r1 += (struct.pack(E + 'QQq', 0x20, t0, -8) if is64 else struct.pack(E + 'IIi', 0x20, t0 & 0xff, -8))
        s1.append((t0, 0, -8))
    relsz = ((24 if rela else 16) if is64 else (12 if rela else 8))
    pre = '.rela' if rela else '.rel'
    secs = [elfgen.Sec('.text', 1, flags=6, data=b'\x90' * 0x120, align=16),
            elfgen.Sec('.data', 1, flags=3, data=b'\0' * 0x120, align=8),
            elfgen.Sec(pre + '.text', 4 if rela else 9, flags=0x40, data=r1, link='.symtab', info='.text', entsize=relsz, align=8)]
    shape = [s1]
    if rng.random() < 0.5:
        r2, s2 = recs(rng.choice([1, 3]))
        secs.append(elfgen.Sec(pre + '.data', 4 if rela else 9, flags=0x40, data=r2, link='.symtab', info='.data', entsize=relsz, align=8))
        shape.append(s2)
    if rng.random() < 0.4 and not mips64:
        # a second symbol table with other symbols, used by a relocation section of its own (ld --emit-relocs)
        dsyms = [elfgen.sym_pack(E, is64, 0, 0, 0, 0, 0, 0), elfgen.sym_pack(E, is64, offs[b'table'], 0x7777, 4, 0x11, 0, 2)]
        t0 = rng.choice(types)
        rd = (struct.pack(E + 'QQ', 0x30, (1 << 32) | t0) + (struct.pack(E + 'q', 2) if rela else b'')) if is64 else \
            (struct.pack(E + 'II', 0x30, (1 << 8) | (t0 & 0xff)) + (struct.pack(E + 'i', 2) if rela else b''))
        secs.append(elfgen.Sec('.dynsym', 11, flags=2, data=b''.join(dsyms), link='.strtab', info=1, entsize=24 if is64 else 16, align=8))
        secs.append(elfgen.Sec(pre + '.plt', 4 if rela else 9, flags=0x42, data=rd, link='.dynsym', info='.text', entsize=relsz, align=8))
        shape.append([(t0, 1, 2)])
    if rng.random() < 0.3 and not mips64:
        # static-PIE style: a dynamic relocation section that names no symbol table (sh_link 0), entries without symbols
        t0 = rng.choice(types)
        rd = b''.join((struct.pack(E + 'QQ', 0x40 + 8 * k, t0) + (struct.pack(E + 'q', 0x1000 * k) if rela else b'')) if is64 else
                      (struct.pack(E + 'II', 0x40 + 4 * k, t0 & 0xff) + (struct.pack(E + 'i', 0x1000 * k) if rela else b'')) for k in range(2))
        secs.append(elfgen.Sec(pre + '.dyn', 4 if rela else 9, flags=2, data=rd, link=0, info=0, entsize=relsz, align=8))
        shape.append([(t0, 0, None)] * 2)
    secs += [elfgen.Sec('.symtab', 2, data=b''.join(syms), link='.strtab', info=4, entsize=24 if is64 else 16, align=8),
             elfgen.Sec('.strtab', 3, data=tab)]
    img, info = elfgen.build(cls=cls, le=le, machine=machine, etype=1, sections=secs)
    return img, dict(machine=machine, cls=cls, rela=rela, relocs=[x[:6] for x in shape])


def gen_layout_file(rng):
    """-> (image, description): an executable laid out like a linker does it - text/rodata/data segments, TLS
    with .tdata/.tbss, .bss at the end of the data segment, PT_NOTE, PT_GNU_STACK, PT_GNU_RELRO, PT_INTERP,
    PT_PHDR - with random section sets, sizes, flags and alignments. Address == offset + base."""
    # the shape of the data segment cycles deterministically with the case number (rng.variant), so that every shape
    # occurs in every run: class x (plain | TLS | TLS sections last | no file content)
    v = getattr(rng, 'variant', None)
    cls = rng.choice([32, 64]) if v is None else (32 if v & 1 else 64)
    mode = rng.randrange(4) if v is None else (v >> 1) % 4
    le = rng.random() < 0.7
    is64 = cls == 64
    machine = rng.choice([62, 183, 21, 243]) if is64 else rng.choice([3, 40, 8])
    base = rng.choice([0, 0x400000, 0x10000]) if cls == 64 else rng.choice([0, 0x8048000, 0x10000])
    etype = 3 if base == 0 else 2

    def blob(n):
        return bytes(rng.getrandbits(8) for _ in range(n))
    plan = []          # (name, type, flags, size, align, group)
    if rng.random() < 0.7:
        plan.append(('.interp', 1, 2, 0, 1, 'ro', rng.choice([b'/lib/ld.so.1', b'/lib/ld.so.1', '/opt/gn\u00fc/ld.so'.encode('utf-8')]) + b'\0' + b'\0' * rng.choice([0, 0, 3])))
    if rng.random() < 0.7:
        plan.append(('.note.gnu.build-id', 7, 2, 0, 4, 'ro',
                     struct.pack(('<' if le else '>') + 'III', 4, 8, 3) + b'GNU\0' + blob(8)))
    plan.append(('.rodata', 1, rng.choice([2, 0x12, 0x32]), 0, rng.choice([1, 8, 32]), 'ro', blob(rng.choice([1, 16, 100]))))
    plan.append(('.text', 1, 6, 0, 16, 'rx', blob(rng.choice([16, 64, 300]))))
    if rng.random() < 0.5:
        plan.append(('.fini', 1, 6, 0, 4, 'rx', blob(8)))
    empty_rw = mode == 3                   # a data segment without file content: an empty .data in front of .bss
    tls = mode in (1, 2)
    tls_last = mode == 2                   # .data first, then the TLS sections, then .bss at the address of .tbss
    rw = []
    # lld's layout of read-only-after-relocation data: a segment of its own that ends in the NOBITS .bss.rel.ro, all of it
    # inside PT_GNU_RELRO (a NOBITS section in a segment that is neither PT_LOAD nor PT_TLS)
    relro_bss = rng.random() < 0.3 if v is None else (v >> 3) % 2 == 1
    if relro_bss:
        rw.append(('.init_array', 14, 3, 0, 8, 'rr', blob(8 if not is64 else 16)))
        rw.append(('.bss.rel.ro', 8, 3, rng.choice([8, 24, 64]), 8, 'rr', b''))
    if tls:
        rw.append(('.tdata', 1, 0x403, 0, 8, 'rw', blob(rng.choice([4, 8, 24]))))
        rw.append(('.tbss', 8, 0x403, rng.choice([4, 16, 64]), 8, 'rw', b''))
    if rng.random() < 0.6 and not empty_rw and not tls_last and not relro_bss:
        rw.append(('.init_array', 14, 3, 0, 8, 'rw', blob(8 if not is64 else 16)))
    data = ('.data', 1, 3, 0, rng.choice([4, 8, 32]), 'rw', blob(0 if empty_rw else rng.choice([4, 40, 200])))
    if tls_last:
        rw.insert(0, data)
    else:
        rw.append(data)
        if rng.random() < 0.4 and not empty_rw:
            rw.append(('.tm_clone_table', 1, 3, 0, 8, 'rw', b''))      # an empty section where the file part of the segment ends
    if rng.random() < 0.8 or empty_rw or tls_last:
        rw.append(('.bss', 8, 3, rng.choice([1, 8, 4096]), 8 if tls_last else rng.choice([1, 8, 32]), 'rw', b''))
    plan += rw
    if rng.random() < 0.5:
        plan.append(('.comment', 1, 0x30, 0, 1, None, b'GCC: (GNU) 12.2.0\0'))
    nseg_max = 12
    lma_shift = rng.choice([0, 0x1000000, 0x1000000])         # ROM images load at another address than they run at
    ehsize = 64 if is64 else 52
    phsize = (56 if is64 else 32) * nseg_max
    # first pass: addresses (offset + base), contiguous with alignment; groups start on a page boundary
    pos = ehsize + phsize
    secs = []
    spans = {}
    last_group = None
    mem_extra = 0
    for name, typ, flags, size, align, group, data in plan:
        if group != last_group and group is not None:
            pos += (-pos) % 0x1000
        pos += (-pos) % max(1, align)
        if name == '.tbss':
            addr = base + pos
            secs.append(elfgen.Sec(name, typ, flags=flags, data=b'', size=size, align=align, addr=addr, offset=pos))
            spans.setdefault('tls', [pos, pos, 0])
            spans['tls'][2] = size
            last_group = group
            continue
        if typ == 8:
            addr = base + pos + mem_extra
            secs.append(elfgen.Sec(name, typ, flags=flags, data=b'', size=size, align=align, addr=addr, offset=pos))
            mem_extra += size
            sp = spans.setdefault(group, [pos, pos, 0])
            sp[2] = mem_extra
            if name == '.bss.rel.ro':
                spans['relro'][2] = size
            last_group = group
            continue
        addr = base + pos if group is not None else 0
        secs.append(elfgen.Sec(name, typ, flags=flags, data=data, align=align, addr=addr, offset=pos,
                               entsize=(8 if is64 else 4) if typ == 14 else (1 if flags & 0x10 else 0)))
        if group is not None:
            sp = spans.setdefault(group, [pos, pos, 0])
            sp[1] = pos + len(data)
            if name == '.tdata':
                t = spans.setdefault('tls', [pos, pos, 0])
                t[0], t[1] = pos, pos + len(data)
            if name.startswith('.note'):
                spans['note'] = [pos, pos + len(data), 0]
            if name == '.interp':
                spans['interp'] = [pos, pos + len(data), 0]
            if name == '.init_array':
                spans['relro'] = [pos, pos + len(data), 0]
        pos += len(data)
        last_group = group
    segs = []
    if rng.random() < 0.6:
        segs.append(elfgen.Seg(type=6, flags=4, offset=ehsize, vaddr=base + ehsize, filesz=phsize, memsz=phsize, align=8))
    if 'interp' in spans:
        a, b, _ = spans['interp']
        segs.append(elfgen.Seg(type=3, flags=4, offset=a, vaddr=base + a, filesz=b - a, align=1))
    first = True
    for group, fl in (('ro', 4), ('rx', 5), ('rr', 6), ('rw', 6)):
        if group in spans:
            a, b, extra = spans[group]
            if first:
                a = 0          # the first load segment maps the headers too
                first = False
            segs.append(elfgen.Seg(type=1, flags=fl, offset=a, vaddr=base + a, paddr=base + a + rng.choice([0, lma_shift, 0x2000000]), filesz=b - a, memsz=b - a + extra,
                                   align=0x1000))
    if 'note' in spans:
        a, b, _ = spans['note']
        segs.append(elfgen.Seg(type=4, flags=4, offset=a, vaddr=base + a, filesz=b - a, align=4))
    if tls:
        a, b, extra = spans['tls']
        segs.append(elfgen.Seg(type=7, flags=4, offset=a, vaddr=base + a, filesz=b - a, memsz=b - a + extra, align=8))
    if rng.random() < 0.7:
        segs.append(elfgen.Seg(type=0x6474e551, flags=rng.choice([6, 7]), offset=0, vaddr=0, filesz=0, memsz=0, align=16))
    if 'relro' in spans and (rng.random() < 0.7 or relro_bss):
        a, b, extra = spans['relro']
        segs.append(elfgen.Seg(type=0x6474e552, flags=4, offset=a, vaddr=base + a, filesz=b - a, memsz=b - a + extra, align=1))
    # segment types without a name: the OS and processor ranges (and their limits) are shown as LOOS+n / LOPROC+n
    if len(segs) < nseg_max and rng.random() < 0.5:
        segs.append(elfgen.Seg(type=rng.choice([0x60000000, 0x60001234, 0x6fffffff, 0x70000000 + 0x7777, 0x7fffffff]), flags=4, offset=0, vaddr=0,
                               filesz=0, memsz=0, align=1))
    while len(segs) < nseg_max:
        segs.append(elfgen.Seg(type=0, flags=0, offset=0, vaddr=0, filesz=0, memsz=0, align=0))
    entry = next(s.addr for s in secs if s.name == '.text')
    img, info = elfgen.build(cls=cls, le=le, machine=machine, etype=etype, entry=entry, sections=secs, segments=segs)
    return img, dict(cls=cls, le=le, machine=machine, base=base, sections=[s.name for s in secs], tls=tls,
                     segments=[g.type for g in segs if g.type])


def gen_dump_file(rng):
    """-> (image, description, options): sections to dump with -x / -p: binary data of odd lengths, strings with
    non-printable characters, an empty section, a NOBITS section."""
    cls = rng.choice([32, 64])
    le = rng.random() < 0.7
    machine = 62 if cls == 64 else 3

    def blob(n):
        return bytes(rng.getrandbits(8) for _ in range(n))
    text = blob(rng.choice([1, 15, 16, 17, 33, 100]))
    # bytes >= 0x80 in a string dump depend on the locale, and GNU prints DEL as '^' + 0xbf: both kept out
    text = bytes((b & 0x7f) if (b & 0x7f) != 0x7f else 0x41 for b in text)
    strs = b''.join(rng.choice([b'hello', b'', b'a', b'GCC: (Debian) 12', b'tab\there', b'\x01ctrl', b'line\n', b'two\nlines', b'fmt %d\n\n', b'x' * 70]) + b'\0'
                    for _ in range(rng.choice([1, 3, 6])))
    if rng.random() < 0.3:
        strs = b'\0\0' + strs
    secs = [elfgen.Sec('.text', 1, flags=6, data=text, addr=rng.choice([0, 0x1000, 0x401007]), align=1),
            elfgen.Sec('.comment', 1, flags=0x30, data=strs, entsize=1),
            elfgen.Sec('.empty', 1, flags=2, data=b''),
            elfgen.Sec('.bss', 8, flags=3, data=b'', size=16)]
    # two sections of one name (COMDAT copies) and relocations against exactly one of the dumped sections: dumps by
    # number must tell them apart ('NOTE: This section has relocations against it ...')
    E = '<' if le else '>'
    secs.append(elfgen.Sec('.text', 1, flags=6, data=bytes((b & 0x7f) if (b & 0x7f) != 0x7f else 0x42 for b in blob(8)), align=1))
    target = rng.choice([1, 5])
    rel = struct.pack(E + ('QQq' if cls == 64 else 'IIi'), 0, 0, 0)
    secs.append(elfgen.Sec('.rela.text', 4, flags=0x40, data=rel, link=0, info=target, entsize=24 if cls == 64 else 12, align=8))
    # linked files keep relocation sections too (.rela.plt, ld --emit-relocs): the note does not depend on the file type
    etype = (1, 3, 1, 2)[getattr(rng, 'variant', rng.randrange(4)) % 4]
    img, info = elfgen.build(cls=cls, le=le, machine=machine, etype=etype, sections=secs)
    return img, dict(cls=cls, text=len(text), strings=len(strs), etype=etype, reloc_target=target)


def gen_sections_file(rng):
    """-> (image, description): a relocatable object with the section kinds assemblers write - groups, merge/string
    sections with entry sizes, relocation sections with link/info, init arrays, notes, NOBITS, large alignments,
    an extended symbol index table - and, sometimes, more than a hundred sections."""
    cls = rng.choice([32, 64])
    le = rng.random() < 0.7
    E = '<' if le else '>'
    is64 = cls == 64
    machine = rng.choice([62, 183, 21]) if is64 else rng.choice([3, 40, 8])       # machines the clone has relocation names for
    rtype = {62: 2, 183: 257, 21: 38, 3: 2, 40: 2, 8: 2}[machine]
    symsz = 24 if is64 else 16
    relasz = (24 if is64 else 12)

    def blob(n):
        return bytes(rng.getrandbits(8) for _ in range(n))
    names = ['', 'grp_sig', 'f', 'v']
    tab, offs = elfgen.strtab([n.encode() for n in names])
    v = getattr(rng, 'variant', None)
    many = (rng.random() < 0.25) if v is None else v % 5 == 4
    secs = [elfgen.Sec('.text', 1, flags=6, data=blob(rng.choice([4, 64])), align=rng.choice([4, 16, 4096])),
            elfgen.Sec('.data', 1, flags=3, data=blob(8), align=8),
            elfgen.Sec('.bss', 8, flags=3, data=b'', size=rng.choice([1, 64, 0x12345]), align=rng.choice([1, 32])),
            elfgen.Sec('.rodata.str1.1', 1, flags=0x32, data=b'hello\0world\0', entsize=1),
            elfgen.Sec('.rodata.cst8', 1, flags=0x12, data=blob(16), entsize=8, align=8),
            elfgen.Sec('.init_array', 14, flags=3, data=blob(cls // 8), entsize=cls // 8, align=cls // 8),
            elfgen.Sec('.note.GNU-stack', 1, flags=0, data=b''),
            elfgen.Sec('.comment', 1, flags=0x30, data=b'GCC: (GNU) 12\0', entsize=1)]
    if rng.random() < 0.7:
        secs.append(elfgen.Sec('.group', 17, data=struct.pack(E + 'II', 1, 12), link='.symtab', info=1, entsize=4, align=4))
        secs.append(elfgen.Sec('.text._Z1fv', 1, flags=0x206, data=blob(8), align=16))
    if rng.random() < 0.5:
        secs.append(elfgen.Sec('.tdata', 1, flags=0x403, data=blob(8), align=8))
        secs.append(elfgen.Sec('.tbss', 8, flags=0x403, data=b'', size=16, align=8))
    if rng.random() < 0.5:
        # a gABI-compressed debug section (gcc -gz): the size column shows the stored size, the flags a 'C'
        import zlib
        raw = b'some string\0' * 20
        chdr = struct.pack(E + ('IIQQ' if is64 else 'III'), *((1, 0, len(raw), 1) if is64 else (1, len(raw), 1)))
        secs.append(elfgen.Sec('.debug_str', 1, flags=0x830, data=chdr + zlib.compress(raw), entsize=1, align=8 if is64 else 4))
    if rng.random() < 0.5:
        # section types without a name: OS, processor and user ranges (and their limits) are shown as LOOS+n / LOPROC+n / LOUSER+n
        secs.append(elfgen.Sec('.vendor', rng.choice([0x60000000, 0x60000abc, 0x70000000 + 0x7777, 0x7fffffff, 0x80000000, 0x80000123, 0xffffffff]),
                               data=blob(4)))
    if many:
        for i in range(rng.choice([95, 130])):
            secs.append(elfgen.Sec('.text.f%d' % i, 1, flags=6, data=blob(2), align=2))
    # relocations against .text with link -> .symtab and info -> .text
    rel = struct.pack(E + ('QQq' if is64 else 'IIi'), 0, ((2 << 32) | rtype) if is64 else ((2 << 8) | rtype), -4)
    secs.append(elfgen.Sec('.rela.text', 4, flags=0x40, data=rel, link='.symtab', info='.text', entsize=relasz, align=8))
    xidx = (rng.random() < 0.4) if v is None else v % 2 == 1
    syms = [elfgen.sym_pack(E, is64, 0, 0, 0, 0, 0, 0),
            elfgen.sym_pack(E, is64, offs[b'grp_sig'], 0, 0, 0x12, 0, 1),
            elfgen.sym_pack(E, is64, offs[b'f'], 0, 4, 0x12, 0, 0xffff if xidx else 1),
            elfgen.sym_pack(E, is64, offs[b'v'], 8, 8, 0x11, 0, 2)]
    secs.append(elfgen.Sec('.symtab', 2, data=b''.join(syms), link='.strtab', info=1, entsize=symsz, align=8))
    if xidx:
        secs.append(elfgen.Sec('.symtab_shndx', 18, data=struct.pack(E + 'IIII', 0, 0, 1, 0), link='.symtab', entsize=4, align=4))
        if rng.random() < 0.5:
            # a second symbol table with an index table of its own (other indices than the first one's)
            dsyms = [elfgen.sym_pack(E, is64, 0, 0, 0, 0, 0, 0), elfgen.sym_pack(E, is64, offs[b'v'], 8, 8, 0x11, 0, 0xffff)]
            secs.append(elfgen.Sec('.dynsym', 11, flags=2, data=b''.join(dsyms), link='.strtab', info=1, entsize=symsz, align=8))
            secs.append(elfgen.Sec('.dynsym_shndx', 18, data=struct.pack(E + 'II', 0, 2), link='.dynsym', entsize=4, align=4))
    secs.append(elfgen.Sec('.strtab', 3, data=tab))
    img, info = elfgen.build(cls=cls, le=le, machine=machine, etype=1, sections=secs)
    return img, dict(cls=cls, le=le, machine=machine, sections=len(secs), many=many, xindex=xidx)


def gen_header_file(rng, machines, osabis):
    """-> (image, description): headers with every field varied - class, byte order, OS ABI and ABI version, type
    (incl. a PIE, which readelf tells from DT_FLAGS_1), machine, entry point, machine flags, and the extended
    numbering escapes for the section count and the string table index."""
    v = getattr(rng, 'variant', 0) or 0
    cls = 32 if v & 1 else 64
    le = rng.random() < 0.6
    E = '<' if le else '>'
    is64 = cls == 64
    machine = rng.choice(machines)
    osabi = rng.choice(osabis)
    etype = [1, 2, 3, 3, 4][v % 5]
    pie = etype == 3 and (v >> 1) % 2 == 0
    eflags = 0
    if machine == 40:
        eflags = 0x05000000 | rng.choice([0, 0x200, 0x400, 0x400 | 0x800000])
        if rng.random() < 0.3:
            eflags = 0              # objects of the old ABI carry no EABI version
    elif machine == 8:
        eflags = rng.choice([0x1000, 0x70001007, 0x80000006, 0x20000000 | 0x1000])
    elif machine == 243:
        eflags = rng.choice([0, 1, 5, 4])
    elif machine == 21:
        eflags = rng.choice([0, 1, 2])
    secs = [elfgen.Sec('.text', 1, flags=6, data=b'\x90' * 16, addr=0x1000, align=16)]
    segs = []
    if etype == 3:
        W = 'qQ' if is64 else 'iI'
        tags = [(5, 0x2000), (6, 0x2100), (10, 8), (11, 24 if is64 else 16)] + ([(0x6ffffffb, 0x08000001)] if pie else [(0x6ffffffb, 1)]) + [(0, 0)]
        dyn = b''.join(struct.pack(E + W, t if t < 2 ** 31 or is64 else t - 2 ** 32, val) for t, val in tags)
        dname = '.dyn' if rng.random() < 0.25 else '.dynamic'      # a linker script may name the output section differently
        secs += [elfgen.Sec('.dynstr', 3, flags=2, data=b'\0lib.so\0', addr=0x2000),
                 elfgen.Sec('.dynsym', 11, flags=2, data=bytes(24 if is64 else 16), link='.dynstr', info=1, entsize=24 if is64 else 16, addr=0x2100, align=8),
                 elfgen.Sec(dname, 6, flags=3, data=dyn, link='.dynstr', entsize=16 if is64 else 8, addr=0x3000, align=8)]
        segs = [elfgen.Seg(type=1, sec='.dynstr', vaddr=0x2000), elfgen.Seg(type=1, sec='.dynsym', vaddr=0x2100),
                elfgen.Seg(type=2, sec=dname, vaddr=0x3000)]
    esc = (v >> 2) % 4
    img, info = elfgen.build(cls=cls, le=le, machine=machine, etype=etype, osabi=osabi, abiversion=rng.choice([0, 0, 1, 7]),
                             entry=rng.choice([0, 0x1000, 0x401000, 2 ** (cls - 1) + 0x10]), eflags=eflags, sections=secs, segments=segs,
                             esc_shnum=esc in (1, 3), esc_shstrndx=esc in (2, 3))
    return img, dict(cls=cls, le=le, machine=machine, osabi=osabi, etype=etype, pie=pie, eflags=eflags, escapes=esc)


def gen_attrs_file(rng, arm_vals, riscv_vals):
    """-> (image, description): an .ARM.attributes / .riscv.attributes section with file, section and symbol scopes,
    number lists with multi-byte ULEB128 values, string-valued tags and values inside and outside the described ranges.
    arm_vals / riscv_vals: {tag number: [values with a description]}."""
    from .leb import uleb
    v = getattr(rng, 'variant', 0) or 0
    arm = v % 3 != 2
    le = rng.random() < 0.7
    I = '<I' if le else '>I'
    vals = arm_vals if arm else riscv_vals
    ntbs = {4, 5, 67} if arm else {5}

    def attrs(n):
        out = b''
        for t in rng.sample(sorted(vals), min(n, len(vals))):
            if t in ntbs:
                out += uleb(t) + rng.choice([b'ARM v7', b'cortex-a9', b'rv64i2p0_m2p0', b'2.09']) + b'\0'
            elif arm and t == 32:
                out += uleb(t) + uleb(rng.choice([0, 1, 2])) + b'vend\0'
            elif arm and t == 65:
                out += uleb(t) + uleb(6) + uleb(rng.choice(vals[6] or [10])) + b'\0'
            elif not arm and t == 4:
                out += uleb(t) + uleb(rng.choice([4, 8, 16, 32]))
            elif vals[t]:
                out += uleb(t) + uleb(rng.choice(vals[t]))
            else:
                out += uleb(t) + uleb(rng.choice([0, 1, 2]))
        return out
    subs = b''
    shape = []
    for k in range(rng.choice([1, 2, 3])):
        scope = 1 if k == 0 else rng.choice([2, 3])
        nums = b''
        if scope != 1:
            lst = [rng.choice([1, 3, 127, 128, 200, 5, 16384]) for _ in range(rng.choice([1, 2, 4]))]
            nums = b''.join(uleb(x) for x in lst) + b'\0'
            shape.append((scope, lst))
        else:
            shape.append((1, None))
        body = nums + attrs(rng.choice([1, 3, 6]))
        subs += bytes([scope]) + struct.pack(I, 5 + len(body)) + body
    blk = (b'aeabi' if arm else b'riscv') + b'\0' + subs
    sec = b'A' + struct.pack(I, 4 + len(blk)) + blk
    cls = 32 if arm else 64
    img = elfgen.build(cls=cls, le=le, machine=40 if arm else 243, etype=1, eflags=0x05000000 if arm else 0,
                       sections=[elfgen.Sec('.text', 1, flags=6, data=b'\0' * 4),
                                 elfgen.Sec('.ARM.attributes' if arm else '.riscv.attributes', 0x70000003, data=sec)])[0]
    return img, dict(arch='arm' if arm else 'riscv', le=le, scopes=shape)
