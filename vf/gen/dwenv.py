"""Compiler-shaped DWARF sections for the output-equivalence workloads of C18: every table is well formed,
uses standard header parameters and only features compilers emit. Independent of elftools."""
import struct
from .leb import uleb, sleb
from . import dwtab

DIRS = ['/usr/include', 'src', '/home/user/proj/include', 'lib/sub']
FILES = ['main.c', 'util.c', 'stdio.h', 'types.h', 'a_file_name_longer_than_the_table_column.c', 'x.h']


def gen_line_unit(rng, ver, le, asz, lstr, comp_dir, primary):
    """-> bytes of one line-number program (32-bit DWARF format)."""
    E = '<' if le else '>'
    opcode_base = 13 if ver >= 3 else rng.choice([10, 13])
    std_lens = [0, 1, 1, 1, 1, 0, 0, 0, 1, 0, 0, 1][:opcode_base - 1]
    mil = rng.choice([1, 1, 4])
    line_base, line_range = -5, 14
    # VLIW tables only in little-endian files: for PPC64 (the big-endian 64-bit machine here) the clone deliberately keeps the old row layout
    maxops = rng.choice([1, 1, 1, 4]) if ver >= 4 and le else 1
    hdr = bytes([mil]) + (bytes([maxops]) if ver >= 4 else b'') + bytes([1]) + struct.pack('b', line_base) + bytes([line_range, opcode_base]) + bytes(std_lens)
    ndirs = rng.choice([0, 1, 2, 3])
    dirs = rng.sample(DIRS, ndirs)
    nfiles = rng.choice([1, 2, 4] * 7 + [130])
    if getattr(rng, 'variant', None) is not None:
        nfiles = 130 if rng.variant % 7 == 6 and ver >= 5 else rng.choice([1, 2, 4])       # one large v5 table in every run
    files = [(primary, 0)] + [(rng.choice(FILES[2:]), rng.randint(0, ndirs)) for _ in range(nfiles - 1)]
    if ver < 5:
        for d in dirs:
            hdr += d.encode() + b'\0'
        hdr += b'\0'
        for n, di in files:
            hdr += n.encode() + b'\0' + uleb(di) + uleb(0) + uleb(0)
        hdr += b'\0'
        nfile_idx = list(range(1, len(files) + 1))
    else:
        use_strp = rng.random() < 0.6

        def sref(s):
            if use_strp:
                o = len(lstr)
                lstr.extend(s.encode() + b'\0')
                return struct.pack(E + 'I', o)
            return s.encode() + b'\0'
        form = 0x1f if use_strp else 0x08
        alld = [comp_dir] + dirs
        hdr += bytes([1]) + uleb(1) + uleb(form) + uleb(len(alld))
        for d in alld:
            hdr += sref(d)
        allf = [files[0]] + files          # gcc repeats the primary file as entries 0 and 1
        md5 = rng.random() < 0.3
        hdr += bytes([3 if md5 else 2]) + uleb(1) + uleb(form) + uleb(2) + uleb(0x0b) + ((uleb(5) + uleb(0x1e)) if md5 else b'') + uleb(len(allf))
        for n, di in allf:
            hdr += sref(n) + bytes([di]) + (bytes(rng.getrandbits(8) for _ in range(16)) if md5 else b'')
        nfile_idx = list(range(1, len(allf)))
    prog = bytearray()
    nseq = rng.choice([1, 1, 2])
    addr = rng.choice([0x1000, 0x401000, 0])
    for s in range(nseq):
        prog += b'\0' + uleb(1 + asz) + b'\x02' + addr.to_bytes(asz, 'little' if le else 'big')
        cur = 1                 # compilers never step to a line below 1
        for i in range(rng.choice([2, 5, 12, 30])):
            k = rng.random()
            if k < 0.45:
                adv_line = rng.randint(max(line_base, 1 - cur), line_base + line_range - 1)
                cur += adv_line
                adv_addr = rng.randint(0, (255 - opcode_base - (adv_line - line_base)) // line_range)
                prog.append((adv_line - line_base) + line_range * adv_addr + opcode_base)
            elif k < 0.55:
                prog += b'\x02' + uleb(rng.choice([1, 4, 16, 300]))
            elif k < 0.65:
                adv = rng.choice([a for a in (1, -1, 10, -3, 200) if cur + a >= 1])
                cur += adv
                prog += b'\x03' + sleb(adv)
            elif k < 0.72 and len(nfile_idx) > 1:
                prog += b'\x04' + uleb(rng.choice(nfile_idx))
            elif k < 0.78:
                prog += b'\x05' + uleb(rng.choice([0, 1, 7, 80]))
            elif k < 0.83:
                prog += b'\x06'
            elif k < 0.86:
                prog += b'\x07'
            elif k < 0.89:
                prog += b'\x08'
            elif k < 0.92:
                prog += b'\x09' + struct.pack(E + 'H', rng.choice([1, 8, 0x100]))
            elif k < 0.95 and opcode_base >= 13:
                prog += rng.choice([b'\x0a', b'\x0b'])
            elif k < 0.97:
                prog += b'\x01'
            elif ver >= 4:
                v = uleb(rng.choice([1, 3, 200]))
                prog += b'\0' + uleb(1 + len(v)) + b'\x04' + v
            else:
                prog += b'\x01'
        prog += b'\x02' + uleb(rng.choice([1, 8])) + b'\0\x01\x01'
        addr += 0x1000
    if ver >= 5:
        pre = bytes([asz, 0])
    else:
        pre = b''
    body = pre + struct.pack(E + 'I', len(hdr)) + hdr + bytes(prog)
    return struct.pack(E + 'IH', len(body) + 2, ver) + body


def gen_lines_file(rng):
    """-> (image, description): .debug_line with 1-3 programs of versions 2-5 and matching compile units."""
    from .. import oracles
    le = rng.random() < 0.7
    cls = rng.choice([32, 64])
    asz = cls // 8
    machine = (62 if le else 21) if cls == 64 else (3 if le else 8)
    E = '<' if le else '>'
    n = rng.choice([1, 2, 3])
    line = bytearray()
    lstr = bytearray(b'\0')
    units = b''
    abbrevs = b''
    shape = []
    for i in range(n):
        ver = rng.choice([2, 3, 4, 5])
        if getattr(rng, 'variant', None) is not None and rng.variant % 7 == 6 and i == 0:
            ver = 5
        comp_dir = rng.choice(['/build/obj', '/tmp', '/home/user/proj'])
        primary = rng.choice(FILES[:2])
        off = len(line)
        line += gen_line_unit(rng, ver, le, asz, lstr, comp_dir, primary)
        # a unit in the 64-bit format may refer to a 32-bit table (gcc -gdwarf64 with the assembler's line tables)
        fmt = 64 if rng.random() < 0.2 else 32
        cu = dwtab.CU(version=ver if ver != 5 else 5, asz=asz, le=le, fmt=fmt)
        form = 0x17 if ver >= 4 else (0x06 if fmt == 32 else 0x07)
        cu.root_attrs = [(0x1b, 0x08, comp_dir.encode() + b'\0', None), (0x10, form, struct.pack(E + ('I' if fmt == 32 else 'Q'), off), None)]
        cu.root_name = primary
        u, ab, _ = cu.build(abbrev_base=len(abbrevs))
        units += u
        abbrevs += ab
        shape.append((ver, fmt))
        if i == 0:
            first = (ver, comp_dir, primary)
    if n >= 2 and rng.random() < 0.3:
        # a partial unit factored out of the first unit keeps that unit's table: the units sharing a table are not neighbours
        ver, comp_dir, primary = first
        cu = dwtab.CU(version=ver, asz=asz, le=le, root_tag=0x3c, unit_type=3)
        cu.root_attrs = [(0x1b, 0x08, comp_dir.encode() + b'\0', None), (0x10, 0x17 if ver >= 4 else 0x06, struct.pack(E + 'I', 0), None)]
        cu.root_name = primary
        u, ab, _ = cu.build(abbrev_base=len(abbrevs))
        units += u
        abbrevs += ab
        shape.append((ver, 'shares-first'))
    secs = {'.debug_info': units, '.debug_abbrev': abbrevs, '.debug_line': bytes(line), '.debug_line_str': bytes(lstr)}
    img = oracles.wrap_debug(secs, le, cls=cls, machine=machine, etype=2)
    return img, dict(cls=cls, le=le, versions=shape)




# ---------------------------------------------------------------- call frame information
FRAME_MACH = {  # machine: (class, code align, data align, return column, CFA register, callee-saved registers)
    62: (64, 1, -8, 16, 7, [3, 6, 12, 13, 14, 15]),
    3: (32, 1, -4, 8, 4, [3, 5, 6, 7]),
    183: (64, 4, -8, 30, 31, [19, 20, 21, 22, 29, 30]),
    21: (64, 4, -8, 169, 1, [14, 15, 31, 65]),          # no register names in either program; column 169 does not fit 7 bits
}


def gen_cfa_program(rng, caf, daf, cfa_reg, saved, n, nested=False):
    """A prologue/epilogue-shaped instruction sequence: every register rule is an offset rule, states are
    remembered before they are restored."""
    out = bytearray()
    depth = 0
    cfa_off = abs(daf)
    free = list(saved)
    rng.shuffle(free)
    used = []
    cfa_expr = False        # while the CFA is an expression only a full DW_CFA_def_cfa may redefine it (DWARF 6.4.2.2)
    estack = []
    for i in range(n):
        k = rng.random()
        if cfa_expr and (0.3 <= k < 0.5 or 0.7 <= k < 0.76 or 0.78 <= k < 0.8):
            k = 0.77        # -> DW_CFA_def_cfa
        if k < 0.3:
            d = rng.choice([1, 2, 4, 7, 0x3f, 0x40, 300, 70000])
            if d < 0x40:
                out.append(0x40 | d)
            elif d < 0x100:
                out += bytes([0x02, d])
            elif d < 0x10000:
                out += b'\x03' + struct.pack('<H', d)
            else:
                out += b'\x04' + struct.pack('<I', d)
        elif k < 0.5:
            cfa_off += abs(daf) * rng.choice([1, 2, 6])
            out += b'\x0e' + uleb(cfa_off)
        elif k < 0.7 and free:
            r = free.pop()
            used.append(r)
            off = rng.randint(0, 12)            # 0: saved exactly at the CFA
            if rng.random() < 0.12:
                out += b'\x09' + uleb(r) + uleb(rng.choice(saved))     # kept in another register (leaf functions, PLT stubs)
            elif r < 0x40 and rng.random() < 0.8:
                out += bytes([0x80 | r]) + uleb(off)
            else:
                out += b'\x05' + uleb(r) + uleb(off)
        elif k < 0.76:
            if cfa_expr:        # reached when no register is left to save: still only a full definition is valid
                out += b'\x0c' + uleb(cfa_reg) + uleb(cfa_off)
                cfa_expr = False
            else:
                out += b'\x0d' + uleb(rng.choice(saved))
        elif k < 0.78:
            out += b'\x0c' + uleb(cfa_reg) + uleb(cfa_off)
            cfa_expr = False
        elif k < 0.8:
            # the signed, factored forms: with a negative data alignment factor a positive operand is a negative offset
            c = rng.random()
            if c < 0.35:
                out += b'\x13' + sleb(rng.choice([1, 2, -2, 5]))
            elif c < 0.6:
                out += b'\x12' + uleb(rng.choice(saved)) + sleb(rng.choice([1, -1, 3]))
            elif c < 0.85:
                # value rules; operands whose LEB128 form has bit 6 set in the last byte read differently as signed numbers
                out += b'\x14' + uleb(rng.choice(saved)) + uleb(rng.choice([0, 1, 64, 100, 127, 128, 8192 + 5]))
            else:
                out += b'\x15' + uleb(rng.choice(saved)) + sleb(rng.choice([0, 1, -1, 64, -65]))
        elif k < 0.86:
            out += b'\x0a'
            depth += 1
            estack.append(cfa_expr)
        elif k < 0.92 and depth:
            out += b'\x0b'
            depth -= 1
            cfa_expr = estack.pop()
        elif k < 0.96 and used:
            r = rng.choice(used)
            out += bytes([0xc0 | r]) if r < 0x40 else b'\x06' + uleb(r)
        elif k < 0.985:
            out += b'\x2e' + uleb(rng.choice([0, 16, 32]))      # DW_CFA_GNU_args_size
        else:
            # expression rules as unwinders of signal frames and PLT stubs use them
            e = rng.choice([bytes([0x70 + cfa_reg if cfa_reg < 32 else 0x77, 0x08]), bytes([0x77, 0x08, 0x06]), bytes([0x76, 0x78, 0x23, 0x10])])
            c = rng.random()
            if c < 0.34:
                out += b'\x0f' + uleb(len(e)) + e
                cfa_expr = True
            elif c < 0.67:
                out += b'\x10' + uleb(rng.choice(saved)) + uleb(len(e)) + e
            else:
                out += b'\x16' + uleb(rng.choice(saved)) + uleb(len(e)) + e
    if nested and not cfa_expr:
        # remembered states nested two deep, every state different, a row after each step
        for step in (b'\x0a', b'\x0e' + uleb(cfa_off + 5 * abs(daf)), b'\x0a', b'\x0e' + uleb(cfa_off + 9 * abs(daf)), b'\x0b', b'\x0b'):
            out += step + b'\x41'
    return bytes(out)


def gen_frames_file(rng):
    """-> (image, description): .eh_frame ('zR' CIEs, pc-relative sdata4 pointers) and/or .debug_frame
    (CIE versions 1, 3, 4) with FDEs whose programs look like prologues and epilogues."""
    from .. import oracles
    machine = rng.choice(sorted(FRAME_MACH))
    cls, caf, daf, ra, cfa_reg, saved = FRAME_MACH[machine]
    asz = cls // 8
    A = '<Q' if asz == 8 else '<I'
    secs = {}
    addrs = {}
    shape = {}
    init = b'\x0c' + uleb(cfa_reg) + uleb(abs(daf)) + (bytes([0x80 | ra]) + uleb(1) if ra < 0x40 else b'')
    if rng.random() < 0.75:
        base = 0x2000
        sec = bytearray()
        ncie = rng.choice([1, 2])
        late = []               # FDEs of the first CIE that are emitted behind the second one
        for c in range(ncie):
            cie_off = len(sec)
            ra_c = ra if c == 0 else rng.choice([ra, saved[0]])       # CIEs may name different return address columns
            init_c = b'\x0c' + uleb(cfa_reg) + uleb(abs(daf)) + (bytes([0x80 | ra_c]) + uleb(1) if ra_c < 0x40 else b'\x05' + uleb(ra_c) + uleb(1))
            aug = rng.choice(['zR', 'zR', 'zPLR', 'zPR', 'zLR'])
            penc = rng.choice([0x00, 0x03, 0x1b, 0x9b])
            lenc = rng.choice([0x03, 0x1b, 0x0b])
            augdata = b''
            for ch in aug[1:]:
                if ch == 'R':
                    augdata += bytes([0x1b])
                elif ch == 'L':
                    augdata += bytes([lenc])
                else:
                    pv = 0x401234
                    if penc & 0x0f == 0x00:
                        pb = struct.pack(A, pv)
                    elif penc & 0x70 == 0x10:
                        pb = struct.pack('<i', pv - (base + cie_off + 8 + 1 + len(aug) + 1 + len(uleb(caf)) + len(sleb(daf)) + len(uleb(ra)) + 1 + len(augdata) + 1))
                    else:
                        pb = struct.pack('<I', pv)
                    augdata += bytes([penc]) + pb
            body = struct.pack('<IB', 0, 1) + aug.encode() + b'\0' + uleb(caf) + sleb(daf) + (bytes([ra_c]) if ra_c >= 128 else uleb(ra_c)) + \
                uleb(len(augdata)) + augdata + init_c
            body += b'\0' * (-(len(body) + 4) % asz)
            sec += struct.pack('<I', len(body)) + body
            if c == 1 and late:
                for mk in late:
                    sec += mk(len(sec))
                late = []
            for f in range(rng.choice([1, 2, 4])):
                fde_off = len(sec)
                prog = gen_cfa_program(rng, caf, daf, cfa_reg, saved, rng.choice([2, 6, 15]), nested=f == 0 and getattr(rng, 'variant', 0) % 2 == 0)
                pc = 0x1000 + 0x100 * f + 0x1000 * c
                field = base + fde_off + 8
                fa = b''
                if 'L' in aug:
                    lv = 0x402000 + 0x10 * f
                    fa = struct.pack('<I', lv) if lenc == 0x03 else (struct.pack('<i', lv - (field + 8 + 1)) if lenc == 0x1b else struct.pack('<i', lv))
                fb = struct.pack('<I', fde_off + 4 - cie_off) + struct.pack('<i', pc - field) + struct.pack('<I', rng.choice([0x20, 0x80, 0x1234])) + uleb(len(fa)) + fa + prog
                fb += b'\0' * (-(len(fb) + 4) % asz)
                sec += struct.pack('<I', len(fb)) + fb
                if c == 0 and ncie == 2 and 'L' not in aug and rng.random() < 0.5:
                    # one more FDE of this CIE, placed behind the next CIE
                    prog2 = gen_cfa_program(rng, caf, daf, cfa_reg, saved, 4)

                    def mk(at, cie_off=cie_off, prog2=prog2, f=f):
                        b2 = struct.pack('<I', at + 4 - cie_off) + struct.pack('<i', 0x5000 + 0x100 * f - (base + at + 8)) + struct.pack('<I', 0x40) + uleb(0) + prog2
                        b2 += b'\0' * (-(len(b2) + 4) % asz)
                        return struct.pack('<I', len(b2)) + b2
                    late.append(mk)
            if c == 0 and ncie == 2 and rng.random() < 0.2:
                sec += b'\0\0\0\0'          # a terminator in mid-section (one per input file of a relocatable link)
        sec += b'\0\0\0\0'
        secs['.eh_frame'] = bytes(sec)
        addrs['.eh_frame'] = base
        shape['eh'] = True
    if rng.random() < 0.6 or not secs:
        sec = bytearray()
        vers = []
        for c in range(rng.choice([1, 2])):
            ver = rng.choice([1, 3, 4])
            fmt64 = rng.random() < 0.25
            vers.append((ver, 64 if fmt64 else 32))
            init_d = init if ra < 0x40 else b'\x0c' + uleb(cfa_reg) + uleb(abs(daf)) + b'\x05' + uleb(ra) + uleb(1)
            body = (struct.pack('<QB', 2 ** 64 - 1, ver) if fmt64 else struct.pack('<IB', 0xffffffff, ver)) + b'\0' + \
                (bytes([asz, 0]) if ver == 4 else b'') + uleb(caf) + sleb(daf) + (bytes([ra]) if ver == 1 else uleb(ra)) + init_d
            body += b'\0' * (-(len(body) + (12 if fmt64 else 4)) % asz)
            cie = (b'\xff\xff\xff\xff' + struct.pack('<Q', len(body)) if fmt64 else struct.pack('<I', len(body))) + body
            fdes = []
            for f in range(rng.choice([1, 3])):
                prog = gen_cfa_program(rng, caf, daf, cfa_reg, saved, rng.choice([2, 6, 15]), nested=f == 0 and getattr(rng, 'variant', 0) % 2 == 1)
                fdes.append((struct.pack(A, 0x401000 + 0x200 * f) + struct.pack(A, rng.choice([0x10, 0x1f0])) + prog))

            def fde_bytes(tail, cie_at):
                fb = (struct.pack('<Q', cie_at) if fmt64 else struct.pack('<I', cie_at)) + tail
                fb += b'\0' * (-(len(fb) + (12 if fmt64 else 4)) % asz)
                return (b'\xff\xff\xff\xff' + struct.pack('<Q', len(fb)) if fmt64 else struct.pack('<I', len(fb))) + fb
            if False:       # an FDE in front of its CIE is mishandled by GNU readelf itself (binutils bug 31973): not an oracle
                # the first FDE in front of its CIE (allowed in .debug_frame: the pointer is a section offset)
                first = fde_bytes(fdes[0], 0)
                cie_at = len(sec) + len(first)
                sec += fde_bytes(fdes[0], cie_at) + cie
                rest = fdes[1:]
            else:
                cie_at = len(sec)
                sec += cie
                rest = fdes
            for tail in rest:
                sec += fde_bytes(tail, cie_at)
        secs['.debug_frame'] = bytes(sec)
        shape['debug_frame'] = vers
    tiny = dwtab.CU(version=4, asz=asz)
    tiny.add(0x24, [(0x0b, 0x0b, b'\x04', None)], label='int')
    unit, ab, _ = tiny.build()
    secs['.debug_info'] = unit
    secs['.debug_abbrev'] = ab
    img = oracles.wrap_debug(secs, True, cls=cls, machine=machine, etype=2, addrs=addrs)
    shape['machine'] = machine
    return img, shape


# ---------------------------------------------------------------- lookup tables and a small DIE tree
NAMES = ['main', 'counter', 'ns::inner::fn', 'operator+', 'T<int, char>', 'a_name_that_is_rather_long_for_a_lookup_table_entry', 'x']


def gen_names_file(rng):
    """-> (image, description): 1-3 compile units (base types, variables, subprograms with ranges of code),
    one .debug_aranges set per unit and .debug_pubnames / .debug_pubtypes sets that name real DIEs."""
    from .. import oracles
    le = rng.random() < 0.7
    cls = rng.choice([32, 64])
    asz = cls // 8
    machine = (62 if le else 21) if cls == 64 else (3 if le else 8)
    E = '<' if le else '>'
    A = E + ('Q' if asz == 8 else 'I')
    n = rng.choice([1, 2, 3])
    info = b''
    abbrevs = b''
    aranges = b''
    pubn = b''
    pubt = b''
    code = rng.choice([0x1000, 0x401000] + ([0xffffffff81000000] if cls == 64 else [0xc0100000]))     # kernel images: the upper half
    all4 = cls == 64 and (getattr(rng, 'variant', 0) or 0) % 4 == 1     # every unit with 4-byte addresses in a 64-bit file, several sets
    if all4:
        n = max(n, 2)
        code = 0x1000
    shape = []
    # a name-keyed table cannot hold the same name twice (overloads, 'int' in every unit): most files keep names
    # unique over the whole file, some repeat them as real programs do
    repeat = rng.random() < 0.3
    seen_n, seen_t = set(), set()
    all_n, all_t = [], []
    per_unit = []
    for i in range(n):
        ver = rng.choice([2, 3, 4, 5])
        # a unit may use 4-byte addresses in a 64-bit file: the sets of such a unit have a pointer size of their own
        uasz = 4 if (asz == 8 and code < 2 ** 31 and (rng.random() < 0.25 or all4)) else asz
        UA = E + ('Q' if uasz == 8 else 'I')
        cu = dwtab.CU(version=ver, asz=uasz, le=le)
        cu.root_name = 'unit%d.c' % i
        cu.root_attrs = [(0x13, 0x0b, bytes([rng.choice([1, 4, 12, 0x1d])]), None)]      # DW_AT_language
        types, names = [], []
        # base types
        for tname, size, enc in rng.sample([('int', 4, 5), ('char', 1, 6), ('unsigned long', 8, 7), ('double', 8, 4), ('_Bool', 1, 2)], rng.choice([1, 2, 3])):
            if not repeat:
                if tname in seen_t:
                    tname = '%s_%d' % (tname, i)
                seen_t.add(tname)
            cu.add(0x24, [(0x0b, 0x0b, bytes([size]), None), (0x3e, 0x0b, bytes([enc]), None)], label=tname)
            types.append(tname)
        ranges = []
        for k in range(rng.choice([1, 2, 4])):
            nm = rng.choice(NAMES)
            if not repeat:
                while nm in seen_n:
                    nm += '%d' % i
                seen_n.add(nm)
            lo = code
            ln = rng.choice([0x10, 0x44, 0x200])
            code += ln + rng.choice([0, 0x10])
            hp = (0x12, 0x01, struct.pack(UA, lo + ln), None) if ver < 4 else (0x12, 0x0f, uleb(ln), None)
            cu.add(0x2e, [(0x3f, 0x0c, b'\x01', None), (0x11, 0x01, struct.pack(UA, lo), None), hp,
                          (0x3a, 0x0b, b'\x01', None), (0x3b, 0x0b, bytes([rng.randrange(1, 200)]), None)], label=nm)
            names.append(nm)
            ranges.append((lo, ln))
        for k in range(rng.choice([0, 1, 2])):
            nm = rng.choice(NAMES)
            if not repeat:
                while nm in seen_n:
                    nm += '%d' % i
                seen_n.add(nm)
            expr = bytes([0x03]) + struct.pack(UA, 0x600000 + 8 * k)
            cu.add(0x34, [(0x3f, 0x0c, b'\x01', None), (0x02, 0x0a if ver < 4 else 0x18,
                                                        (bytes([len(expr)]) if ver < 4 else uleb(len(expr))) + expr, None)], label=nm)
            names.append(nm)
        unit_off = len(info)
        unit, ab, offs = cu.build(abbrev_base=len(abbrevs))
        info += unit
        abbrevs += ab
        ntyp = len(types)
        if i and rng.random() < 0.3:
            ranges = []            # a unit without code (declarations only): an empty set behind a set with entries
        empty_fn = (code + 0x40) if (rng.random() < 0.2 and ranges) else None
        per_unit.append(dict(off=unit_off, size=len(unit), asz=uasz, ranges=ranges, empty_fn=empty_fn,
                             names=list(zip(names, offs[ntyp:])), types=list(zip(types, offs[:ntyp]))))
        shape.append((ver, ntyp, len(names), uasz))
        all_n += names
        all_t += types
    # the sets need not come in the order of the units (a linker concatenates the contributions as it meets them)
    order = list(range(n))
    if rng.random() < 0.35:
        order.reverse()
    for ui in order:
        U = per_unit[ui]
        uasz = U['asz']
        UA = E + ('Q' if uasz == 8 else 'I')
        # address ranges: one set per unit, header padded to a multiple of the tuple size. A set starts at a multiple of
        # its own tuple size (producers align their contributions): the set before it is lengthened where necessary
        body = struct.pack(E + 'HIBB', 2, U['off'], uasz, 0)
        body += b'\0' * (-(len(aranges) + 4 + len(body)) % (2 * uasz))
        for lo, ln in U['ranges']:
            body += struct.pack(UA, lo) + struct.pack(UA, ln)
        if U['empty_fn'] is not None:
            body += struct.pack(UA, U['empty_fn']) + struct.pack(UA, 0)        # an empty function: address without length
        nxt = order[order.index(ui) + 1] if order.index(ui) + 1 < len(order) else None
        if nxt is not None and (len(aranges) + 4 + len(body) + 2 * uasz) % (2 * per_unit[nxt]['asz']):
            # a set starts at a multiple of its own tuple size (producers align their contributions): one more tuple here
            # (an address without length) keeps the next, wider set aligned
            body += struct.pack(UA, 0x7000) + struct.pack(UA, 0)
        body += struct.pack(UA, 0) * 2
        aranges += struct.pack(E + 'I', len(body)) + body

        def table(pairs):
            b = struct.pack(E + 'HII', 2, U['off'], U['size'])
            for nm, o in pairs:
                b += struct.pack(E + 'I', o) + nm.encode() + b'\0'
            b += struct.pack(E + 'I', 0)
            b += b'\0' * rng.choice([0, 0, 0, 1, 3, 4])          # padding behind the terminator, counted in the length
            return struct.pack(E + 'I', len(b)) + b
        pubn += table(U['names'])
        pubt += table(U['types'])
    secs = {'.debug_info': info, '.debug_abbrev': abbrevs, '.debug_aranges': aranges, '.debug_pubnames': pubn, '.debug_pubtypes': pubt}
    img = oracles.wrap_debug(secs, le, cls=cls, machine=machine, etype=2)
    return img, dict(cls=cls, le=le, units=shape, dup_pubnames=len(set(all_n)) != len(all_n), dup_pubtypes=len(set(all_t)) != len(all_t))


def gen_loc_file(rng):
    """-> (image, description): units of DWARF 2-4 whose subprograms have a frame base, variables with
    location lists in .debug_loc and lexical blocks with range lists in .debug_ranges; list entries are
    relative to the unit's low_pc, with an occasional base-address selection entry."""
    from .. import oracles
    le = rng.random() < 0.7
    cls = rng.choice([32, 64])
    asz = cls // 8
    machine = (62 if le else 21) if cls == 64 else (3 if le else 8)
    E = '<' if le else '>'
    A = E + ('Q' if asz == 8 else 'I')
    MAXA = 2 ** (8 * asz) - 1
    loc = bytearray()
    rngs = bytearray()
    info = b''
    abbrevs = b''
    shape = []
    exprs = [bytes([0x50 + r]) for r in (0, 3, 5)] + [bytes([0x91]) + sleb(v) for v in (-20, 8)] + [bytes([0x75, 0x10]), bytes([0x70, 0x00, 0x06]),
             bytes([0x53, 0x93, 0x04, 0x52, 0x93, 0x04]), bytes([0x9c]), bytes([0x31, 0x9f])]
    for i in range(rng.choice([1, 2])):
        ver = rng.choice([2, 3, 4])
        low = rng.choice([0x1000, 0x401000]) + 0x10000 * i
        size = 0x400
        fmt = rng.choice([32, 32, 64])          # 64-bit DWARF format: section offsets are 8 bytes (data8 before version 4)
        if getattr(rng, 'variant', None) is not None:
            fmt = 64 if (rng.variant + i) % 3 == 2 else 32
        cu = dwtab.CU(version=ver, asz=asz, le=le, fmt=fmt)
        cu.root_name = 'unit%d.c' % i
        hp = (0x12, 0x01, struct.pack(A, low + size), None) if ver < 4 else (0x12, 0x07 if asz == 8 else 0x06, struct.pack(A, size), None)
        cu.root_attrs = [(0x11, 0x01, struct.pack(A, low), None), hp]
        if rng.random() < 0.3:
            cu.root_attrs.insert(0, (0x52, 0x01, struct.pack(A, low + 0x20), None))       # DW_AT_entry_pc: not the base of the lists
        lform = 0x17 if ver >= 4 else (0x06 if fmt == 32 else 0x07)
        O = E + ('I' if fmt == 32 else 'Q')
        fb = rng.choice([bytes([0x9c]), bytes([0x56]), bytes([0x77, 0x08])])
        cu.scope = (0x2e, [(0x03, 0x08, b'fn\0', None), (0x11, 0x01, struct.pack(A, low), None),
                           (0x12, 0x01, struct.pack(A, low + size), None) if ver < 4 else (0x12, 0x0f, uleb(size), None),
                           (0x40, 0x0a if ver < 4 else 0x18, bytes([len(fb)]) + fb, None)])
        nl = rng.choice([1, 2, 4])
        for k in range(nl):
            pos = 0
            body = bytearray()
            nent = 0
            for e in range(rng.choice([1, 2, 3, 0] if k else [1, 2, 3])):       # 0: nothing but the terminator (a variable that is nowhere live)
                if rng.random() < 0.15:
                    body += struct.pack(A, MAXA) + struct.pack(A, low + 0x100)  # base address selection: the following rows move
                a = pos + rng.choice([0, 4, 0x10])
                b = a + rng.choice([1, 8, 0x40, 0])                             # 0: an empty range
                if a == 0 and b == 0:
                    a = b = 4                                                   # (0, 0) would be the terminator
                pos = b
                x = rng.choice(exprs)
                body += struct.pack(A, a) + struct.pack(A, b) + struct.pack(E + 'H', len(x)) + x
                nent += 1
            body += struct.pack(A, 0) * 2
            attrs = []
            if nent and rng.random() < 0.3:
                # location views (gcc -gvariable-location-views): one pair of numbers per location entry, stored before the list
                voff = len(loc)
                for e in range(nent):
                    loc += uleb(rng.choice([0, 1, 2, 0x3f, 0x40, 0x7f, 0xc1])) + uleb(rng.choice([0, 1, 2, 0x40, 0x7f, 300]))
                attrs.append((0x2137, lform, struct.pack(O, voff), None))
            off = len(loc)
            loc += body
            cu.add(0x34, [(0x02, lform, struct.pack(O, off), None)] + attrs, label='v%d' % k)
        if rng.random() < 0.3:
            # the hidden length of a Fortran character argument: a list referred to by DW_AT_string_length only
            off = len(loc)
            x = bytes([0x91]) + sleb(-32)
            loc += struct.pack(A, 8) + struct.pack(A, 0x30) + struct.pack(E + 'H', len(x)) + x + struct.pack(A, 0) * 2
            cu.add(0x12, [(0x19, lform, struct.pack(O, off), None), (0x0b, 0x0b, b'\x08', None)])
        # a variable addressed from the frame base; sometimes behind the declaration of a nested function, which has no
        # frame base of its own (readelf then notes '[without DW_AT_frame_base]')
        if rng.random() < 0.5:
            if rng.random() < 0.5:
                cu.add(0x2e, [(0x3c, 0x0c, b'\x01', None)], label='nested_decl')
            fe = bytes([0x91]) + sleb(rng.choice([-24, 16]))
            cu.add(0x34, [(0x02, 0x0a if ver < 4 else 0x18, bytes([len(fe)]) + fe, None)], label='local')
            if rng.random() < 0.5:
                # the same through a list: the remark about the missing frame base belongs to the list dump as well
                off = len(loc)
                loc += struct.pack(A, 4) + struct.pack(A, rng.choice([0x20, 4])) + struct.pack(E + 'H', len(fe)) + fe + struct.pack(A, 0) * 2
                cu.add(0x34, [(0x02, lform, struct.pack(O, off), None)], label='local_list')
        nr = rng.choice([0, 1, 2])
        for k in range(nr):
            off = len(rngs)
            pos = 0
            for e in range(rng.choice([1, 2, 4, 0] if k else [1, 2, 4])):
                if rng.random() < 0.15:
                    rngs += struct.pack(A, MAXA) + struct.pack(A, low + 0x100)         # base address selection: the following rows move
                a = pos + rng.choice([0, 4, 0x20])
                b = a + rng.choice([2, 0x10])
                pos = b
                rngs += struct.pack(A, a) + struct.pack(A, b)
            rngs += struct.pack(A, 0) * 2
            cu.add(0x0b, [(0x55, lform, struct.pack(O, off), None)])
        if nr and rng.random() < 0.5:
            # the unit entry has ranges of its own, which compilers place behind those of the blocks: the entries do not
            # mention the lists in section order
            off = len(rngs)
            rngs += struct.pack(A, 0) + struct.pack(A, size) + struct.pack(A, 0) * 2
            cu.root_attrs.append((0x55, lform, struct.pack(O, off), None))
        u, ab, _ = cu.build(abbrev_base=len(abbrevs))
        info += u
        abbrevs += ab
        shape.append((ver, fmt, nl, nr))
    secs = {'.debug_info': info, '.debug_abbrev': abbrevs, '.debug_loc': bytes(loc)}
    if rngs:
        secs['.debug_ranges'] = bytes(rngs)
    img = oracles.wrap_debug(secs, le, cls=cls, machine=machine, etype=2)
    return img, dict(cls=cls, le=le, units=shape)
