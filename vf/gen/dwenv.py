"""Compiler-shaped DWARF sections for the output-equivalence workloads of C18: every table is well formed,
uses standard header parameters and only features compilers emit. Independent of elftools."""
import struct
from .leb import uleb, sleb
from . import dwtab

DIRS = ['/usr/include', 'src', '/home/user/proj/include', 'lib/sub']
FILES = ['main.c', 'util.c', 'stdio.h', 'types.h', 'a_file_name_longer_than_the_table_column.c', 'x.h']


def gen_line_unit(rng, ver, le, asz, lstr, comp_dir, primary):
    """-> bytes of one line-number program (32-bit DWARF format)."""
    E = '<' if le else '>'
    opcode_base = 13 if ver >= 3 else rng.choice([10, 13])
    std_lens = [0, 1, 1, 1, 1, 0, 0, 0, 1, 0, 0, 1][:opcode_base - 1]
    mil = rng.choice([1, 1, 4])
    line_base, line_range = -5, 14
    hdr = bytes([mil]) + (bytes([1]) if ver >= 4 else b'') + bytes([1]) + struct.pack('b', line_base) + bytes([line_range, opcode_base]) + bytes(std_lens)
    ndirs = rng.choice([0, 1, 2, 3])
    dirs = rng.sample(DIRS, ndirs)
    nfiles = rng.choice([1, 2, 4])
    files = [(primary, 0)] + [(rng.choice(FILES[2:]), rng.randint(0, ndirs)) for _ in range(nfiles - 1)]
    if ver < 5:
        for d in dirs:
            hdr += d.encode() + b'\0'
        hdr += b'\0'
        for n, di in files:
            hdr += n.encode() + b'\0' + uleb(di) + uleb(0) + uleb(0)
        hdr += b'\0'
        nfile_idx = list(range(1, len(files) + 1))
    else:
        use_strp = rng.random() < 0.6

        def sref(s):
            if use_strp:
                o = len(lstr)
                lstr.extend(s.encode() + b'\0')
                return struct.pack(E + 'I', o)
            return s.encode() + b'\0'
        form = 0x1f if use_strp else 0x08
        alld = [comp_dir] + dirs
        hdr += bytes([1]) + uleb(1) + uleb(form) + uleb(len(alld))
        for d in alld:
            hdr += sref(d)
        allf = [files[0]] + files          # gcc repeats the primary file as entries 0 and 1
        md5 = rng.random() < 0.3
        hdr += bytes([3 if md5 else 2]) + uleb(1) + uleb(form) + uleb(2) + uleb(0x0b) + ((uleb(5) + uleb(0x1e)) if md5 else b'') + uleb(len(allf))
        for n, di in allf:
            hdr += sref(n) + bytes([di]) + (bytes(rng.getrandbits(8) for _ in range(16)) if md5 else b'')
        nfile_idx = list(range(1, len(allf)))
    prog = bytearray()
    nseq = rng.choice([1, 1, 2])
    addr = rng.choice([0x1000, 0x401000, 0])
    for s in range(nseq):
        prog += b'\0' + uleb(1 + asz) + b'\x02' + addr.to_bytes(asz, 'little' if le else 'big')
        cur = 1                 # compilers never step to a line below 1
        for i in range(rng.choice([2, 5, 12, 30])):
            k = rng.random()
            if k < 0.45:
                adv_line = rng.randint(max(line_base, 1 - cur), line_base + line_range - 1)
                cur += adv_line
                adv_addr = rng.randint(0, (255 - opcode_base - (adv_line - line_base)) // line_range)
                prog.append((adv_line - line_base) + line_range * adv_addr + opcode_base)
            elif k < 0.55:
                prog += b'\x02' + uleb(rng.choice([1, 4, 16, 300]))
            elif k < 0.65:
                adv = rng.choice([a for a in (1, -1, 10, -3, 200) if cur + a >= 1])
                cur += adv
                prog += b'\x03' + sleb(adv)
            elif k < 0.72 and len(nfile_idx) > 1:
                prog += b'\x04' + uleb(rng.choice(nfile_idx))
            elif k < 0.78:
                prog += b'\x05' + uleb(rng.choice([0, 1, 7, 80]))
            elif k < 0.83:
                prog += b'\x06'
            elif k < 0.86:
                prog += b'\x07'
            elif k < 0.89:
                prog += b'\x08'
            elif k < 0.92:
                prog += b'\x09' + struct.pack(E + 'H', rng.choice([1, 8, 0x100]))
            elif k < 0.95 and opcode_base >= 13:
                prog += rng.choice([b'\x0a', b'\x0b'])
            elif k < 0.97:
                prog += b'\x01'
            elif ver >= 4:
                v = uleb(rng.choice([1, 3, 200]))
                prog += b'\0' + uleb(1 + len(v)) + b'\x04' + v
            else:
                prog += b'\x01'
        prog += b'\x02' + uleb(rng.choice([1, 8])) + b'\0\x01\x01'
        addr += 0x1000
    if ver >= 5:
        pre = bytes([asz, 0])
    else:
        pre = b''
    body = pre + struct.pack(E + 'I', len(hdr)) + hdr + bytes(prog)
    return struct.pack(E + 'IH', len(body) + 2, ver) + body


def gen_lines_file(rng):
    """-> (image, description): .debug_line with 1-3 programs of versions 2-5 and matching compile units."""
    from .. import oracles
    le = rng.random() < 0.7
    cls = rng.choice([32, 64])
    asz = cls // 8
    machine = (62 if le else 21) if cls == 64 else (3 if le else 8)
    E = '<' if le else '>'
    n = rng.choice([1, 2, 3])
    line = bytearray()
    lstr = bytearray(b'\0')
    units = b''
    abbrevs = b''
    shape = []
    for i in range(n):
        ver = rng.choice([2, 3, 4, 5])
        comp_dir = rng.choice(['/build/obj', '/tmp', '/home/user/proj'])
        primary = rng.choice(FILES[:2])
        off = len(line)
        line += gen_line_unit(rng, ver, le, asz, lstr, comp_dir, primary)
        cu = dwtab.CU(version=ver if ver != 5 else 5, asz=asz, le=le)
        form = 0x17 if ver >= 4 else 0x06
        cu.root_attrs = [(0x1b, 0x08, comp_dir.encode() + b'\0', None), (0x10, form, struct.pack(E + 'I', off), None)]
        cu.root_name = primary
        u, ab, _ = cu.build(abbrev_base=len(abbrevs))
        units += u
        abbrevs += ab
        shape.append(ver)
    secs = {'.debug_info': units, '.debug_abbrev': abbrevs, '.debug_line': bytes(line), '.debug_line_str': bytes(lstr)}
    img = oracles.wrap_debug(secs, le, cls=cls, machine=machine, etype=2)
    return img, dict(cls=cls, le=le, versions=shape)


