"""Hand-assembled DWARF sections in which every entry of a description table occurs once,
each in a DIE (or frame instruction) of its own, labelled by a DW_AT_name the dumps print."""
import struct
from .leb import uleb, sleb

# attribute code -> classes (DWARF 5 table 7.5; v2-v4 names kept by the library under the same codes)
AT_CLASSES = {
    0x01: 'r', 0x02: 'e', 0x03: 's', 0x09: 'c', 0x0b: 'cer', 0x0c: 'cer', 0x0d: 'cer', 0x11: 'a', 0x12: 'ac', 0x13: 'c',
    0x15: 'r', 0x16: 'c', 0x17: 'c', 0x18: 'r', 0x19: 'er', 0x1a: 'r', 0x1b: 's', 0x1c: 'bcs', 0x1d: 'r', 0x1e: 'crf',
    0x20: 'c', 0x21: 'f', 0x22: 'cer', 0x25: 's', 0x27: 'f', 0x2a: 'e', 0x2c: 'c', 0x2e: 'cer', 0x2f: 'cer', 0x31: 'r',
    0x32: 'c', 0x33: 'c', 0x34: 'f', 0x35: 'r', 0x36: 'c', 0x37: 'cer', 0x38: 'ce', 0x39: 'c', 0x3a: 'c', 0x3b: 'c',
    0x3c: 'f', 0x3d: 'b', 0x3e: 'c', 0x3f: 'f', 0x40: 'e', 0x41: 'r', 0x42: 'c', 0x44: 'r', 0x45: 'r', 0x46: 'e',
    0x47: 'r', 0x48: 'e', 0x49: 'r', 0x4a: 'e', 0x4b: 'f', 0x4c: 'c', 0x4d: 'e', 0x4e: 'cer', 0x4f: 'cer', 0x50: 'e',
    0x51: 'cer', 0x52: 'ac', 0x53: 'f', 0x54: 'r', 0x56: 'afrs', 0x57: 'c', 0x58: 'c', 0x59: 'c', 0x5a: 's', 0x5b: 'c',
    0x5c: 'c', 0x5d: 'r', 0x5e: 'c', 0x5f: 'c', 0x60: 's', 0x61: 'f', 0x62: 'f', 0x63: 'f', 0x64: 'r', 0x65: 'c',
    0x66: 'f', 0x67: 'f', 0x68: 'f', 0x69: 'r', 0x6a: 'f', 0x6b: 'c', 0x6c: 'f', 0x6d: 'f', 0x6e: 's', 0x6f: 'c',
    0x70: 'c', 0x71: 'ce', 0x76: 's', 0x77: 'f', 0x78: 'f', 0x7a: 'f', 0x7b: 'f', 0x7c: 'f', 0x7d: 'a', 0x7e: 'e',
    0x7f: 'r', 0x80: 'r', 0x81: 'a', 0x82: 'f', 0x83: 'e', 0x84: 'e', 0x85: 'e', 0x86: 'e', 0x87: 'f', 0x88: 'c',
    0x89: 'f', 0x8a: 'f', 0x8b: 'c',
}
FORM = {'data1': 0x0b, 'string': 0x08, 'flag_present': 0x19, 'ref4': 0x13, 'addr': 0x01, 'exprloc': 0x18, 'block1': 0x0a}


class CU:
    """One compile unit: a root DIE with children, every child with an abbreviation of its own."""

    def __init__(self, version=4, asz=8, le=True, unit_type=1, root_tag=0x11, header_extra=b'', fmt=32):
        self.version, self.asz, self.le = version, asz, le
        self.fmt = fmt          # 32- or 64-bit DWARF format
        self.unit_type = unit_type
        self.root_tag = root_tag
        self.header_extra = header_extra
        self.kids = []          # (tag, [(at, form, bytes, implicit_const or None)], has_children)
        self.root_attrs = []
        self.root_name = 'tab'
        self.scope = None       # (tag, attrs): one DIE between the root and the children (e.g. a subprogram with a frame base)

    def E(self):
        return '<' if self.le else '>'

    def add(self, tag, attrs, label=None, children=False):
        a = list(attrs)
        if label is not None:
            a.insert(0, (0x03, 0x08, label.encode() + b'\0', None))
        self.kids.append((tag, a, children))

    def header_size(self):
        return (11 if self.version < 5 else 12) + len(self.header_extra) + (12 if self.fmt == 64 else 0)

    def build(self, abbrev_base=0, info_base=0):
        """-> (info bytes, abbrev bytes, [offset of every child DIE relative to the unit])"""
        ab = bytearray()
        body = bytearray()

        def abbrev(code, tag, kids, attrs):
            ab.extend(uleb(code) + uleb(tag) + bytes([1 if kids else 0]))
            for at, form, data, ic in attrs:
                ab.extend(uleb(at) + uleb(form))
                if form == 0x21:
                    ab.extend(sleb(ic))
            ab.extend(b'\0\0')
        root_attrs = [(0x03, 0x08, self.root_name.encode() + b'\0', None)] + self.root_attrs
        abbrev(1, self.root_tag, True, root_attrs)
        body.extend(uleb(1))
        for at, form, data, ic in root_attrs:
            body.extend(data)
        offs = []
        hs = self.header_size()
        first = 2
        if self.scope:
            abbrev(2, self.scope[0], True, self.scope[1])
            body.extend(uleb(2))
            for at, form, data, ic in self.scope[1]:
                body.extend(data)
            first = 3
        for i, (tag, attrs, ch) in enumerate(self.kids):
            code = i + first
            abbrev(code, tag, ch, attrs)
            offs.append(hs + len(body))
            body.extend(uleb(code))
            for at, form, data, ic in attrs:
                body.extend(data(hs + len(body)) if callable(data) else data)
            if ch:
                body.append(0)
        if self.scope:
            body.append(0)
        body.append(0)
        ab.append(0)
        E = self.E()
        O = 'Q' if self.fmt == 64 else 'I'
        if self.version < 5:
            hdr = struct.pack(E + 'H' + O + 'B', self.version, abbrev_base, self.asz) + self.header_extra
        else:
            hdr = struct.pack(E + 'HBB' + O, self.version, self.unit_type, self.asz, abbrev_base) + self.header_extra
        if self.fmt == 64:
            unit = b'\xff\xff\xff\xff' + struct.pack(E + 'Q', len(hdr) + len(body)) + hdr + bytes(body)
        else:
            unit = struct.pack(E + 'I', len(hdr) + len(body)) + hdr + bytes(body)
        return unit, bytes(ab), offs


def expr_block(b):
    return uleb(len(b)) + b


# ---------------------------------------------------------------- DW_OP table
def op_variants(op, spec, le, asz, osz=4):
    """Operand encodings for one opcode: a small-valued and a large/negative-valued variant."""
    order = 'little' if le else 'big'
    small = {'u1': 5, 's1': 3, 'u2': 300, 's2': 300, 'u4': 70000, 's4': 70000, 'u8': 2 ** 33, 's8': 2 ** 33,
             'uleb': 16, 'sleb': 16, 'addr': 0x401000, 'off': 0x1d, 'ref4': 0x1d}
    big = {'u1': 0xff, 's1': -3, 'u2': 0xffff, 's2': -300, 'u4': 0xffffffff, 's4': -70000, 'u8': 2 ** 64 - 1, 's8': -2 ** 33,
           'uleb': 300, 'sleb': -16, 'addr': 2 ** (8 * asz) - 16, 'off': 0x2b, 'ref4': 0x2b}
    W = {'u1': 1, 's1': 1, 'u2': 2, 's2': 2, 'u4': 4, 's4': 4, 'u8': 8, 's8': 8}
    zero = {k: 0 for k in small}        # 0 is special for several operands (generic type, no offset)
    outs = []
    for vals in (small, big, zero):
        b = bytearray([op])
        for k in spec:
            if k in W:
                b += vals[k].to_bytes(W[k], order, signed=k[0] == 's')
            elif k == 'uleb':
                b += uleb(vals[k])
            elif k == 'sleb':
                b += sleb(vals[k])
            elif k == 'addr':
                b += vals[k].to_bytes(asz, order)
            elif k == 'off':
                b += vals[k].to_bytes(osz, order)
            elif k == 'ref4':
                b += vals[k].to_bytes(4, order)
            elif k == 'blk':
                b += expr_block(bytes([1, 2, 0xab]) if vals is small else bytes(range(0x10, 0x1a)))
            elif k == 'tblk':
                b += uleb(vals['ref4']) + bytes([4]) + (bytes([1, 0, 0, 0]) if vals is small else bytes([0xff, 0xfe, 0xfd, 0xfc]))
            elif k == 'expr':
                b += expr_block(bytes([0x55]) if vals is small else bytes([0x75, 0x10, 0x06]))
            elif k == 'wasm':
                b += (bytes([0]) + uleb(3)) if vals is small else (bytes([3]) + (7).to_bytes(4, order))
            else:
                raise ValueError(k)
        if vals is zero and not any(k in zero for k in spec):
            break               # no scalar operand: the third variant would repeat the second
        outs.append(bytes(b))
        if not spec:
            break
    # the ends of the 64-bit range, whose LEB128 forms take all ten bytes
    if list(spec) == ['sleb']:
        outs.append(bytes([op]) + sleb(-2 ** 63))
        outs.append(bytes([op]) + sleb(-2 ** 62 - 5))
    elif list(spec) == ['uleb'] and op in (0x10, 0x23):
        outs.append(bytes([op]) + uleb(2 ** 64 - 1))
    return outs
