"""SysV and GNU symbol hash tables (gABI / glibc dl-lookup) with engineered collisions."""
import struct


def elf_hash(n):
    h = 0
    for c in n:
        h = ((h << 4) + c) & 0xffffffff
        g = h & 0xf0000000
        if g:
            h ^= g >> 24
        h &= ~g & 0xffffffff
    return h


def gnu_hash(n):
    h = 5381
    for c in n:
        h = (h * 33 + c) & 0xffffffff
    return h


def sysv_table(E, names, nbucket, rng=None):
    """names[0] is the null symbol. Chains appended at the tail or pushed at the head."""
    n = len(names)
    buckets = [0] * nbucket
    chains = [0] * n
    head = rng.random() < 0.5 if rng else False
    for i in range(1, n):
        b = elf_hash(names[i]) % nbucket
        if head:
            chains[i] = buckets[b]
            buckets[b] = i
        elif buckets[b] == 0:
            buckets[b] = i
        else:
            j = buckets[b]
            while chains[j]:
                j = chains[j]
            chains[j] = i
    return struct.pack(E + 'II', nbucket, n) + b''.join(struct.pack(E + 'I', x) for x in buckets + chains)


def gnu_table(E, cls, names, symoffset, nbuckets, bloom_size, shift):
    """names[symoffset:] must already be sorted by bucket (hash % nbuckets)."""
    n = len(names)
    hs = [gnu_hash(x) for x in names]
    bloom = [0] * bloom_size
    for i in range(symoffset, n):
        h = hs[i]
        bloom[(h // cls) % bloom_size] |= (1 << (h % cls)) | (1 << ((h >> shift) % cls))
    buckets = [0] * nbuckets
    chain = []
    for i in range(symoffset, n):
        b = hs[i] % nbuckets
        if buckets[b] == 0:
            buckets[b] = i
        last = (i == n - 1) or (hs[i + 1] % nbuckets != b)
        chain.append((hs[i] & ~1) | (1 if last else 0))
    return struct.pack(E + 'IIII', nbuckets, symoffset, bloom_size, shift) + \
        b''.join(struct.pack(E + ('Q' if cls == 64 else 'I'), x) for x in bloom) + \
        b''.join(struct.pack(E + 'I', x) for x in buckets + chain), bloom


def full_collisions(rng, k):
    """k distinct names with one djb2 hash: suffix pairs with 33a + b constant."""
    base = ''.join(rng.choice('abcdef') for _ in range(rng.randint(0, 3)))
    a = rng.randint(100, 120)
    b = rng.randint(40, 50)
    return [(base + chr(a - d) + chr(b + 33 * d)).encode() for d in range(k)]


def near_collision(name):
    """A name whose gnu hash differs from name's only in bit 0 (last character +-1)."""
    c = name[-1]
    return name[:-1] + bytes([c ^ 1])


def bloom_false_positive(rng, cls, bloom, bloom_size, shift, nbuckets, buckets_nonempty, avoid, tries=4000):
    """An absent name that passes the bloom filter and lands in a non-empty bucket."""
    for i in range(tries):
        q = ('q%d_%d' % (rng.randint(0, 10 ** 6), i)).encode()
        if q in avoid:
            continue
        h = gnu_hash(q)
        m = (1 << (h % cls)) | (1 << ((h >> shift) % cls))
        if bloom[(h // cls) % bloom_size] & m == m and (h % nbuckets) in buckets_nonempty:
            return q
    return None
