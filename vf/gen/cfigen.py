"""Call-frame information sections (.debug_frame and .eh_frame) with ground truth."""
import struct
from .leb import uleb, sleb

REGS = [0, 1, 5, 7, 16, 31, 40, 63, 64, 127, 128, 200, 16384]
ENC = {0x00: 'abs', 0x01: 'uleb', 0x02: 'u2', 0x03: 'u4', 0x04: 'u8', 0x09: 'sleb', 0x0a: 's2', 0x0b: 's4', 0x0c: 's8'}


def gen_instrs(rng, n, in_fde, le, asz, cfa_kind, pc, maxdepth=6):
    """-> (bytes, abstract instructions, expected (opcode, args) list, final cfa_kind, final pc)"""
    E = '<' if le else '>'
    order = 'little' if le else 'big'
    out = bytearray()
    ins = []
    exp = []
    stack = []
    kinds = ['off', 'offx', 'offxsf', 'undef', 'same', 'reg', 'rem', 'res', 'defcfa', 'defcfasf', 'defcfareg',
             'defcfaoff', 'defcfaoffsf', 'valoff', 'valoffsf', 'expr', 'valexpr', 'cfaexpr', 'nop', 'args', 'negra']
    if in_fde:
        kinds += ['adv', 'adv', 'adv1', 'adv2', 'adv4', 'setloc', 'restore', 'restorex']

    def U(v):
        return uleb(v, rng.choice([0, 0, 0, 1]))

    for _ in range(n):
        k = rng.choice(kinds)
        r = rng.choice(REGS)
        uo = rng.choice([0, 1, 8, 127, 128, 300, 16384])
        so = rng.choice([0, 1, -1, 8, -8, 63, 64, -64, -65, 300, -300])
        if k == 'adv':
            d = rng.randint(0, 63)
            out.append(0x40 | d)
            ins.append(('adv', d))
            exp.append((0x40 | d, [d]))
        elif k == 'adv1':
            d = rng.choice([0, 1, 255])
            out += bytes([2, d])
            ins.append(('adv', d))
            exp.append((2, [d]))
        elif k == 'adv2':
            d = rng.choice([0, 256, 65535])
            out += b'\x03' + struct.pack(E + 'H', d)
            ins.append(('adv', d))
            exp.append((3, [d]))
        elif k == 'adv4':
            d = rng.choice([0, 65536, 1 << 20])
            out += b'\x04' + struct.pack(E + 'I', d)
            ins.append(('adv', d))
            exp.append((4, [d]))
        elif k == 'setloc':
            a = pc[0] + rng.choice([0, 1, 0x100, 0x10000])
            if a < 0 or a >= 1 << (8 * asz):
                continue
            out += b'\x01' + a.to_bytes(asz, order)
            ins.append(('setloc', a))
            exp.append((1, [a]))
            pc[0] = a
            continue
        elif k == 'off':
            rr = rng.randint(0, 63)
            out += bytes([0x80 | rr]) + U(uo)
            ins.append(('off', rr, uo))
            exp.append((0x80 | rr, [rr, uo]))
        elif k == 'offx':
            out += b'\x05' + U(r) + U(uo)
            ins.append(('off', r, uo))
            exp.append((5, [r, uo]))
        elif k == 'offxsf':
            out += b'\x11' + U(r) + sleb(so)
            ins.append(('off', r, so))
            exp.append((0x11, [r, so]))
        elif k == 'restore':
            rr = rng.choice([0, 1, 5, 7, 16, 31, 63])
            out.append(0xc0 | rr)
            ins.append(('restore', rr))
            exp.append((0xc0 | rr, [rr]))
        elif k == 'restorex':
            out += b'\x06' + U(r)
            ins.append(('restore', r))
            exp.append((6, [r]))
        elif k == 'undef':
            out += b'\x07' + U(r)
            ins.append(('undef', r))
            exp.append((7, [r]))
        elif k == 'same':
            out += b'\x08' + U(r)
            ins.append(('same', r))
            exp.append((8, [r]))
        elif k == 'reg':
            r2 = rng.choice(REGS)
            out += b'\x09' + U(r) + U(r2)
            ins.append(('reg', r, r2))
            exp.append((9, [r, r2]))
        elif k == 'rem':
            if len(stack) >= maxdepth:
                continue
            out += b'\x0a'
            ins.append(('rem',))
            exp.append((0x0a, []))
            stack.append(cfa_kind)
        elif k == 'res':
            if not stack:
                continue
            out += b'\x0b'
            ins.append(('res',))
            exp.append((0x0b, []))
            cfa_kind = stack.pop()
        elif k == 'defcfa':
            out += b'\x0c' + U(r) + U(uo)
            ins.append(('defcfa', r, uo, False))
            exp.append((0x0c, [r, uo]))
            cfa_kind = 'ro'
        elif k == 'defcfasf':
            out += b'\x12' + U(r) + sleb(so)
            ins.append(('defcfa', r, so, True))
            exp.append((0x12, [r, so]))
            cfa_kind = 'ro'
        elif k == 'defcfareg':
            if cfa_kind != 'ro':
                continue        # only valid while the CFA rule is register+offset (6.4.2.2)
            out += b'\x0d' + U(r)
            ins.append(('defcfareg', r))
            exp.append((0x0d, [r]))
        elif k == 'defcfaoff':
            if cfa_kind != 'ro':
                continue
            out += b'\x0e' + U(uo)
            ins.append(('defcfaoff', uo, False))
            exp.append((0x0e, [uo]))
        elif k == 'defcfaoffsf':
            if cfa_kind != 'ro':
                continue
            out += b'\x13' + sleb(so)
            ins.append(('defcfaoff', so, True))
            exp.append((0x13, [so]))
        elif k == 'valoff':
            out += b'\x14' + U(r) + U(uo)
            ins.append(('valoff', r, uo))
            exp.append((0x14, [r, uo]))
        elif k == 'valoffsf':
            out += b'\x15' + U(r) + sleb(so)
            ins.append(('valoff', r, so))
            exp.append((0x15, [r, so]))
        elif k in ('expr', 'valexpr'):
            e = bytes(rng.getrandbits(8) for _ in range(rng.choice([0, 1, 4, 130])))
            op = 0x10 if k == 'expr' else 0x16
            out += bytes([op]) + U(r) + uleb(len(e)) + e
            ins.append((k, r, list(e)))
            exp.append((op, [r, list(e)]))
        elif k == 'cfaexpr':
            e = bytes(rng.getrandbits(8) for _ in range(rng.choice([1, 2, 4, 130])))
            out += b'\x0f' + uleb(len(e)) + e
            ins.append(('cfaexpr', list(e)))
            exp.append((0x0f, [list(e)]))
            cfa_kind = 'expr'
        elif k == 'nop':
            out += b'\0'
            ins.append(('nop',))
            exp.append((0, []))
        elif k == 'args':
            v = rng.choice([0, 8, 127, 128, 4096])
            out += b'\x2e' + U(v)
            ins.append(('args',))
            exp.append((0x2e, [v]))
        elif k == 'negra':
            out += b'\x2d'
            ins.append(('negra',))
            exp.append((0x2d, []))
        if k in ('adv', 'adv1', 'adv2', 'adv4'):
            pc[0] += ins[-1][1] * pc[1]
    # balance the state stack
    while stack:
        out += b'\x0b'
        ins.append(('res',))
        exp.append((0x0b, []))
        cfa_kind = stack.pop()
    return bytes(out), ins, exp, cfa_kind


def enc_val(le, asz, enc, v):
    k = ENC[enc & 0xf]
    order = 'little' if le else 'big'
    if k == 'abs':
        return v.to_bytes(asz, order)
    if k == 'uleb':
        return uleb(v)
    if k == 'sleb':
        return sleb(v)
    return v.to_bytes(int(k[1]), order, signed=(k[0] == 's'))


def enc_range(enc, asz):
    """(lo, hi) of raw values the basic encoding can carry."""
    k = ENC[enc & 0xf]
    if k == 'abs':
        return 0, 2 ** (8 * asz) - 1
    if k == 'uleb':
        return 0, 2 ** 40
    if k == 'sleb':
        return -2 ** 40, 2 ** 40
    w = int(k[1])
    return (-2 ** (8 * w - 1), 2 ** (8 * w - 1) - 1) if k[0] == 's' else (0, 2 ** (8 * w) - 1)


class Rec:
    pass


def gen_section(rng, le, asz, eh, maxins=25):
    """-> (bytes, [Rec], section address). Each Rec: kind 'cie'|'fde'|'zero', off, truth fields."""
    order = 'little' if le else 'big'
    E = '<' if le else '>'
    secaddr = rng.choice([0, 0x1000, 0x7f0000, 0x400000]) if eh else 0
    ncie = rng.randint(1, 3)
    cies = []
    for i in range(ncie):
        c = Rec()
        c.kind = 'cie'
        c.idx = i
        c.fmt = 32 if eh else rng.choice([32, 32, 64])
        c.ver = rng.choice([1, 3]) if eh else rng.choice([1, 3, 4])
        c.caf = rng.choice([1, 1, 2, 4, 8])
        c.daf = rng.choice([-8, -4, -1, 1, 4, 8])
        c.ra = rng.choice([14, 16, 30, 65, 200])
        if c.ver == 1:
            c.ra = rng.choice([14, 16, 30, 255])
        if eh:
            letters = rng.choice(['', 'R', 'L', 'P', 'S', 'RL', 'LR', 'PR', 'RP', 'PLR', 'RS', 'SR', 'RPL', 'LPRS', 'PL', 'LS'])
            c.aug = ('z' + letters) if (letters or rng.random() < 0.5) else ''
            if c.aug == '' and rng.random() < 0.5:
                c.aug = 'zR'
            c.fde_enc = (rng.choice(list(ENC)) | rng.choice([0, 0x10])) if 'R' in c.aug else 0
            c.lsda_enc = None
            if 'L' in c.aug:
                c.lsda_enc = 0xff if rng.random() < 0.15 else (rng.choice(list(ENC)) | rng.choice([0, 0x10]))
            c.p_enc = (rng.choice(list(ENC)) | rng.choice([0, 0x10, 0x80, 0x90])) if 'P' in c.aug else None
            if c.p_enc is not None:
                lo, hi = enc_range(c.p_enc, asz)
                c.pval = rng.choice([lo, hi, 0, rng.randint(lo, hi)])
        else:
            c.aug = ''
        pc = [0, c.caf]
        c.ibytes, c.ins, c.iexp, c.cfa_kind = gen_instrs(rng, rng.choice([0, 0, 1, 3, 6]), False, le, asz, 'none', pc)
        if cies and rng.random() < 0.3:
            # a twin of the first CIE: the same code alignment and byte-for-byte the same initial instructions under
            # another data alignment factor (what is decoded for one is not the answer for the other)
            t = cies[0]
            c.caf, c.ibytes, c.ins, c.iexp, c.cfa_kind = t.caf, t.ibytes, t.ins, t.iexp, t.cfa_kind
            c.daf = rng.choice([d for d in (-8, -4, -1, 1, 4, 8) if d != t.daf])
        cies.append(c)
    items = list(cies)
    for _ in range(rng.randint(0, 6)):
        f = Rec()
        f.kind = 'fde'
        f.cie = rng.choice(cies)
        items.append(f)
    if eh:
        items.sort(key=lambda x: x.kind)       # an .eh_frame FDE points BACK to its CIE
        # keep each FDE after its CIE but otherwise interleave
        fdes = [x for x in items if x.kind == 'fde']
        items = []
        for c in cies:
            items.append(c)
        for f in fdes:
            items.insert(rng.randint(items.index(f.cie) + 1, len(items)), f)
    else:
        rng.shuffle(items)                     # .debug_frame: any order, FDE before its CIE allowed
    # raw values
    for f in items:
        if f.kind != 'fde':
            continue
        c = f.cie
        f.fmt = 32 if eh else c.fmt
        if eh:
            lo, hi = enc_range(c.fde_enc, asz)
            if c.fde_enc & 0x70 == 0x10:       # pc-relative: keep the sum inside [0, 2^64)
                lo, hi = max(lo, -secaddr), min(hi, 2 ** 63)
            f.loc_raw = rng.choice([lo, hi, 0, rng.randint(lo, hi)])
            rlo, rhi = enc_range(c.fde_enc & 0xf, asz)
            f.range = rng.choice([0, 1, 0x1000, rhi]) if rhi >= 0x1000 else rng.randint(0, rhi)
            f.range = min(max(f.range, max(rlo, 0)), rhi)
            f.lsda_raw = None
            if c.lsda_enc not in (None, 0xff):
                lo, hi = enc_range(c.lsda_enc, asz)
                if c.lsda_enc & 0x70 == 0x10:
                    lo, hi = max(lo, -secaddr), min(hi, 2 ** 63)
                f.lsda_raw = rng.choice([lo, hi, 0, rng.randint(lo, hi)])
        else:
            f.loc_raw = rng.choice([0, 0x1000, 2 ** (8 * asz - 1), rng.getrandbits(8 * asz - 2)])
            f.range = rng.choice([0, 1, 0x1000, 2 ** (8 * asz) - 1])
    if eh and len(items) > 1 and rng.random() < 0.15:
        z = Rec()
        z.kind = 'zero'         # a terminator with entries behind it (each input's crtend in a relocatable link)
        items.insert(rng.randint(1, len(items) - 1), z)
    if eh and rng.random() < 0.4:
        z = Rec()
        z.kind = 'zero'
        items.append(z)

    def hdr_len_fields(fmt, body):
        return (len(body).to_bytes(4, order) if fmt == 32 else b'\xff\xff\xff\xff' + len(body).to_bytes(8, order))

    def cie_body(c):
        osz = c.fmt // 8
        augdata = b''
        if eh:
            for ch in c.aug[1:]:
                if ch == 'R':
                    augdata += bytes([c.fde_enc])
                elif ch == 'L':
                    augdata += bytes([c.lsda_enc])
                elif ch == 'P':
                    augdata += bytes([c.p_enc]) + enc_val(le, asz, c.p_enc, c.pval)
            b = (0).to_bytes(4, order)
        else:
            b = ((1 << (8 * osz)) - 1).to_bytes(osz, order)
        b += bytes([c.ver]) + c.aug.encode() + b'\0'
        if c.ver >= 4:
            b += bytes([asz, 0])
        b += uleb(c.caf) + sleb(c.daf) + (bytes([c.ra]) if c.ver == 1 else uleb(c.ra))
        if eh and c.aug.startswith('z'):
            b += uleb(len(augdata)) + augdata
        b += c.ibytes
        ill = 4 if c.fmt == 32 else 12
        pad = (-(ill + len(b))) % asz
        return b + b'\0' * pad, augdata, pad

    def fde_body(f, cieptr, myoff):
        c = f.cie
        osz = f.fmt // 8
        ill = 4 if f.fmt == 32 else 12
        b = cieptr.to_bytes(osz, order)
        ad = b''
        if eh:
            b += enc_val(le, asz, c.fde_enc, f.loc_raw) + enc_val(le, asz, c.fde_enc & 0xf, f.range)
            if c.aug.startswith('z'):
                if f.lsda_raw is not None:
                    ad = enc_val(le, asz, c.lsda_enc, f.lsda_raw)
                f.lsda_field = myoff + ill + len(b) + len(uleb(len(ad)))
                b += uleb(len(ad)) + ad
        else:
            b += f.loc_raw.to_bytes(asz, order) + f.range.to_bytes(asz, order)
        b += f.ibytes
        pad = (-(ill + len(b))) % asz
        return b + b'\0' * pad, ad, pad

    # instructions of FDEs (need the CIE's final CFA kind) and initial locations
    for f in items:
        if f.kind == 'fde':
            c = f.cie
            pc = [0, c.caf]         # relative pc for set_loc targets is fixed below via loc
            f.pcbox = pc
    # pass 1: offsets (FDE instruction bytes depend on initial location for set_loc: two passes)
    off = 0
    for it in items:
        it.off = off
        if it.kind == 'cie':
            b, _, _ = cie_body(it)
            off += (4 if it.fmt == 32 else 12) + len(b)
        elif it.kind == 'fde':
            c = it.cie
            ill = 4 if it.fmt == 32 else 12
            if eh:
                locfield = it.off + ill + 4
                it.loc = it.loc_raw + (secaddr + locfield if c.fde_enc & 0x70 == 0x10 else 0)
            else:
                it.loc = it.loc_raw
            if not hasattr(it, 'ibytes'):
                pc = [it.loc, c.caf]
                it.ibytes, it.ins, it.iexp, _ = gen_instrs(rng, rng.choice([0, 1, 3, 8, maxins]), True, le, asz,
                                                           c.cfa_kind, pc)
            b, _, _ = fde_body(it, 0, it.off)
            off += ill + len(b)
        else:
            off += 4
    sec = bytearray()
    for it in items:
        assert len(sec) == it.off
        if it.kind == 'cie':
            b, ad, pad = cie_body(it)
            it.augdata = ad
            it.length = len(b)
            it.iexp_all = it.iexp + [(0, [])] * pad
            sec += hdr_len_fields(it.fmt, b) + b
        elif it.kind == 'fde':
            ill = 4 if it.fmt == 32 else 12
            if eh:
                ptr = it.off + ill - it.cie.off
            else:
                ptr = it.cie.off
            it.cie_pointer = ptr
            b, ad, pad = fde_body(it, ptr, it.off)
            it.augdata = ad
            it.length = len(b)
            it.iexp_all = it.iexp + [(0, [])] * pad
            it.lsda = None
            if eh and it.lsda_raw is not None:
                it.lsda = it.lsda_raw + (secaddr + it.lsda_field if it.cie.lsda_enc & 0x70 == 0x10 else 0)
            sec += hdr_len_fields(it.fmt, b) + b
        else:
            sec += b'\0\0\0\0'
    return bytes(sec), items, secaddr
