"""Independent ELF image writer (struct + byte arithmetic only; shares no code with
elftools). Every builder returns the bytes together with what it encoded."""
import struct

SHN_XINDEX = 0xffff
PN_XNUM = 0xffff
SHN_LORESERVE = 0xff00


class Sec:
    def __init__(self, name='', type=1, flags=0, addr=0, data=b'', link=0, info=0,
                 align=1, entsize=0, size=None, offset=None, name_off=None):
        self.name = name          # str or bytes
        self.type = type
        self.flags = flags
        self.addr = addr
        self.data = data          # file bytes (b'' for NOBITS)
        self.link = link          # int or section name (resolved to index)
        self.info = info
        self.align = align
        self.entsize = entsize
        self.size = size          # sh_size override (NOBITS: declared size)
        self.offset = offset      # sh_offset override; None = place automatically
        self.name_off = name_off  # filled in
        self.index = None

    def nbytes(self):
        return self.name if isinstance(self.name, bytes) else self.name.encode('utf-8')


class Seg:
    def __init__(self, type=1, flags=4, offset=0, vaddr=0, paddr=None, filesz=0, memsz=None,
                 align=1, sec=None, exact_memsz=False):
        self.exact_memsz = exact_memsz      # keep a memory size smaller than the file size (non-loadable segments of core files)
        self.type, self.flags, self.offset, self.vaddr = type, flags, offset, vaddr
        self.paddr = vaddr if paddr is None else paddr
        self.filesz = filesz
        self.memsz = filesz if memsz is None else memsz
        self.align = align
        self.sec = sec            # name of a section whose extent this segment covers


def ehdr_fmt(is64):
    return 'HHIQQQIHHHHHH' if is64 else 'HHIIIIIHHHHHH'


def shdr_pack(E, is64, name, type, flags, addr, off, size, link, info, align, entsize):
    if is64:
        return struct.pack(E + 'IIQQQQIIQQ', name, type, flags, addr, off, size, link, info, align, entsize)
    return struct.pack(E + 'IIIIIIIIII', name, type, flags, addr, off, size, link, info, align, entsize)


def phdr_pack(E, is64, g):
    if is64:
        return struct.pack(E + 'IIQQQQQQ', g.type, g.flags, g.offset, g.vaddr, g.paddr, g.filesz, g.memsz, g.align)
    return struct.pack(E + 'IIIIIIII', g.type, g.offset, g.vaddr, g.paddr, g.filesz, g.memsz, g.flags, g.align)


def sym_pack(E, is64, name, value, size, info, other, shndx):
    if is64:
        return struct.pack(E + 'IBBHQQ', name, info, other, shndx, value, size)
    return struct.pack(E + 'IIIBBH', name, value, size, info, other, shndx)


def strtab(names, share_suffixes=False):
    """names: iterable of bytes -> (table bytes, {name: offset}). Offset 0 is the empty string."""
    tab = bytearray(b'\0')
    offs = {b'': 0}
    for n in names:
        if n not in offs:
            k = bytes(tab).find(n + b'\0') if share_suffixes and n else -1
            if k >= 0:
                offs[n] = k          # the name is a suffix of a string already in the table
            else:
                offs[n] = len(tab)
                tab += n + b'\0'
    return bytes(tab), offs


def build(cls=64, le=True, machine=62, etype=1, osabi=0, abiversion=0, entry=0, eflags=0,
          version=1, ident_pad=b'\0' * 7, sections=(), segments=(),
          shent_extra=0, phent_extra=0, order=('ph', 'data', 'sh'), gap=0, filler=0,
          shstr_name='.shstrtab', shstr_at=None, strip_sh=False, null_section=True,
          esc_shnum=False, esc_phnum=False, esc_shstrndx=False, ehsize=None,
          ehdr_over=None, with_shstrtab=True, rng=None):
    """Lay out and write an image.

    order: placement order of the program header table ('ph'), section contents
    ('data') and section header table ('sh') after the ELF header. `gap` bytes of
    `filler` separate the pieces. Returns (bytes, info) where info records what was
    encoded: section list (with final header values), segment list, table offsets.
    """
    E = '<' if le else '>'
    is64 = cls == 64
    eh_std = 64 if is64 else 52
    shent = (64 if is64 else 40) + shent_extra
    phent = (56 if is64 else 32) + phent_extra
    secs = []
    if null_section:
        s0 = Sec(name='', type=0, data=b'', align=0)
        secs.append(s0)
    secs += list(sections)
    shstr = None
    if with_shstrtab:
        shstr = Sec(name=shstr_name, type=3, data=b'')
        if shstr_at is None:
            secs.append(shstr)
        else:
            secs.insert(max(1, min(shstr_at, len(secs))), shstr)
        tab, offs = strtab([s.nbytes() for s in secs], share_suffixes=True)
        shstr.data = tab
        for s in secs:
            s.name_off = offs[s.nbytes()]
    else:
        for s in secs:
            if s.name_off is None:
                s.name_off = 0
    for i, s in enumerate(secs):
        s.index = i
    byname = {}
    for s in secs:
        byname.setdefault(s.name, s.index)
    segs = list(segments)
    pos = eh_std if ehsize is None else max(ehsize, eh_std)
    phoff = shoff = 0

    def pad():
        nonlocal pos
        pos += gap

    for piece in order:
        if piece == 'ph':
            if segs:
                pad()
                phoff = pos
                pos += len(segs) * phent
        elif piece == 'sh':
            if secs and not strip_sh:
                pad()
                shoff = pos
                pos += len(secs) * shent
        else:
            for s in secs:
                if s.type == 0 and s.index == 0 and null_section:
                    s.offset = 0 if s.offset is None else s.offset
                    continue
                if s.offset is None:
                    pad()
                    a = s.align if s.align and s.align > 1 else 1
                    if a <= 4096:
                        pos += (-pos) % a
                    s.offset = pos
                    if s.type != 8:
                        pos += len(s.data)
                    s.placed = True
    img = bytearray([filler]) * pos if filler else bytearray(pos)
    for s in secs:
        if s.type != 8 and s.data and getattr(s, 'placed', False):
            img[s.offset:s.offset + len(s.data)] = s.data
    # explicit-offset sections (overlaps, beyond-EOF) are written if they fit
    for s in secs:
        if s.type != 8 and s.data and not getattr(s, 'placed', False) and s.offset is not None:
            end = s.offset + len(s.data)
            if end > len(img):
                img += bytes([filler]) * (end - len(img))
            img[s.offset:end] = s.data
    for g in segs:
        if g.sec is not None:
            s = secs[byname[g.sec]]
            g.offset = s.offset
            g.filesz = 0 if s.type == 8 else len(s.data)
            if g.memsz is None or (g.memsz < g.filesz and not g.exact_memsz):
                g.memsz = g.filesz
    shdrs = []
    for s in secs:
        link = byname[s.link] if isinstance(s.link, str) else s.link.index if isinstance(s.link, Sec) else s.link
        info = byname[s.info] if isinstance(s.info, str) else s.info.index if isinstance(s.info, Sec) else s.info
        size = len(s.data) if s.size is None else s.size
        shdrs.append(dict(sh_name=s.name_off, sh_type=s.type, sh_flags=s.flags, sh_addr=s.addr,
                          sh_offset=s.offset, sh_size=size, sh_link=link, sh_info=info,
                          sh_addralign=s.align, sh_entsize=s.entsize))
    shnum = len(secs)
    phnum = len(segs)
    shstrndx = shstr.index if shstr is not None else 0
    e_shnum, e_phnum, e_shstrndx = shnum, phnum, shstrndx
    if shnum >= SHN_LORESERVE or esc_shnum:
        e_shnum = 0
        shdrs[0]['sh_size'] = shnum
    if phnum >= PN_XNUM or esc_phnum:
        e_phnum = PN_XNUM
        shdrs[0]['sh_info'] = phnum
    if shstrndx >= SHN_LORESERVE or esc_shstrndx:
        e_shstrndx = SHN_XINDEX
        shdrs[0]['sh_link'] = shstrndx
    if strip_sh:
        e_shnum = e_shstrndx = 0
        shoff = 0
    else:
        for i, h in enumerate(shdrs):
            b = shdr_pack(E, is64, h['sh_name'], h['sh_type'], h['sh_flags'], h['sh_addr'],
                          h['sh_offset'], h['sh_size'], h['sh_link'], h['sh_info'],
                          h['sh_addralign'], h['sh_entsize'])
            extra = bytes(rng.randrange(256) for _ in range(shent_extra)) if rng else bytes(shent_extra)
            img[shoff + i * shent:shoff + (i + 1) * shent] = b + extra
    for i, g in enumerate(segs):
        extra = bytes(rng.randrange(256) for _ in range(phent_extra)) if rng else bytes(phent_extra)
        img[phoff + i * phent:phoff + (i + 1) * phent] = phdr_pack(E, is64, g) + extra
    hdr = dict(e_type=etype, e_machine=machine, e_version=version, e_entry=entry,
               e_phoff=phoff, e_shoff=shoff, e_flags=eflags,
               e_ehsize=eh_std if ehsize is None else ehsize,
               e_phentsize=phent if segs else 0, e_phnum=e_phnum,
               e_shentsize=shent if (secs and not strip_sh) else 0,
               e_shnum=e_shnum, e_shstrndx=e_shstrndx)
    if ehdr_over:
        hdr.update(ehdr_over)
    ident = b'\x7fELF' + bytes([2 if is64 else 1, 1 if le else 2, 1, osabi, abiversion]) + ident_pad[:7].ljust(7, b'\0')
    eh = ident + struct.pack(E + ehdr_fmt(is64), hdr['e_type'], hdr['e_machine'], hdr['e_version'],
                             hdr['e_entry'], hdr['e_phoff'], hdr['e_shoff'], hdr['e_flags'],
                             hdr['e_ehsize'], hdr['e_phentsize'], hdr['e_phnum'],
                             hdr['e_shentsize'], hdr['e_shnum'], hdr['e_shstrndx'])
    img[:len(eh)] = eh
    info = dict(cls=cls, le=le, hdr=hdr, ident=ident, secs=secs, shdrs=shdrs, segs=segs,
                phoff=phoff, shoff=shoff, shent=shent, phent=phent, shnum=shnum, phnum=phnum,
                shstrndx=shstrndx, byname=byname)
    return bytes(img), info


def wrap_sections(named, cls=64, le=True, machine=62, etype=1, **kw):
    """Minimal image holding the given {name: bytes} as PROGBITS sections."""
    secs = [Sec(name=n, type=1, data=d) for n, d in named.items()]
    return build(cls=cls, le=le, machine=machine, etype=etype, sections=secs, **kw)
