"""Note extents with ground truth (gABI note layout, GNU property lists, core notes)."""
import struct

NT_FILE = 0x46494c45
UGID16 = {3, 40, 22, 4, 42, 2, 89, 76, 88, 0x5441}  # 386 ARM S390 68K SH SPARC MN10300 CRIS M32R FRV


def pad(b, a=4):
    return b + b'\0' * ((-len(b)) % a)


def gen_notes(rng, cls, le, core, machine, count=None, allow_header_only_last=True):
    """-> (bytes, [expected note dicts]) ; n_offset relative to the extent start."""
    E = '<' if le else '>'
    W = 'Q' if cls == 64 else 'I'
    n = rng.choice([0, 1, 1, 2, 3, 5, 8, 40]) if count is None else count
    body = b''
    exp = []
    for k in range(n):
        r = rng.random()
        if core and r >= 0.8:
            r = 0.1       # GNU-typed notes are only generated in non-core files
        e = {}
        if r < 0.45:
            ln = rng.choice([0, 0, 1, 2, 3, 4, 5, 7, 8, 20])
            nm = bytes(rng.choice(b'ABCxyz.-_') for _ in range(ln))
            # namesz counts the terminator; an empty name is either namesz 0 or a lone NUL
            name = b'' if (ln == 0 and rng.random() < 0.5) else nm + b'\0'
            if ln and rng.random() < 0.1:
                name += b'\0'           # the size may count more than one terminator (the Go toolchain writes "Go\0\0", size 4)
            desc = bytes(rng.getrandbits(8) for _ in range(rng.choice([0, 1, 2, 3, 4, 5, 6, 7, 8, 9, 33, 70])))
            typ = rng.choice([0, 0x100, 0x7fffffff, 0xdeadbeef, 33, 7, 0x20, 1, 2, 3, 4, 5, 6, NT_FILE])
            if name in (b'GNU\0', b'CORE\0'):
                name = b'Gnu\0'
            e = dict(n_name=None if not name else nm.decode('latin-1'), n_type=typ, n_descdata=desc, n_desc=desc,
                     feature=('raw', len(name) % 4, len(desc) % 4, typ in (1, 2, 3, 4, 5, 6, NT_FILE)))
        elif core and r < 0.65:
            small = cls == 32 and machine in UGID16
            st, zo, ni = rng.getrandbits(8), rng.getrandbits(8), rng.getrandbits(8)
            sn = bytes([rng.choice(b'RSDZTW')])
            flag = rng.getrandbits(cls)
            uid = rng.getrandbits(16 if small else 32)
            gid = rng.getrandbits(16 if small else 32)
            pid, ppid, pgrp, sid = [rng.getrandbits(32) for _ in range(4)]
            fname = pad(bytes(rng.choice(b'abcdef') for _ in range(rng.randrange(1, 16))), 16)[:16]
            args = pad(b'prog -x ' + bytes(rng.choice(b'abc ') for _ in range(rng.randrange(60))), 80)[:80]
            if cls == 32:
                d = struct.pack(E + 'B1sBBI', st, sn, zo, ni, flag)
            else:
                d = struct.pack(E + 'B1sBB4xQ', st, sn, zo, ni, flag)
            d += struct.pack(E + ('HH' if small else 'II'), uid, gid) + struct.pack(E + 'IIII', pid, ppid, pgrp, sid) + fname + args
            name, typ, desc = b'CORE\0', 3, d
            e = dict(n_name='CORE', n_type=3, n_descdata=d,
                     prpsinfo=dict(pr_state=st, pr_sname=sn, pr_zomb=zo, pr_nice=ni, pr_flag=flag, pr_uid=uid,
                                   pr_gid=gid, pr_pid=pid, pr_ppid=ppid, pr_pgrp=pgrp, pr_sid=sid,
                                   pr_fname=fname, pr_psargs=args), feature=('prpsinfo', cls, small))
        elif core and r < 0.8:
            nmap = rng.choice([0, 1, 2, 5, 20])
            page = rng.choice([1, 4096, 65536])
            maps = [(rng.getrandbits(cls), rng.getrandbits(cls), rng.getrandbits(cls)) for _ in range(nmap)]
            files = [bytes(rng.choice(b'/abc.so') for _ in range(rng.randrange(0, 30))) for _ in range(nmap)]
            d = struct.pack(E + W + W, nmap, page) + b''.join(struct.pack(E + W * 3, *m) for m in maps) + \
                b''.join(f + b'\0' for f in files)
            name, typ, desc = b'CORE\0', NT_FILE, d
            e = dict(n_name='CORE', n_type=NT_FILE, n_descdata=d,
                     ntfile=dict(num_map_entries=nmap, page_size=page, maps=maps, files=files),
                     feature=('ntfile', cls, min(nmap, 3), len(d) % 4))
        elif r < 0.6:
            name, typ = b'GNU\0', 3
            desc = bytes(rng.getrandbits(8) for _ in range(rng.choice([0, 1, 7, 16, 20, 32])))
            e = dict(n_name='GNU', n_type=3, n_descdata=desc, n_desc=desc.hex(), gnu=True,
                     feature=('build_id', len(desc) % 4))
        elif r < 0.7:
            name, typ = b'GNU\0', 1
            vals = (rng.choice([0, 1, 2, 3, 4, 5, 6, 99]), rng.getrandbits(32), rng.getrandbits(32), rng.getrandbits(32))
            desc = struct.pack(E + 'IIII', *vals)
            e = dict(n_name='GNU', n_type=1, n_descdata=desc, abi=vals, gnu=True, feature=('abi_tag', vals[0]))
        elif r < 0.78:
            name, typ = b'GNU\0', 4
            desc = bytes(rng.choice(b'gold 1.6\xe9') for _ in range(rng.choice([0, 3, 8, 9]))) + rng.choice([b'', b'\0'])
            e = dict(n_name='GNU', n_type=4, n_descdata=desc, n_desc=desc.decode('latin-1'), gnu=True,
                     feature=('gold', len(desc) % 4))
        else:
            name, typ = b'GNU\0', 5
            props = []
            desc = b''
            kinds = []
            for j in range(rng.randint(1, 6)):
                pk = rng.choice(['x86', 'x86b', 'aarch64', 'stack', 'nocopy', 'unk', 'unk0', 'procwide'])
                if pk == 'x86':
                    pt, v = 0xc0000002, rng.getrandbits(32)
                    pd, pv = struct.pack(E + 'I', v), v
                elif pk == 'x86b':
                    pt, v = rng.choice([0xc0008002, 0xc0010001, 0xc0010002]), rng.getrandbits(32)
                    pd, pv = struct.pack(E + 'I', v), v
                elif pk == 'aarch64':
                    pt, v = 0xc0000000, rng.getrandbits(32)
                    pd, pv = struct.pack(E + 'I', v), v
                elif pk == 'stack':
                    pt = 1
                    v = rng.getrandbits(cls)
                    pd, pv = struct.pack(E + W, v), v
                elif pk == 'nocopy':
                    pt, pd, pv = 2, b'', b''
                elif pk == 'procwide':
                    # processor-range properties whose data is wider than one word (AArch64 PAUTH: platform and version, two
                    # 64-bit words); whatever name a table gives them, all of the data is part of the decoded property
                    pt = rng.choice([0xc0000001, 0xc0000001, 0xc0000003, 0xc0008000])
                    pd = bytes(rng.getrandbits(8) for _ in range(rng.choice([16, 16, 8, 12])))
                    pv = pd
                elif pk == 'unk0':
                    pt, pd, pv = rng.choice([0x1234, 0xb0000000, 0xfffffff0]), b'', b''
                else:
                    pt = rng.choice([0x1234, 0xb0000000, 3, 0xc0000099 if False else 0x7777])
                    pd = bytes(rng.getrandbits(8) for _ in range(rng.randint(1, 13)))
                    pv = pd
                rec = struct.pack(E + 'II', pt, len(pd)) + pd
                rec = pad(rec, 8 if cls == 64 else 4)
                desc += rec
                props.append((pt, len(pd), pv))
                kinds.append(pk)
            e = dict(n_name='GNU', n_type=5, n_descdata=desc, props=props, gnu=True,
                     feature=('props', cls, tuple(sorted(set(kinds)))))
        rec = struct.pack(E + 'III', len(name), len(desc), typ) + pad(name) + pad(desc)
        e['n_offset'] = len(body)
        e['n_size'] = len(rec)
        e['n_namesz'], e['n_descsz'] = len(name), len(desc)
        body += rec
        exp.append(e)
    if exp and not allow_header_only_last and exp[-1]['n_size'] == 12:
        return gen_notes(rng, cls, le, core, machine, count, allow_header_only_last)
    return body, exp


def gen_stabs(rng, le, n):
    E = '<' if le else '>'
    recs = [(rng.getrandbits(32), rng.getrandbits(8), rng.getrandbits(8), rng.getrandbits(16), rng.getrandbits(32))
            for _ in range(n)]
    return b''.join(struct.pack(E + 'IBBHI', *r) for r in recs), recs
