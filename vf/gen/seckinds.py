"""Type-correct section payloads (with the links their constructors read) for every
specialised section kind, for building well-formed images with many section types."""
import struct

from . import elfgen
from .leb import uleb

SHT = dict(NULL=0, PROGBITS=1, SYMTAB=2, STRTAB=3, RELA=4, HASH=5, DYNAMIC=6, NOTE=7, NOBITS=8, REL=9, SHLIB=10,
           DYNSYM=11, INIT_ARRAY=14, FINI_ARRAY=15, PREINIT_ARRAY=16, GROUP=17, SYMTAB_SHNDX=18, RELR=19,
           GNU_ATTRIBUTES=0x6ffffff5, GNU_HASH=0x6ffffff6, GNU_LIBLIST=0x6ffffff7, CHECKSUM=0x6ffffff8,
           SUNW_LDYNSYM=0x6ffffff3, SUNW_syminfo=0x6ffffffc, GNU_verdef=0x6ffffffd, GNU_verneed=0x6ffffffe,
           GNU_versym=0x6fffffff, PROC_ATTR=0x70000003, PROC_1=0x70000001)
# expected specialised class per section type code (my own dispatch table)
CLASS_BY_TYPE = {0: 'NullSection', 3: 'StringTableSection', 2: 'SymbolTableSection', 11: 'SymbolTableSection',
                 0x6ffffff3: 'SymbolTableSection', 18: 'SymbolTableIndexSection', 0x6ffffffc: 'SUNWSyminfoTableSection',
                 0x6ffffffe: 'GNUVerNeedSection', 0x6ffffffd: 'GNUVerDefSection', 0x6fffffff: 'GNUVerSymSection',
                 9: 'RelocationSection', 4: 'RelocationSection', 6: 'DynamicSection', 7: 'NoteSection',
                 5: 'ELFHashSection', 0x6ffffff6: 'GNUHashSection', 19: 'RelrRelocationSection'}
EM_ARM, EM_RISCV = 40, 243


def expected_class(type_code, name, machine):
    if type_code == 0x70000003 and machine == EM_ARM:
        return 'ARMAttributesSection'
    if type_code == 0x70000003 and machine == EM_RISCV:
        return 'RISCVAttributesSection'
    if type_code == 1 and name == '.stab':
        return 'StabSection'
    return CLASS_BY_TYPE.get(type_code, 'Section')


def sysv_hash(names, E, nbucket):
    def h(n):
        v = 0
        for c in n:
            v = ((v << 4) + c) & 0xffffffff
            g = v & 0xf0000000
            if g:
                v ^= g >> 24
            v &= ~g & 0xffffffff
        return v
    n = len(names)
    buckets = [0] * nbucket
    chains = [0] * n
    for i in range(1, n):
        b = h(names[i]) % nbucket
        chains[i] = buckets[b]
        buckets[b] = i
    return struct.pack(E + 'II', nbucket, n) + b''.join(struct.pack(E + 'I', x) for x in buckets + chains)


def gnu_hash_empty(E, is64):
    # nothing hashed: symoffset == number of symbols (1), one empty bucket, one zero bloom word
    return struct.pack(E + 'IIII', 1, 1, 1, 0) + struct.pack(E + ('Q' if is64 else 'I'), 0) + struct.pack(E + 'I', 0)


def companion_set(rng, cls, le, machine, prefix=''):
    """A coherent family of sections: dynsym/dynstr + everything that links to them.
    Returns list of elfgen.Sec (names unique through `prefix`)."""
    E = '<' if le else '>'
    is64 = cls == 64
    names = [b'', b'alpha', b'beta', 'gämma'.encode('utf-8'), b'delta_' + b'x' * 70]
    tab, offs = elfgen.strtab(names)
    syms = b''.join(elfgen.sym_pack(E, is64, offs[n], rng.getrandbits(32), rng.getrandbits(16), 0x12 if i else 0, 0,
                                    rng.choice([0, 1, 0xfff1, 0xffff])) for i, n in enumerate(names))
    symsz = 24 if is64 else 16
    p = prefix
    secs = [elfgen.Sec(p + '.dynsym', 11, flags=2, data=syms, link=p + '.dynstr', info=1, entsize=symsz, align=8),
            elfgen.Sec(p + '.dynstr', 3, flags=2, data=tab)]
    opt = []
    opt.append(elfgen.Sec(p + '.symtab', 2, data=syms, link=p + '.dynstr', info=1, entsize=symsz, align=8))
    opt.append(elfgen.Sec(p + '.symtab_shndx', 18, data=b''.join(struct.pack(E + 'I', rng.getrandbits(16)) for _ in names),
                          link=p + '.dynsym', entsize=4, align=4))
    opt.append(elfgen.Sec(p + '.SUNW_ldynsym', 0x6ffffff3, flags=2, data=syms[:2 * symsz], link=p + '.dynstr', info=1, entsize=symsz))
    opt.append(elfgen.Sec(p + '.SUNW_syminfo', 0x6ffffffc, flags=2, data=struct.pack(E + 'HH', 0, 1) * (len(names) + 1),
                          link=p + '.dynsym', entsize=4))
    vn = struct.pack(E + 'HHIII', 1, 1, offs[b'alpha'], 16, 0) + struct.pack(E + 'IHHII', 123, 0, 2, offs[b'beta'], 0)
    opt.append(elfgen.Sec(p + '.gnu.version_r', 0x6ffffffe, flags=2, data=vn, link=p + '.dynstr', info=1, align=4))
    vd = struct.pack(E + 'HHHHIII', 1, 0, 2, 1, 77, 20, 0) + struct.pack(E + 'II', offs[b'alpha'], 0)
    opt.append(elfgen.Sec(p + '.gnu.version_d', 0x6ffffffd, flags=2, data=vd, link=p + '.dynstr', info=1, align=4))
    opt.append(elfgen.Sec(p + '.gnu.version', 0x6fffffff, flags=2, data=struct.pack(E + 'H', 1) * len(names),
                          link=p + '.dynsym', entsize=2, align=2))
    relsz = (16 if is64 else 8)
    relasz = (24 if is64 else 12)
    rel = b''.join(struct.pack(E + ('QQ' if is64 else 'II'), rng.getrandbits(24), rng.getrandbits(32 if is64 else 16)) for _ in range(3))
    rela = b''.join(struct.pack(E + ('QQq' if is64 else 'IIi'), rng.getrandbits(24), rng.getrandbits(20), -5) for _ in range(2))
    opt.append(elfgen.Sec(p + '.rel.x', 9, data=rel, link=p + '.dynsym', info=0, entsize=relsz, align=8))
    opt.append(elfgen.Sec(p + '.rela.x', 4, data=rela, link=p + '.dynsym', info=0, entsize=relasz, align=8))
    dyn = b''.join(struct.pack(E + ('qQ' if is64 else 'iI'), t, v) for t, v in ((1, offs[b'alpha']), (14, offs[b'beta']), (0, 0)))
    opt.append(elfgen.Sec(p + '.dynamic', 6, flags=3, data=dyn, link=p + '.dynstr', entsize=16 if is64 else 8, align=8))
    opt.append(elfgen.Sec(p + '.hash', 5, flags=2, data=sysv_hash(names, E, rng.choice([1, 2, 5])), link=p + '.dynsym',
                          entsize=4, align=4))
    opt.append(elfgen.Sec(p + '.gnu.hash', 0x6ffffff6, flags=2, data=gnu_hash_empty(E, is64), link=p + '.dynsym', align=8))
    W = 8 if is64 else 4
    opt.append(elfgen.Sec(p + '.relr.dyn', 19, flags=2, data=struct.pack(E + ('QQ' if is64 else 'II'), 0x1000, 7), entsize=W, align=W))
    note = struct.pack(E + 'III', 4, 4, 0x100) + b'XYZ\0' + b'\1\2\3\4'
    opt.append(elfgen.Sec(p + '.note.x', 7, flags=2, data=note, align=4))
    opt.append(elfgen.Sec('.stab' if not p else p + '.stab', 1, data=struct.pack(E + 'IBBHI', 1, 2, 3, 4, 5), link=p + '.dynstr', entsize=12))
    if machine in (EM_ARM, EM_RISCV):
        sub = b'\x01' + struct.pack(E + 'I', 5 + 2) + uleb(6 if machine == EM_ARM else 4) + b'\x02'
        blk = b'aeabi\0' + sub
        opt.append(elfgen.Sec(p + '.attributes', 0x70000003, data=b'A' + struct.pack(E + 'I', 4 + len(blk)) + blk))
    rng.shuffle(opt)
    return secs + opt[:rng.randint(0, len(opt))]


def plain_sections(rng, n, machine):
    """Sections whose construction reads nothing: generic, NOBITS, odd type codes."""
    out = []
    types = [1, 1, 1, 8, 3, 7, 14, 15, 16, 17, 10, 0, 0x6ffffff5, 0x6ffffff7, 0x6ffffff8, 0x70000001, 0x70000000, 0x70000002,
             0x7000002a, 0x7fffffff, 0x60000000, 0x6fff4700, 0x80000000, 0xffffffff, 0x12345678, 12, 13, 20, 0x6ffffff0,
             0x0fffffff, 0x8fffffff, 0x7ffffffe]        # near-misses of the range limits
    if machine not in (EM_ARM, EM_RISCV):
        types.append(0x70000003)
    for i in range(n):
        t = rng.choice(types)
        nm = rng.choice(['.text', '.data', '.bss', '', '.dup', '.dup', 'ünïcode.é', '.a', 'xx.a', '.very' + 'long' * 20, '.debug_x',
                         # lengths on both sides of the multiples of the chunk size string readers use
                         '.' + 'n' * (rng.choice([63, 64, 65, 127, 128, 129, 191, 192, 256, 1024]) - 1),
                         'sec%d' % i, 'sec%d' % i])
        data = bytes(rng.getrandbits(8) for _ in range(rng.choice([0, 1, 7, 64, 300])))
        s = elfgen.Sec(nm, t, flags=rng.choice([0, 2, 3, 6, 0x30, 0x400, rng.getrandbits(32) & ~0x800]),
                       addr=rng.choice([0, 0x1000, rng.getrandbits(32)]),
                       data=b'' if t in (8, 0) else data, link=rng.choice([0, 0, 1, 0xffff, rng.getrandbits(32)]),
                       info=rng.choice([0, 1, rng.getrandbits(32)]), align=rng.choice([0, 1, 4, 16, 4096, 2 ** 31]),
                       entsize=rng.choice([0, 1, 8, rng.getrandbits(16)]),
                       size=rng.choice([0, 5, 0x10000]) if t == 8 else None)
        out.append(s)
    return out
