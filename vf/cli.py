"""./check <ID> [--tier quick|thorough] [--seed N] [--replay path]"""
import argparse
import importlib
import json
import os
import sys


def main(argv=None):
    ap = argparse.ArgumentParser()
    ap.add_argument('prop')
    ap.add_argument('--tier', default=os.environ.get('VERIF_TIER') or 'quick',
                    choices=['quick', 'thorough'])
    ap.add_argument('--seed', type=int, default=None)
    ap.add_argument('--replay', default=None)
    ap.add_argument('--case', default=None, help='kind:index - run a single case')
    a = ap.parse_args(argv)
    seed = a.seed
    if seed is None:
        try:
            seed = int(os.environ.get('VERIF_SEED', '') or 0)
        except ValueError:
            seed = 0
    from . import core
    mod = importlib.import_module('vf.props.' + a.prop.lower())
    tier = a.tier
    only = None
    if a.replay:
        with open(a.replay) as f:
            r = json.load(f)
        seed, tier, only = r['seed'], r['tier'], tuple(r['case'])
        print('replaying %s case %s (seed %d, tier %s); recorded key: %s' % (
            r['property'], only, seed, tier, r['key']))
    elif a.case:
        k, _, i = a.case.rpartition(':')
        only = (k, int(i))
    rc = core.run_property(mod, tier, seed, only_case=only)
    sys.stdout.flush()
    sys.exit(rc)


if __name__ == '__main__':
    main()
