"""C05 - line-number programs execute to the rows the DWARF state machine prescribes."""
import io

from ..gen import dwarfgen as G, linegen
from ..ref import lineprog as M
from ..ref.names import name_ok
from ..monitor import TracedBytesIO, poison

PROP = 'C05'
LEVEL = 'exploration'
RULE = ('generated .debug_line sections (1-4 units, gaps between them) with header versions 2-5 x '
        'DWARF32/64 x address size x byte order, opcode_base in {1,4,10,13,14,20,100,255}, line_range '
        '1..255, line_base -128..127, min_inst_length 1-8, max_ops 1-8, v2-4 directory/file tables and '
        'v5 entry formats over string/line_strp/strp/udata/data*/block/data16; opcode streams of 0-300 '
        'operations over all standard, extended (end_sequence, set_address, define_file, '
        'set_discriminator, unknown length-skipped) and special opcodes, unknown standard opcodes '
        'with declared operand counts, LEB operands at boundaries incl. padded; attached to generated '
        '.debug_info units through DW_AT_stmt_list (data4/data8/sec_offset) or not at all. Compared '
        'with a reference state machine: header tables, every row, exact consumption of the declared '
        'extent. distinct = (version, format, address size, order, opcode_base class, max_ops, '
        'opcode kinds present).')
ASSUMPTIONS = [
    'reference state machine transcribed from DWARF 5 section 6.2.5; VLIW (max_ops > 1) rows are '
    'validated against the text of the standard only (LLVM 14 does not model op_index either)',
    'addresses stay below 2^64 (wrap-around is not specified); boolean registers are compared by truth value',
    'a unit and the line table it points to use the same DWARF format and address size (DWARF 7.4)',
    'standard opcodes 1-12 are declared with their standard operand counts',
]
KINDS = {'lines': (2500, 80000, 0), 'xval': (24, 300, 3)}
FLOOR = {'quick': 2000, 'thorough': 60000}
REACH = ['elftools.dwarf.lineprogram:LineProgram._decode_line_program',
         'elftools.dwarf.dwarfinfo:DWARFInfo._parse_line_program_at_offset',
         'elftools.dwarf.dwarfinfo:DWARFInfo.line_program_for_CU']
AT_STMT_LIST = 0x10
LNCT_N = {v: k for k, v in linegen.LNCT.items()}


class Bad(Exception):
    def __init__(self, key, **d):
        Exception.__init__(self, key)
        self.key, self.d = key, d


def build(rng, le, allow_unk_std=True, allow_vliw=True, nunits=None, gaps=True, terminate=False):
    strtab = bytearray(b'\0')
    lstrtab = bytearray(b'\0')
    line = bytearray()
    units = []
    n = nunits or rng.choice([1, 1, 2, 3, 4])
    for i in range(n):
        if gaps and rng.random() < 0.3:
            line += bytes(rng.getrandbits(8) for _ in range(rng.randrange(1, 20)))
        u = linegen.gen_unit(rng, le, strtab, lstrtab, allow_unk_std=allow_unk_std, allow_vliw=allow_vliw,
                             terminate=terminate)
        u.off = len(line)
        line += u.data
        units.append(u)
    return units, bytes(line), strtab, lstrtab


def check_header(h, u, after=False):
    want = dict(unit_length=u.unit_length, version=u.ver, header_length=u.header_length,
                minimum_instruction_length=u.mil, maximum_operations_per_instruction=u.maxops,
                default_is_stmt=u.dis, line_base=u.line_base, line_range=u.line_range, opcode_base=u.opcode_base)
    got = {k: h[k] for k in want}
    if got != want:
        raise Bad('header scalar fields (v%d fmt%d)' % (u.ver, u.fmt), got=got, want=want)
    if list(h['standard_opcode_lengths']) != u.std_lens:
        raise Bad('standard_opcode_lengths')
    if u.ver >= 5:
        if (h['address_size'], h['segment_selector_size']) != (u.asz, 0):
            raise Bad('v5 address_size/segment_selector_size')
        for fld, spec in (('directory_entry_format', u.dir_format), ('file_name_entry_format', u.file_format)):
            g = [(e.content_type, e.form) for e in h[fld]]
            w = [(linegen.LNCT[ct], 'DW_FORM_' + f) for ct, f in spec]
            if g != w:
                raise Bad('v5 %s' % fld, got=g, want=w)
        for fld, ents in (('directories', u.directories), ('file_names', u.file_names)):
            g = [dict(e) for e in h[fld]]
            if g != ents:
                raise Bad('v5 %s entries' % fld, got=g[:3], want=ents[:3])
        # legacy-compatible views
        if list(h['include_directory']) != [d['DW_LNCT_path'] for d in u.directories]:
            raise Bad('v5 include_directory view')
        g = [(f.name, f.dir_index, f.mtime, f.length) for f in (h['file_entry'] or ())]
        w = [(f.get('DW_LNCT_path'), f.get('DW_LNCT_directory_index'), f.get('DW_LNCT_timestamp'),
              f.get('DW_LNCT_size')) for f in u.file_names]
        if g != w:
            raise Bad('v5 file_entry view', got=g[:3], want=w[:3])
    else:
        if list(h['include_directory']) != u.dirs:
            raise Bad('include_directory table', got=list(h['include_directory'])[:3], want=u.dirs[:3])
        g = [(f.name, f.dir_index, f.mtime, f.length) for f in h['file_entry']]
        w = list(u.files) + (list(u.defined) if after else [])
        if g != w:
            raise Bad('file_entry table%s' % (' after decoding (define_file growth)' if after else ''), got=g[:4], want=w[:4])


def check_rows(lp, u, stream, base, sh):
    stream.reset_extent()
    ents = lp.get_entries()
    end = base + u.off + len(u.data)
    start = base + u.off + u.prog_rel
    if (lp.program_start_offset, lp.program_end_offset) != (start, end):
        raise Bad('program extent', got=(lp.program_start_offset, lp.program_end_offset), want=(start, end))
    if u.ops:
        if io.BytesIO.tell(stream) != end:
            raise Bad('decoding did not stop at the end of the declared extent', pos=io.BytesIO.tell(stream), end=end)
        if stream.lo is not None and (stream.lo < start or stream.hi > end):
            raise Bad('decoding read outside the program extent', lo=stream.lo, hi=stream.hi)
    got = []
    for e in ents:
        s = e.state
        if s is None:
            continue
        got.append({f: (bool(getattr(s, f)) if f in ('is_stmt', 'basic_block', 'end_sequence', 'prologue_end',
                                                      'epilogue_begin') else getattr(s, f)) for f in M.FIELDS})
    want = M.run(u.params, u.ops)
    if got != want:
        if len(got) != len(want):
            raise Bad('row count', got=len(got), want=len(want), params=u.params)
        for i, (g, w) in enumerate(zip(got, want)):
            d = [f for f in M.FIELDS if g[f] != w[f]]
            if d:
                raise Bad('row differs in %s%s%s' % (d, ' (end_sequence row)' if w['end_sequence'] else '',
                                                     ' (max_ops>1)' if u.maxops > 1 else ''),
                          row=i, got=g, want=w, params=u.params, ops=u.ops[:40])
    if lp.get_entries() is not ents and [e.command for e in lp.get_entries()] != [e.command for e in ents]:
        raise Bad('second get_entries differs')
    return len(want)


def run_case(kind, idx, rng, sh):
    if kind == 'xval':
        return xval(idx, rng, sh)
    le = rng.random() < 0.5
    units, line, strtab, lstrtab = build(rng, le)
    # the referring units: one per line unit (same address size; the format is the line unit's own and now and then the
    # other one - gcc -gdwarf64 units refer to the 32-bit tables the assembler writes), some without the attribute
    force = [dict(fmt=u.fmt if rng.random() > 0.12 else 96 - u.fmt, asz=u.asz) for u in units]
    extra_none = rng.random() < 0.3
    if extra_none:
        force.append({})

    def top_extra(ui, ver, fmt, asz):
        if ui >= len(units):
            return []
        if ver >= 4:
            form = 'sec_offset'
        else:
            form = 'data4' if fmt == 32 else 'data8'
        return [(AT_STMT_LIST, form, units[ui].off)]
    B = G.gen_info_retry(rng, le, nunits=len(force), force=force, top_extra=top_extra, shared_abbrev=False,
                         small=True, allow_big=False, init_str=bytes(strtab), init_lstr=bytes(lstrtab))
    secs = dict(B.sec)
    secs['.debug_line'] = line
    di, streams = G.make_dwarfinfo(secs, le, TracedBytesIO)
    st = list(streams.values())
    ls = streams['.debug_line']
    nrows = 0
    try:
        cus = list(di.iter_CUs())
        order = list(range(len(cus)))
        rng.shuffle(order)
        for i in order:
            poison(st, rng)
            lp = di.line_program_for_CU(cus[i])
            if i >= len(units):
                if lp is not None:
                    raise Bad('unit without DW_AT_stmt_list got a line program')
                continue
            u = units[i]
            if lp is None:
                raise Bad('line_program_for_CU returned None')
            check_header(lp.header, u)
            poison(st, rng)
            nrows += check_rows(lp, u, ls, 0, sh)
            check_header(lp.header, u, after=True)
            if di.line_program_for_CU(cus[i]) is not lp:
                lp2 = di.line_program_for_CU(cus[i])
                if lp2.program_start_offset != lp.program_start_offset:
                    raise Bad('second line_program_for_CU differs')
    except Bad as b:
        sh.violation('C05:' + b.key, le=le, **b.d)
        return
    sh.held()
    for u in units:
        kinds = set()
        for o in u.ops:
            kinds.add(o[0] if o[0] != 'std' and o[0] != 'ext' else (o[0], o[1] if o[0] == 'std' else min(o[1], 5)))
        sh.sig((u.ver, u.fmt, u.asz, le, min(u.opcode_base, 14), u.maxops > 1, u.mil > 1))
        for k in kinds:
            sh.sig(('op', k, u.maxops > 1, u.ver >= 4))
    sh.count('rows_compared', nrows)
    sh.sample({'units': [(u.ver, u.fmt, u.asz, u.opcode_base, u.line_range, u.line_base, u.mil, u.maxops, len(u.ops))
                         for u in units], 'little_endian': le})


import re
from .. import oracles
_ROW = re.compile(r'^\s+0x([0-9a-f]+)\s+(\d+)\s+(\d+)\s+(\d+)\s+(\d+)\s+(\d+)[ \t]*(.*)$', re.M)


def xval(idx, rng, sh):
    """The reference state machine against llvm-dwarfdump (a third implementation) on programs
    with max_ops = 1; a disagreement disputes the MODEL and is never a verdict on the library."""
    if not oracles.have('llvm-dwarfdump'):
        sh.skip('llvm-dwarfdump missing')
        return
    le = rng.random() < 0.5
    units, line, strtab, lstrtab = build(rng, le, allow_vliw=False, gaps=False, terminate=True)
    if any(u.opcode_base <= 8 and ('special', 8) in u.ops for u in units):
        # LLVM 14 treats byte 0x08 as DW_LNS_const_add_pc even when opcode_base <= 8 makes it a special opcode
        sh.skip('llvm conflates special opcode 8 with const_add_pc when opcode_base <= 8')
        return
    img = oracles.wrap_debug({'.debug_line': line, '.debug_str': bytes(strtab), '.debug_line_str': bytes(lstrtab)}, le)
    with oracles.Scratch() as s:
        p = s.write('l.o', img)
        rc, out, err = oracles.run(['llvm-dwarfdump', '--debug-line', '-v', p])   # -v: rows in emission order
    if rc != 0 or 'error:' in err or 'warning:' in err:
        sh.skip('llvm-dwarfdump declined')
        return
    got = []
    for m in _ROW.finditer(out):
        fl = m.group(7).split()
        got.append((int(m.group(1), 16), int(m.group(2)), int(m.group(3)), int(m.group(4)), int(m.group(5)),
                    int(m.group(6)), 'is_stmt' in fl, 'basic_block' in fl, 'end_sequence' in fl,
                    'prologue_end' in fl, 'epilogue_begin' in fl))
    want = []
    for u in units:
        for r in M.run(u.params, u.ops):
            want.append((r['address'] & (2 ** 64 - 1), r['line'] & 0xffffffff, r['column'] & 0xffff, r['file'] & 0xffff,
                         r['isa'] & 0xff, r['discriminator'] & 0xffffffff, r['is_stmt'], r['basic_block'], r['end_sequence'],
                         r['prologue_end'], r['epilogue_begin']))
    # llvm stores line as uint32, column/file as uint16, isa as uint8: compare under its widths
    got = [(a, l & 0xffffffff, c, f, i, d) + tuple(rest) for (a, l, c, f, i, d, *rest) in got]
    if got != want:
        k = next((i for i, (g, w) in enumerate(zip(got, want)) if g != w), None)
        sh.dispute('line model vs llvm-dwarfdump')
        sh.extra.setdefault('disputes', []).append({'case': idx, 'first': k, 'got': got[k] if k is not None else len(got),
                                                    'want': want[k] if k is not None else len(want)})
        return
    sh.count('xval_programs_agreeing_with_llvm_dwarfdump', len(units))
    sh.count('xval_rows', len(want))
    sh.held(('xval', le))
