"""C07 - location and range lists decode to exactly the encoded entries."""
import io

from ..gen import dwarfgen as G
from ..gen.leb import uleb
from ..monitor import TracedBytesIO, PoisonedIter, poison

PROP = 'C07'
LEVEL = 'exploration'
RULE = ('(v5) 1-3 version 5 units (DWARF32/64 mixed, address size 4/8, both orders), each with its own '
        'block in .debug_rnglists and .debug_loclists: offset_count 0..n, lists reached by sec_offset or by '
        'index, every DW_RLE/DW_LLE kind incl. the indexed ones over a matching .debug_addr, '
        'default_location, LEB operands at boundaries, expressions 0-300 bytes, gaps between location lists, '
        'location-view pairs, trailing gap at the end of a block; (pre-v5) .debug_loc/.debug_ranges with '
        'base-address selection entries, expressions up to 65535 bytes, gaps, lists referenced twice, '
        'pointers as data4/data8/sec_offset per version 2-4. Compared with ground truth: fetch by offset, '
        'through the attribute and by index, translate_v5_entry, iter_CUs headers and offset arrays, '
        'iter_CU_range_lists_ex, iter_range_lists, iter_location_lists, attribute classification. '
        'distinct = (generation, order, address size, format, table use, entry kinds present, features).')
ASSUMPTIONS = [
    'the address size of the lists is the container default, as the API takes it from the DWARFInfo structs',
    'classification is judged only where DWARF fixes it: exprloc/block -> expression, sec_offset/'
    'loclistx/data4/data8 (v2-3) on location-class attributes -> list, constants and ranges -> no location; '
    'DWARF 2 has no constant-class data_member_location (not generated)',
    'range-list blocks contain no gaps (iter_CU_range_lists_ex reads a block sequentially); gaps and view '
    'pairs are generated in location-list blocks only',
]
KINDS = {'v5': (1500, 40000, 0), 'v4': (1200, 30000, 0)}
FLOOR = {'quick': 2000, 'thorough': 50000}
REACH = ['elftools.dwarf.locationlists:LocationLists.iter_location_lists',
         'elftools.dwarf.locationlists:LocationLists._parse_location_list_from_stream',
         'elftools.dwarf.locationlists:LocationLists._parse_locview_pairs',
         'elftools.dwarf.ranges:RangeLists._parse_range_list_from_stream',
         'elftools.dwarf.ranges:RangeLists.iter_CU_range_lists_ex', 'elftools.dwarf.ranges:RangeLists.iter_range_lists',
         'elftools.dwarf.dwarf_util:_resolve_via_offset_table', 'elftools.dwarf.dwarf_util:_iter_CUs_in_section',
         'elftools.dwarf.dwarfinfo:DWARFInfo.get_addr']
LLE = {'base_addressx': 1, 'startx_endx': 2, 'startx_length': 3, 'offset_pair': 4, 'default_location': 5,
       'base_address': 6, 'start_end': 7, 'start_length': 8}
RLE = {'base_addressx': 1, 'startx_endx': 2, 'startx_length': 3, 'offset_pair': 4, 'base_address': 5,
       'start_end': 6, 'start_length': 7}
F = {'data1': 0x0b, 'data4': 0x06, 'data8': 0x07, 'sec_offset': 0x17, 'block1': 0x0a, 'block2': 0x03, 'block4': 0x04, 'block': 0x09, 'exprloc': 0x18,
     'udata': 0x0f, 'rnglistx': 0x23, 'loclistx': 0x22, 'sdata': 0x0d}


class Bad(Exception):
    def __init__(self, key, **d):
        Exception.__init__(self, key)
        self.key, self.d = key, d


def dl(got):
    from elftools.dwarf.locationlists import BaseAddressEntry as LB, LocationViewPair as VP
    out = []
    for e in got:
        if isinstance(e, LB):
            out.append(('base', e.entry_offset, e.base_address, e.entry_length))
        elif isinstance(e, VP):
            out.append(('view', e.entry_offset, e.begin, e.end))
        else:
            out.append(('ent', e.entry_offset, e.begin_offset, e.end_offset, bytes(e.loc_expr), e.is_absolute, e.entry_length))
    return out


def dr(got):
    from elftools.dwarf.ranges import BaseAddressEntry as RB
    return [('base', e.entry_offset, e.base_address) if isinstance(e, RB) else
            ('ent', e.entry_offset, e.begin_offset, e.end_offset, e.is_absolute, e.entry_length) for e in got]


def gen_v5(rng, le, asz):
    order = 'little' if le else 'big'

    def I(v, w):
        return v.to_bytes(w, order)
    nunits = rng.choice([1, 1, 2, 3])
    info = bytearray()
    abbrev = bytearray()
    addr = bytearray()
    rsec = bytearray()
    lsec = bytearray()
    units = []
    for ui in range(nunits):
        fmt = rng.choice([32, 64])
        osz = fmt // 8
        U = dict(fmt=fmt, off=len(info))
        addrs = [rng.choice([0, 1, 2 ** (8 * asz) - 2 ** 22, rng.getrandbits(8 * asz - 1)]) for _ in range(rng.choice([1, 3, 6, 130]))]
        ahdr = (I(4 + len(addrs) * asz, 4) if fmt == 32 else b'\xff' * 4 + I(4 + len(addrs) * asz, 8)) + I(5, 2) + bytes([asz, 0])
        U['addr_base'] = len(addr) + len(ahdr)
        addr += ahdr + b''.join(I(a, asz) for a in addrs)

        def block(kind, sec):
            codes = LLE if kind == 'loc' else RLE
            nl = rng.choice([0, 1, 2, 4, 7])
            use_table = rng.random() < 0.6 and nl > 0
            lists = []
            for _ in range(nl):
                ents = []
                b = bytearray()
                views = 0
                for _ in range(rng.choice([0, 1, 2, 5, 9])):
                    k = rng.choice(list(codes))
                    eo = len(b)
                    b.append(codes[k])
                    expr = bytes(rng.getrandbits(8) for _ in range(rng.choice([0, 1, 3, 127, 128, 300]))) if kind == 'loc' else None

                    def cld():
                        if kind == 'loc':
                            b.extend(uleb(len(expr), rng.choice([0, 0, 1])) + expr)
                    ix = lambda: rng.randrange(len(addrs))
                    U_ = lambda v: uleb(v, rng.choice([0, 0, 0, 1]))
                    if k == 'base_addressx':
                        i = ix()
                        b.extend(U_(i))
                        ents.append(['base', eo, addrs[i]])
                    elif k == 'startx_endx':
                        i, j = ix(), ix()
                        b.extend(U_(i) + U_(j))
                        cld()
                        ents.append(['ent', eo, addrs[i], addrs[j], expr, True])
                    elif k == 'startx_length':
                        i = ix()
                        L = rng.choice([0, 1, 0x7f, 0x80, 70000, 2 ** 63])
                        b.extend(U_(i) + U_(L))
                        cld()
                        ents.append(['ent', eo, addrs[i], addrs[i] + L, expr, True])
                    elif k == 'offset_pair':
                        # (offsets from a base of 0 reach the upper half of the address space: ten-byte LEB128 numbers)
                        x, y = rng.choice([0, 5, 0x7f, 0x80, 2 ** 63]), rng.choice([0x10, 0x100, 2 ** 20, 2 ** 35, 2 ** 63 + 5, 2 ** 64 - 1])
                        b.extend(U_(x) + U_(y))
                        cld()
                        ents.append(['ent', eo, x, y, expr, False])
                    elif k == 'default_location':
                        cld()
                        ents.append(['ent', eo, -1, -1, expr, True])
                    elif k == 'base_address':
                        a = rng.getrandbits(8 * asz)
                        b.extend(I(a, asz))
                        ents.append(['base', eo, a])
                    elif k == 'start_end':
                        x, y = rng.getrandbits(8 * asz), rng.getrandbits(8 * asz)
                        b.extend(I(x, asz) + I(y, asz))
                        cld()
                        ents.append(['ent', eo, x, y, expr, True])
                    elif k == 'start_length':
                        x = rng.getrandbits(8 * asz - 1)
                        L = rng.choice([0, 1, 0x80, 70000])
                        b.extend(I(x, asz) + U_(L))
                        cld()
                        ents.append(['ent', eo, x, x + L, expr, True])
                    ents[-1].append(len(b) - eo)
                    ents[-1].append(k)
                    if ents[-1][0] == 'ent':
                        views += 1
                b.append(0)
                lists.append((bytes(b), ents, views))
            cnt = nl if use_table else 0
            start = len(sec)
            ill = 4 if fmt == 32 else 12
            table_off = start + ill + 8
            body = bytearray()
            offs = []
            vinfo = []
            first = table_off + cnt * osz
            for lb, ents, views in lists:
                vp = None
                if kind == 'loc':
                    if rng.random() < 0.3:
                        body += bytes(rng.getrandbits(8) for _ in range(rng.choice([1, 3, 8])))      # gap
                    if rng.random() < 0.3 and views:
                        vo = first + len(body)
                        pairs = []
                        for _ in range(views):
                            p = (rng.choice([0, 1, 127, 128]), rng.choice([0, 2, 300]))
                            pairs.append(('view', first + len(body), p[0], p[1]))
                            body += uleb(p[0]) + uleb(p[1])
                        vp = (vo, pairs)
                offs.append(first + len(body))
                vinfo.append(vp)
                body += lb
            trailing = 0
            if kind == 'loc' and rng.random() < 0.25:
                trailing = rng.choice([1, 3, 8])
                body += bytes(rng.getrandbits(8) for _ in range(trailing))
            tbl = b''.join(I(o - table_off, osz) for o in offs) if cnt else b''
            content = I(5, 2) + bytes([asz, 0]) + I(cnt, 4) + tbl + bytes(body)
            sec += (I(len(content), 4) if fmt == 32 else b'\xff' * 4 + I(len(content), 8)) + content
            exp = []
            for (lb, ents, views), o in zip(lists, offs):
                ee = []
                for e in ents:
                    if e[0] == 'base':
                        ee.append(('base', e[1] + o, e[2], e[3]) if kind == 'loc' else ('base', e[1] + o, e[2]))
                    elif kind == 'loc':
                        ee.append(('ent', e[1] + o, e[2], e[3], e[4], e[5], e[6]))
                    else:
                        ee.append(('ent', e[1] + o, e[2], e[3], e[5], e[6]))
                exp.append(dict(off=o, ents=ee, kinds=[e[-1] for e in ents], raw=ents))
            return dict(start=start, table_off=table_off, cnt=cnt, use_table=use_table, lists=exp, views=vinfo,
                        unit_length=len(content), rel=[o - table_off for o in offs] if cnt else False, trailing=trailing,
                        fmt=fmt)
        U['rng'] = block('rng', rsec)
        U['loc'] = block('loc', lsec)
        rform = 'rnglistx' if U['rng']['use_table'] else 'sec_offset'
        lform = 'loclistx' if U['loc']['use_table'] else 'sec_offset'
        U['rform'], U['lform'] = rform, lform
        aoff = len(abbrev)
        # code 1: unit entry; 2: variable with location list (+ optional locviews: code 5); 3: block with ranges;
        # 4: variable with exprloc; 6: constant; 7: subprogram frame_base -> list
        # the unit entry may carry DW_AT_ranges itself (compilers do that), before or after the base attributes it depends on
        U['top_ranges'] = rng.choice([None, 'first', 'last']) if U['rng']['lists'] else None
        top_r = uleb(0x55) + uleb(F[rform])
        abbrev += uleb(1) + uleb(0x11) + b'\x01' + (top_r if U['top_ranges'] == 'first' else b'') + uleb(0x73) + uleb(0x17) + \
            uleb(0x74) + uleb(0x17) + uleb(0x8c) + uleb(0x17) + (top_r if U['top_ranges'] == 'last' else b'') + b'\0\0'
        abbrev += uleb(2) + uleb(0x34) + b'\0' + uleb(0x02) + uleb(F[lform]) + b'\0\0'
        abbrev += uleb(3) + uleb(0x0b) + b'\0' + uleb(0x55) + uleb(F[rform]) + b'\0\0'
        abbrev += uleb(4) + uleb(0x34) + b'\0' + uleb(0x02) + uleb(F['exprloc']) + b'\0\0'
        abbrev += uleb(5) + uleb(0x34) + b'\0' + uleb(0x02) + uleb(F[lform]) + uleb(0x2137) + uleb(0x17) + b'\0\0'
        abbrev += uleb(6) + uleb(0x34) + b'\0' + uleb(0x1c) + uleb(F['data4']) + b'\0\0'
        abbrev += uleb(7) + uleb(0x2e) + b'\0' + uleb(0x40) + uleb(F[lform]) + b'\0\0' + b'\0'
        top_v = b''
        if U['top_ranges']:
            U['top_index'] = rng.randrange(len(U['rng']['lists']))
            top_v = uleb(U['top_index']) if U['rng']['use_table'] else I(U['rng']['lists'][U['top_index']]['off'], osz)
        body = uleb(1) + (top_v if U['top_ranges'] == 'first' else b'') + I(U['addr_base'], osz) + I(U['rng']['table_off'], osz) + \
            I(U['loc']['table_off'], osz) + (top_v if U['top_ranges'] == 'last' else b'')
        refs = []
        for i, L in enumerate(U['loc']['lists']):
            v = U['loc']['views'][i]
            opnd = uleb(i) if U['loc']['use_table'] else I(L['off'], osz)
            if v is not None:
                body += uleb(5) + opnd + I(v[0], osz)
            else:
                body += uleb(2) + opnd
        for i, L in enumerate(U['rng']['lists']):
            body += uleb(3) + (uleb(i) if U['rng']['use_table'] else I(L['off'], osz))
        U['expr'] = bytes([0x91, 0x7c, 0x23, 0x08])
        body += uleb(4) + uleb(len(U['expr'])) + U['expr']
        body += uleb(6) + I(5, 4)
        if U['loc']['lists'] and not any(U['loc']['views']):
            body += uleb(7) + (uleb(0) if U['loc']['use_table'] else I(U['loc']['lists'][0]['off'], osz))   # a list referenced twice
            U['frame_base'] = True
        body += b'\0'
        hdr = I(5, 2) + bytes([1, asz]) + I(aoff, osz)
        info += (I(len(hdr) + len(body), 4) if fmt == 32 else b'\xff' * 4 + I(len(hdr) + len(body), 8)) + hdr + body
        units.append(U)
    secs = {'.debug_info': bytes(info), '.debug_abbrev': bytes(abbrev), '.debug_addr': bytes(addr),
            '.debug_rnglists': bytes(rsec), '.debug_loclists': bytes(lsec)}
    return secs, units


def check_v5(rng, sh):
    from elftools.dwarf.locationlists import LocationParser, LocationExpr
    le = rng.random() < 0.5
    asz = rng.choice([4, 8])
    secs, units = gen_v5(rng, le, asz)
    di, streams = G.make_dwarfinfo(secs, le, TracedBytesIO, default_address_size=asz)
    st = list(streams.values())
    cus = list(di.iter_CUs())
    rl, ll = di.range_lists(), di.location_lists()
    lp = LocationParser(ll)
    feats = set()
    for cu, U in zip(cus, units):
        dies = [d for d in cu.iter_DIEs() if not d.is_null()]
        rd = [d for d in dies if 'DW_AT_ranges' in d.attributes and d.tag != 'DW_TAG_compile_unit']
        if U['top_ranges']:
            a = cu.get_top_DIE().attributes['DW_AT_ranges']
            L = U['rng']['lists'][U['top_index']]
            if a.value != L['off']:
                raise Bad('rnglist attribute of the unit entry (%s, %s the base attributes) does not resolve to the list offset' % (a.form, 'before' if U['top_ranges'] == 'first' else 'after'), got=a.value, want=L['off'])
            poison(st, rng)
            if dr(rl.get_range_list_at_offset(a.value, cu)) != L['ents']:
                raise Bad('range list of the unit entry differs')
        ld = [d for d in dies if 'DW_AT_location' in d.attributes and d.attributes['DW_AT_location'].form != 'DW_FORM_exprloc']
        for d, L in zip(rd, U['rng']['lists']):
            a = d.attributes['DW_AT_ranges']
            if a.value != L['off']:
                raise Bad('rnglist attribute (%s, fmt%d) does not resolve to the list offset' % (a.form, U['fmt']), got=a.value, want=L['off'])
            poison(st, rng)
            if dr(rl.get_range_list_at_offset(a.value, cu)) != L['ents']:
                raise Bad('range list entries differ (kinds %s)' % sorted(set(L['kinds'])), got=dr(rl.get_range_list_at_offset(a.value, cu))[:3], want=L['ents'][:3])
            poison(st, rng)
            raw = rl.get_range_list_at_offset_ex(L['off'])
            if [e.entry_type for e in raw] != ['DW_RLE_' + k for k in L['kinds']] or \
                    dr([rl.translate_v5_entry(e, cu) for e in raw]) != L['ents']:
                raise Bad('untranslated range list / translate_v5_entry differs')
            if LocationParser.attribute_has_location(a, 5):
                raise Bad('DW_AT_ranges classified as a location')
            feats |= {('rle', k) for k in L['kinds']}
        for d, L, v in zip(ld, U['loc']['lists'], U['loc']['views']):
            a = d.attributes['DW_AT_location']
            if a.value != L['off']:
                raise Bad('loclist attribute (%s, fmt%d) does not resolve to the list offset' % (a.form, U['fmt']), got=a.value, want=L['off'])
            if not LocationParser.attribute_has_location(a, 5):
                raise Bad('location list attribute not recognised (%s)' % a.form)
            poison(st, rng)
            got = dl(lp.parse_from_attribute(a, 5, d))
            if got != L['ents']:
                raise Bad('location list entries differ (kinds %s)' % sorted(set(L['kinds'])), got=got[:3], want=L['ents'][:3])
            poison(st, rng)
            if dl(ll.get_location_list_at_offset(L['off'], d)) != L['ents']:
                raise Bad('get_location_list_at_offset differs')
            feats |= {('lle', k) for k in L['kinds']}
        for d in dies:
            a = d.attributes.get('DW_AT_location')
            if a is not None and a.form == 'DW_FORM_exprloc':
                r = lp.parse_from_attribute(a, 5, d)
                if not isinstance(r, LocationExpr) or bytes(r.loc_expr) != U['expr']:
                    raise Bad('exprloc attribute not classified as expression')
            a = d.attributes.get('DW_AT_const_value')
            if a is not None and LocationParser.attribute_has_location(a, 5):
                raise Bad('constant classified as location')
    # section-level enumeration
    poison(st, rng)
    hdrs = list(PoisonedIter(rl.iter_CUs(), [streams['.debug_rnglists']], rng, sh.counters))
    want = [(U['rng']['start'], U['rng']['unit_length'], U['fmt'] == 64, U['rng']['cnt'], U['rng']['table_off'], U['rng']['rel']) for U in units]
    got = [(h.cu_offset, h.unit_length, h.is64, h.offset_count, h.offset_table_offset,
            list(h.offsets) if h.offsets is not False else False) for h in hdrs]
    if got != want:
        raise Bad('rnglists iter_CUs headers/offset arrays differ', got=got, want=want)
    for h, U in zip(hdrs, units):
        poison(st, rng)
        exl = list(PoisonedIter(rl.iter_CU_range_lists_ex(h), [streams['.debug_rnglists']], rng, sh.counters))
        g = [[(e.entry_type, e.entry_offset) for e in L] for L in exl]
        w = [[('DW_RLE_' + e[-1], L['off'] + e[1]) for e in L['raw']] for L in U['rng']['lists']]
        if g != w:
            raise Bad('iter_CU_range_lists_ex differs (offset table %s, fmt%d)' % ('present' if U['rng']['cnt'] else 'empty', U['fmt']),
                      got=[len(x) for x in g], want=[len(x) for x in w])
    hl = list(ll.iter_CUs())
    want = [(U['loc']['start'], U['loc']['unit_length'], U['fmt'] == 64, U['loc']['cnt'], U['loc']['rel']) for U in units]
    got = [(h.cu_offset, h.unit_length, h.is64, h.offset_count, list(h.offsets) if h.offsets is not False else False) for h in hl]
    if got != want:
        raise Bad('loclists iter_CUs headers/offset arrays differ', got=got, want=want)
    poison(st, rng)
    it = [dr(x) for x in PoisonedIter(rl.iter_range_lists(), [streams['.debug_rnglists']], rng, sh.counters)]
    allr = sorted((L['off'], L['ents']) for U in units for L in U['rng']['lists'])
    if it != [e for o, e in allr]:
        raise Bad('iter_range_lists differs', got=len(it), want=len(allr))
    poison(st, rng)
    itl = [dl(x) for x in PoisonedIter(ll.iter_location_lists(), [streams['.debug_loclists']], rng, sh.counters)]
    alll = []
    for U in units:
        for L, v in zip(U['loc']['lists'], U['loc']['views']):
            alll.append(((v[0] if v else L['off']), (v[1] if v else []) + L['ents']))
    alll.sort(key=lambda t: t[0])
    if itl != [e for o, e in alll]:
        gaps = any(U['loc']['trailing'] for U in units)
        raise Bad('iter_location_lists differs%s' % (' (trailing gap in a block)' if gaps else ''), got=len(itl), want=len(alll))
    sh.held()
    for U in units:
        sh.sig(('v5', le, asz, U['fmt'], U['rform'], U['lform'], bool(U['loc']['trailing']), any(U['loc']['views']), len(units) > 1, U['top_ranges']))
    for f in feats:
        sh.sig(f + (asz, le))
    sh.sample({'gen': 'v5', 'units': [(U['fmt'], U['rform'], U['lform'], len(U['rng']['lists']), len(U['loc']['lists'])) for U in units]}, kind='v5')


def gen_v4(rng, le, asz):
    order = 'little' if le else 'big'

    def I(v, w):
        return v.to_bytes(w, order)
    MAX = 2 ** (8 * asz) - 1
    loc = bytearray()
    rngs = bytearray()
    units = []
    info = bytearray()
    abbrev = bytearray()
    for ui in range(rng.choice([1, 1, 2, 3])):
        ver = rng.choice([2, 3, 4])
        fmt = rng.choice([32, 64])
        osz = fmt // 8
        lexp, rexp = [], []
        for _ in range(rng.choice([1, 2, 4])):
            if rng.random() < 0.3:
                loc += b'\xee' * rng.choice([1, 7, 16])      # gap
            o = len(loc)
            ents = []
            for _ in range(rng.choice([0, 1, 2, 6])):
                eo = len(loc)
                if rng.random() < 0.25:
                    b = rng.choice([0, 0, 1, MAX - 1, rng.randint(0, MAX - 1), rng.randint(0, MAX - 1)])     # 0: objects whose code starts at address 0
                    loc += I(MAX, asz) + I(b, asz)
                    ents.append(('base', eo, b, 2 * asz))
                else:
                    x = rng.choice([0, rng.randint(0, MAX - 2), rng.randint(0, MAX - 2)])
                    y = rng.randint(1, MAX - 1)
                    e = bytes(rng.getrandbits(8) for _ in range(rng.choice([0, 1, 4, 300, 65535 if rng.random() < 0.03 else 2])))
                    loc += I(x, asz) + I(y, asz) + I(len(e), 2) + e
                    ents.append(('ent', eo, x, y, e, False, 2 * asz + 2 + len(e)))
            loc += I(0, asz) * 2
            lexp.append((o, ents))
        for _ in range(rng.choice([1, 2, 4])):
            o = len(rngs)
            ents = []
            for _ in range(rng.choice([0, 1, 2, 6])):
                eo = len(rngs)
                if rng.random() < 0.25:
                    b = rng.choice([0, 0, 1, MAX - 1, rng.randint(0, MAX - 1), rng.randint(0, MAX - 1)])     # 0: objects whose code starts at address 0
                    rngs += I(MAX, asz) + I(b, asz)
                    ents.append(('base', eo, b))
                else:
                    x = rng.choice([0, rng.randint(0, MAX - 2), rng.randint(0, MAX - 2)])
                    y = rng.randint(1, MAX - 1)
                    rngs += I(x, asz) + I(y, asz)
                    ents.append(('ent', eo, x, y, False, 2 * asz))
            rngs += I(0, asz) * 2
            rexp.append((o, ents))
        lf = 'sec_offset' if ver >= 4 else ('data4' if fmt == 32 else rng.choice(['data4', 'data8']))
        w = {'data4': 4, 'data8': 8, 'sec_offset': osz}[lf]
        ef = 'exprloc' if ver >= 4 else rng.choice(['block1', 'block2', 'block4', 'block'])
        aoff = len(abbrev)
        abbrev += uleb(1) + uleb(0x11) + b'\x01' + b'\0\0' + uleb(2) + uleb(0x34) + b'\0' + uleb(0x02) + uleb(F[lf]) + b'\0\0'
        abbrev += uleb(3) + uleb(0x0b) + b'\0' + uleb(0x55) + uleb(F[lf]) + b'\0\0'
        abbrev += uleb(4) + uleb(0x34) + b'\0' + uleb(0x02) + uleb(F[ef]) + b'\0\0'
        abbrev += uleb(5) + uleb(0x0d) + b'\0' + uleb(0x38) + uleb(F['data1']) + b'\0\0'
        abbrev += uleb(6) + uleb(0x34) + b'\0' + uleb(0x1c) + uleb(F['data4']) + b'\0\0'
        abbrev += uleb(7) + uleb(0x2e) + b'\0' + uleb(0x40) + uleb(F[lf]) + b'\0\0'
        abbrev += uleb(8) + uleb(0x0d) + b'\0' + uleb(0x38) + uleb(F[ef]) + b'\0\0' + b'\0'
        body = uleb(1)
        for o, _ in lexp:
            body += uleb(2) + I(o, w)
        for o, _ in rexp:
            body += uleb(3) + I(o, w)
        expr = bytes([0x91, 0x7c])
        pre = {'exprloc': uleb(len(expr)), 'block1': bytes([len(expr)]), 'block2': I(len(expr), 2), 'block4': I(len(expr), 4),
               'block': uleb(len(expr))}[ef]
        body += uleb(4) + pre + expr
        if ver >= 3:
            body += uleb(5) + bytes([8])
        body += uleb(6) + I(5, 4)
        body += uleb(7) + I(lexp[0][0], w)         # frame_base -> the first list again
        body += uleb(8) + pre + expr               # member location as an expression
        body += b'\0'
        hdr = I(ver, 2) + I(aoff, osz) + bytes([asz])
        info += (I(len(hdr) + len(body), 4) if fmt == 32 else b'\xff' * 4 + I(len(hdr) + len(body), 8)) + hdr + body
        units.append(dict(ver=ver, fmt=fmt, lexp=lexp, rexp=rexp, expr=expr, lf=lf, ef=ef))
    return {'.debug_info': bytes(info), '.debug_abbrev': bytes(abbrev), '.debug_loc': bytes(loc),
            '.debug_ranges': bytes(rngs)}, units


def check_v4(rng, sh):
    from elftools.dwarf.locationlists import LocationParser, LocationExpr
    le = rng.random() < 0.5
    asz = rng.choice([4, 8])
    secs, units = gen_v4(rng, le, asz)
    di, streams = G.make_dwarfinfo(secs, le, TracedBytesIO, default_address_size=asz)
    st = list(streams.values())
    ll, rl = di.location_lists(), di.range_lists()
    lp = LocationParser(ll)
    cus = list(di.iter_CUs())
    for cu, U in zip(cus, units):
        ver = U['ver']
        for o, e in U['lexp']:
            poison(st, rng)
            if dl(ll.get_location_list_at_offset(o)) != e:
                raise Bad('v%d location list at offset differs' % ver, got=dl(ll.get_location_list_at_offset(o))[:3], want=e[:3])
        for o, e in U['rexp']:
            poison(st, rng)
            if dr(rl.get_range_list_at_offset(o)) != e:
                raise Bad('v%d range list at offset differs' % ver)
        for d in [d for d in cu.iter_DIEs() if not d.is_null()]:
            for a in d.attributes.values():
                has = LocationParser.attribute_has_location(a, ver)
                if a.name in ('DW_AT_location', 'DW_AT_frame_base') or (a.name == 'DW_AT_data_member_location' and a.form != 'DW_FORM_data1'):
                    if not has:
                        raise Bad('location attribute not recognised (%s in v%d)' % (a.form, ver))
                    poison(st, rng)
                    r = lp.parse_from_attribute(a, ver, d)
                    if a.form in ('DW_FORM_exprloc', 'DW_FORM_block1', 'DW_FORM_block2', 'DW_FORM_block4', 'DW_FORM_block'):
                        if not isinstance(r, LocationExpr) or bytes(r.loc_expr) != U['expr']:
                            raise Bad('expression attribute misclassified (%s in v%d)' % (a.form, ver))
                    else:
                        want = dict(U['lexp'])[a.value]
                        if not isinstance(r, list) or dl(r) != want:
                            raise Bad('list attribute misclassified or wrong list (%s in v%d)' % (a.form, ver))
                elif a.name in ('DW_AT_const_value', 'DW_AT_ranges') and has:
                    raise Bad('%s classified as location' % a.name)
                elif a.name == 'DW_AT_data_member_location' and a.form == 'DW_FORM_data1' and has:
                    raise Bad('constant member offset classified as location (v%d)' % ver)
    poison(st, rng)
    it = [dl(x) for x in PoisonedIter(ll.iter_location_lists(), [streams['.debug_loc']], rng, sh.counters)]
    want = [e for o, e in sorted((o, e) for U in units for o, e in U['lexp'])]
    if it != want:
        raise Bad('iter_location_lists (pre-v5) differs', got=len(it), want=len(want))
    poison(st, rng)
    it = [dr(x) for x in PoisonedIter(rl.iter_range_lists(), [streams['.debug_ranges']], rng, sh.counters)]
    want = [e for o, e in sorted((o, e) for U in units for o, e in U['rexp'])]
    if it != want:
        raise Bad('iter_range_lists (pre-v5) differs', got=len(it), want=len(want))
    sh.held()
    for U in units:
        sh.sig(('v4', le, asz, U['ver'], U['fmt'], U['lf'], U['ef'], len(units) > 1))
    sh.sample({'gen': 'pre-v5', 'units': [(U['ver'], U['fmt'], U['lf'], len(U['lexp']), len(U['rexp'])) for U in units]}, kind='v4')


def run_case(kind, idx, rng, sh):
    try:
        (check_v5 if kind == 'v5' else check_v4)(rng, sh)
    except Bad as b:
        sh.violation('C07:' + b.key, **b.d)
