"""C12 - DWARF expressions are split into exactly their operations and operands."""
from ..ref import expr as X

PROP = 'C12'
LEVEL = 'exploration'
RULE = ('random and stratified sequences over every operation code of an operand table written '
        'from DWARF 5 2.5/7.7.1 + GNU/WASM notes (159 codes), operands at width/sign/LEB boundaries, '
        'address size {4,8} x DWARF32/64 x byte order x version 2-5, entry_value nesting to depth 4, '
        'typed blobs 0..255, implicit_value blobs up to 70000; parse_expr must return exactly the '
        'generated (opcode, name, operands, offset) tree and re-encoding the parse result must give '
        'the input bytes. distinct = (opcode, operand boundary class, address size, format, order).')
ASSUMPTIONS = [
    'operand widths/signs come from my transcription of DWARF 5 section 2.5/7.7.1, GCC\'s GNU '
    'extensions (DW_OP_GNU_parameter_ref: 4-byte CU offset) and the WebAssembly DWARF note',
    'DW_OP_lo_user/DW_OP_hi_user are range markers, not operations, and are left out of the bijection',
    'LEB128 operands are minimally encoded in this workload (the round trip is only defined then)',
]
KINDS = {'each_op': (64, 640, 4), 'random': (400, 12000, 0), 'deep': (32, 640, 4), 'bijection': (1, 1, 1)}
FLOOR = {'quick': 15000, 'thorough': 500000}
REACH = ['elftools.dwarf.dwarf_expr:DWARFExprParser.parse_expr',
         'elftools.dwarf.dwarf_expr:_init_dispatch_table']
_P = {}


def parser(le, fmt, asz, ver):
    key = (le, fmt, asz, ver)
    if key not in _P:
        from elftools.dwarf.structs import DWARFStructs
        from elftools.dwarf.dwarf_expr import DWARFExprParser
        _P[key] = DWARFExprParser(DWARFStructs(le, fmt, asz, ver))
    return _P[key]


def norm(parsed, names):
    out = []
    for o in parsed:
        args = []
        for a in o.args:
            if isinstance(a, list) and a and hasattr(a[0], 'op'):
                args.append(norm(a, names))
            elif isinstance(a, list):
                args.append(list(a))
            else:
                args.append(a)
        names.append((o.op, o.op_name))
        out.append((o.op, args, o.offset))
    return out


def bclass(v):
    if isinstance(v, int):
        return (v < 0, min(abs(v).bit_length(), 66))
    if isinstance(v, list):
        return ('L', min(len(v), 300))
    return 'x'


def one(sh, rng, le, fmt, asz, ver, data, ops, sigs):
    from elftools.dwarf.dwarf_expr import DW_OP_opcode2name, DW_OP_name2opcode
    p = parser(le, fmt, asz, ver)
    names = []
    got = norm(p.parse_expr(list(data)), names)
    if got != ops:
        bad = [(hex(g[0]), g[1] if len(repr(g[1])) < 200 else '...', e[1] if len(repr(e[1])) < 200 else '...', g[2], e[2])
               for g, e in zip(got, ops) if g != e][:1]
        first = bad[0][0] if bad else 'length %d vs %d' % (len(got), len(ops))
        sh.violation('C12:parse differs at op %s (fmt%d asz%d)' % (first, fmt, asz), input=data,
                     first_difference=bad, le=le, version=ver)
        return
    for op, nm in names:
        if DW_OP_name2opcode.get(nm) != op:
            sh.violation('C12:name %s of opcode %#x does not map back' % (nm, op))
            return
    try:
        back = X.reencode(got, le, asz, fmt // 8)
    except Exception as e:
        sh.violation('C12:parse result not re-encodable: %s' % type(e).__name__, input=data)
        return
    if back != data:
        sh.violation('C12:re-encoding differs', input=data, back=back)
        return
    sh.held()
    for s in sigs:
        sh.sig(s)


def cfg(rng, i):
    le = bool(i & 1)
    fmt = 64 if i & 2 else 32
    asz = 8 if i & 4 else 4
    ver = (2, 3, 4, 5)[(i >> 3) & 3]
    return le, fmt, asz, ver


def run_case(kind, idx, rng, sh):
    if kind == 'bijection':
        from elftools.dwarf.dwarf_expr import DW_OP_opcode2name, DW_OP_name2opcode
        ops = {n: v for n, v in DW_OP_name2opcode.items() if n not in ('DW_OP_lo_user', 'DW_OP_hi_user')}
        for n, v in ops.items():
            if DW_OP_opcode2name.get(v) != n:
                sh.violation('C12:bijection %s -> %#x -> %s' % (n, v, DW_OP_opcode2name.get(v)))
            else:
                sh.held(('bij', n))
            if v not in X.SPEC:
                sh.violation('C12:library operation %s (%#x) missing from the operand table' % (n, v))
        p = parser(True, 32, 8, 5)
        for v in X.SPEC:
            if v not in DW_OP_opcode2name:
                sh.count('spec_ops_without_library_name')
        return
    if kind == 'each_op':
        # every opcode alone and between two neighbours, in every configuration, at boundaries
        le, fmt, asz, ver = cfg(rng, idx)
        n = 0
        for op in sorted(X.SPEC):
            for rep in range(3):
                data, ops = X.gen_expr(rng, le, asz, fmt // 8, 1, ops=[op], maxdepth=2)
                pre, preops = X.gen_expr(rng, le, asz, fmt // 8, rep, maxdepth=0,
                                         ops=[0x96, 0x10, 0x11, 0x08, 0x91])
                post, postops = X.gen_expr(rng, le, asz, fmt // 8, rep, maxdepth=0, ops=[0x9f, 0x23, 0x93, 0x06])
                full = pre + data + post
                allops = preops + [(o, a, off + len(pre)) for o, a, off in ops] + \
                    [(o, a, off + len(pre) + len(data)) for o, a, off in postops]
                sigs = [(op, tuple(bclass(a) for a in ops[0][1] if not (isinstance(a, list) and a and isinstance(a[0], tuple))),
                         asz, fmt, le)]
                one(sh, rng, le, fmt, asz, ver, full, allops, sigs)
                n += 1
        if idx == 0:
            sh.sample({'config': dict(le=le, fmt=fmt, asz=asz, ver=ver), 'last_expr': full.hex(),
                       'ops': [(hex(o), a if len(repr(a)) < 80 else '...', off) for o, a, off in allops]})
    elif kind == 'random':
        for k in range(50):
            le, fmt, asz, ver = cfg(rng, rng.randrange(64))
            n = rng.choice([0, 1, 2, 3, 5, 8, 20, 60, 300])
            data, ops = X.gen_expr(rng, le, asz, fmt // 8, n, maxdepth=rng.choice([0, 1, 2, 3]),
                                   big_blob=rng.random() < 0.02)
            sigs = [('len', min(n, 300), le, fmt, asz)] + [('op', o, fmt, asz) for o, a, off in ops[:6]]
            one(sh, rng, le, fmt, asz, ver, data, ops, sigs)
        if idx == 0:
            sh.sample({'expr': data[:64].hex(), 'n_ops': len(ops)})
    elif kind == 'deep':
        le, fmt, asz, ver = cfg(rng, idx)
        for k in range(20):
            # chains of entry_value / GNU_entry_value nested to depth 4 with every kind inside
            data, ops = X.gen_expr(rng, le, asz, fmt // 8, rng.randint(1, 4), maxdepth=4,
                                   ops=[0xa3, 0xf3, 0xa3, 0xf3, 0x50, 0x91, 0xa4, 0x9e, 0xed, 0x03, 0x9a, 0xa0])

            def depth(o):
                return 1 + max([depth(a) for _, args, _ in o for a in args
                                if isinstance(a, list) and a and isinstance(a[0], tuple)] or [0])
            one(sh, rng, le, fmt, asz, ver, data, ops, [('deep', depth(ops), le, fmt, asz)])
        if idx == 0:
            sh.sample({'nested_expr': data[:80].hex(), 'depth': depth(ops)})
