"""C15 - symbol-version sections resolve each symbol to its encoded version."""
import struct

from ..gen import elfgen
from ..monitor import TracedBytesIO, PoisonedIter, poison

PROP = 'C15'
LEVEL = 'exploration'
RULE = ('generated .gnu.version_d / .gnu.version_r / .gnu.version sections in real images: 0..30 '
        'entries, 1..8 auxiliaries each, records laid out densely, with garbage-filled gaps, and '
        'interleaved out of order (every next/aux link a forward displacement), arbitrary 16-bit '
        'index assignments incl. the hidden bit, versym tables of any length over a dynamic symbol '
        'table, both classes and byte orders; iterated in nested, outer-first and lazy-later '
        'patterns with the shared stream repositioned at every yield and before every call; (links) '
        'files holding a definition and a need section whose sh_link name different string tables '
        '(the same names at other offsets), the two sections created and walked in either order. '
        'distinct = (kind, class, order, layout style, entry count class, aux count class).')
ASSUMPTIONS = [
    'displacement fields are unsigned, so only forward links are encodable',
    'indices are unique among definitions and among non-zero requirement auxiliaries',
]
KINDS = {'verdef': (1500, 40000, 0), 'verneed': (1500, 40000, 0), 'versym': (1000, 20000, 0), 'links': (400, 8000, 0)}
FLOOR = {'quick': 3000, 'thorough': 80000}
REACH = ['elftools.elf.gnuversions:GNUVersionSection._iter_version_auxiliaries',
         'elftools.elf.gnuversions:GNUVersionSection.iter_versions',
         'elftools.elf.gnuversions:GNUVerNeedSection.has_indexes',
         'elftools.elf.gnuversions:GNUVerNeedSection.get_version',
         'elftools.elf.gnuversions:GNUVerDefSection.get_version',
         'elftools.elf.gnuversions:GNUVerSymSection.get_symbol']
NAMES = ['libc.so.6', 'libm.so.6', 'GLIBC_2.2.5', 'GLIBC_2.17', 'GLIBC_PRIVATE', 'VERS_1.0', 'Vérs_2',
         'x' * 70, 'lib中.so', 'a', 'GLIBC_2.3', 'LIBFOO_1']
VERSYM = {0: 'VER_NDX_LOCAL', 1: 'VER_NDX_GLOBAL', 0xff00: 'VER_NDX_LORESERVE', 0xff01: 'VER_NDX_ELIMINATE'}


def layout(rng, plan, esz, asz, style):
    """plan: list of entries each with 'aux' list. Assign 'off' to every record so that
    entries ascend, each aux follows its predecessor (entry or previous aux)."""
    seqs = [[('e', i)] for i in range(len(plan))]
    order = []
    if style == 'dense' or style == 'gaps':
        for i, p in enumerate(plan):
            order.append(('e', i))
            order += [('a', i, j) for j in range(len(p['aux']))]
    else:   # interleaved: random merge preserving entry order and per-entry aux order after the entry
        pending = []      # per started entry: next aux index
        nexte = 0
        remaining = sum(len(p['aux']) for p in plan) + len(plan)
        started = {}
        while remaining:
            choices = []
            if nexte < len(plan):
                choices.append(('e', nexte))
            for i, j in started.items():
                if j < len(plan[i]['aux']):
                    choices.append(('a', i, j))
            c = rng.choice(choices)
            order.append(c)
            if c[0] == 'e':
                started[nexte] = 0
                nexte += 1
            else:
                started[c[1]] += 1
            remaining -= 1
    pos = 0
    for rec in order:
        if style != 'dense' and rec != ('e', 0):
            pos += rng.choice([0, 0, 4, 8, 12, 40, 1, 2, 6])      # displacements are byte counts: any value, aligned or not
        if rec[0] == 'e':
            plan[rec[1]]['off'] = pos
            pos += esz
        else:
            plan[rec[1]]['aux'][rec[2]]['off'] = pos
            pos += asz
    if style != 'dense':
        pos += rng.choice([0, 4, 16, 3])
    return pos


def make_strtab(rng):
    names = list(NAMES)
    rng.shuffle(names)
    tab = bytearray(b'\0')
    offs = {}
    for n in names:
        offs[n] = len(tab)
        tab += n.encode('utf-8') + b'\0'
    # suffix sharing: 'so.6' inside 'libc.so.6'
    if 'libc.so.6' in offs:
        offs['so.6'] = offs['libc.so.6'] + 5
    return bytes(tab), offs


def run_case(kind, idx, rng, sh):
    from elftools.elf.elffile import ELFFile
    from elftools.elf.gnuversions import GNUVerDefSection, GNUVerNeedSection, GNUVerSymSection
    cls = rng.choice([32, 64])
    le = rng.random() < 0.5
    E = '<' if le else '>'
    strtab, so = make_strtab(rng)
    keys = list(so)
    nsym = rng.choice([0, 1, 2, 5, 17, 300]) if kind == 'versym' else rng.randrange(1, 5)
    symnames = [''] + [rng.choice(keys) for _ in range(max(0, nsym - 1))]
    symnames = symnames[:nsym]
    symtab = b''.join(elfgen.sym_pack(E, cls == 64, so[n] if n else 0, rng.getrandbits(32), 0, 0x12, 0,
                                      rng.choice([0, 1, 0xfff1])) for n in symnames)
    secs = [elfgen.Sec('.dynsym', 11, flags=2, data=symtab, link='.dynstr', info=1,
                       entsize=24 if cls == 64 else 16, align=8),
            elfgen.Sec('.dynstr', 3, flags=2, data=strtab)]
    style = rng.choice(['dense', 'gaps', 'interleaved'])
    plan = []
    if kind in ('verdef', 'verneed'):
        nent = rng.choice([0, 1, 1, 2, 3, 5, 8, 30])
        pool = rng.sample(range(1, 0x10000), 300)
        if rng.random() < 0.3:
            pool = sorted({x | 0x8000 for x in pool})       # hidden bit set; keep the indices unique
            rng.shuffle(pool)
        allzero = kind == 'verneed' and rng.random() < 0.15
        for i in range(nent):
            naux = rng.choice([1, 1, 2, 3, 8])
            if kind == 'verdef':
                aux = [dict(name=rng.choice(keys)) for _ in range(naux)]
                plan.append(dict(version=rng.choice([1, 1, 2]), flags=rng.getrandbits(16), ndx=pool.pop(),
                                 hash=rng.getrandbits(32), aux=aux))
            else:
                aux = [dict(name=rng.choice(keys), hash=rng.getrandbits(32), flags=rng.getrandbits(16),
                            other=0 if (allzero or rng.random() < 0.1) else pool.pop()) for _ in range(naux)]
                plan.append(dict(version=rng.choice([1, 1, 7]), file=rng.choice(keys), aux=aux))
        esz, asz = (20, 8) if kind == 'verdef' else (16, 16)
        size = layout(rng, plan, esz, asz, style)
        buf = bytearray(rng.getrandbits(8) for _ in range(size)) if style != 'dense' else bytearray(size)
        for i, p in enumerate(plan):
            nxt = plan[i + 1]['off'] - p['off'] if i + 1 < len(plan) else 0
            auxd = p['aux'][0]['off'] - p['off']
            if kind == 'verdef':
                buf[p['off']:p['off'] + 20] = struct.pack(E + 'HHHHIII', p['version'], p['flags'], p['ndx'],
                                                          len(p['aux']), p['hash'], auxd, nxt)
            else:
                buf[p['off']:p['off'] + 16] = struct.pack(E + 'HHIII', p['version'], len(p['aux']), so[p['file']],
                                                          auxd, nxt)
            for j, a in enumerate(p['aux']):
                an = p['aux'][j + 1]['off'] - a['off'] if j + 1 < len(p['aux']) else 0
                if kind == 'verdef':
                    buf[a['off']:a['off'] + 8] = struct.pack(E + 'II', so[a['name']], an)
                else:
                    buf[a['off']:a['off'] + 16] = struct.pack(E + 'IHHII', a['hash'], a['flags'], a['other'],
                                                              so[a['name']], an)
        if kind == 'verdef':
            secs.append(elfgen.Sec('.gnu.version_d', 0x6ffffffd, flags=2, data=bytes(buf), link='.dynstr',
                                   info=nent, align=4))
        else:
            secs.append(elfgen.Sec('.gnu.version_r', 0x6ffffffe, flags=2, data=bytes(buf), link='.dynstr',
                                   info=nent, align=4))
    vers = [rng.choice([0, 1, 2, 3, 0x8002, 0x8004, 0xff00, 0xff01, 0xffff, 0x7fff, 0x7ffe, 0x8000, 0x8001, 0xfeff, rng.getrandbits(16)]) for _ in range(nsym)]
    if kind == 'versym' and nsym >= 3 and rng.random() < 0.1:
        # the table's own size says how many entries it has, even where the symbol table holds more
        vers = vers[:nsym - rng.choice([1, 2])]
    secs.append(elfgen.Sec('.gnu.version', 0x6fffffff, flags=2, data=b''.join(struct.pack(E + 'H', v) for v in vers),
                           link='.dynsym', entsize=2, align=2))
    rng.shuffle(secs)
    img, info = elfgen.build(cls=cls, le=le, machine=rng.choice([3, 62, 40, 183, 8, 21]), etype=3, sections=secs,
                             gap=rng.choice([0, 0, 5]), filler=0x5a, rng=rng)
    st = TracedBytesIO(img)
    ef = ELFFile(st)

    def P(it):
        return PoisonedIter(it, [st], rng, sh.counters)

    if kind == 'versym':
        vs = ef.get_section_by_name('.gnu.version')
        if not isinstance(vs, GNUVerSymSection):
            sh.violation('C15:versym section class %s' % type(vs).__name__)
            return
        nver = len(vers)
        want = [(symnames[i], VERSYM.get(vers[i], vers[i])) for i in range(nver)]
        poison([st], rng)
        got = [(s.name, s['ndx']) for s in P(vs.iter_symbols())]
        if vs.num_symbols() != nver or got != want:
            sh.violation('C15:versym enumeration%s' % (' (table shorter than the symbol table)' if nver != nsym else ''), n=nver, got=got[:5],
                         want=want[:5], num=vs.num_symbols())
            return
        order = list(range(nver))
        rng.shuffle(order)
        for i in order[:40]:
            poison([st], rng)
            s = vs.get_symbol(i)
            if (s.name, s['ndx']) != want[i]:
                sh.violation('C15:versym get_symbol', i=i, got=(s.name, s['ndx']), want=want[i])
                return
        sh.held(('versym', cls, le, min(nsym, 6)))
        sh.sample({'versym': want[:6]}, kind='versym')
        return
    name = '.gnu.version_d' if kind == 'verdef' else '.gnu.version_r'
    sec = ef.get_section_by_name(name)
    if not isinstance(sec, GNUVerDefSection if kind == 'verdef' else GNUVerNeedSection):
        sh.violation('C15:%s section class %s' % (kind, type(sec).__name__))
        return

    def dig_e(v):
        if kind == 'verdef':
            return (v['vd_version'], v['vd_flags'], v['vd_ndx'], v['vd_cnt'], v['vd_hash'], v.name)
        return (v['vn_version'], v['vn_cnt'], v.name)

    def dig_a(a):
        if kind == 'verdef':
            return (a.name,)
        return (a.name, a['vna_hash'], a['vna_flags'], a['vna_other'])

    def want_e(p):
        if kind == 'verdef':
            return (p['version'], p['flags'], p['ndx'], len(p['aux']), p['hash'], None)
        return (p['version'], len(p['aux']), p['file'])

    def want_a(a):
        if kind == 'verdef':
            return (a['name'],)
        return (a['name'], a['hash'], a['flags'], a['other'])

    want = [(want_e(p), [want_a(a) for a in p['aux']]) for p in plan]
    if sec.num_versions() != len(plan):
        sh.violation('C15:num_versions', got=sec.num_versions(), want=len(plan))
        return
    pattern = rng.choice(['nested', 'outer-first', 'partial'])
    poison([st], rng)
    early_has = kind == 'verneed' and rng.random() < 0.5
    if early_has:
        # asked before anything else on this object (a walk that may stop at the first index it meets)
        if sec.has_indexes() != any(a['other'] for p in plan for a in p['aux']):
            sh.violation('C15:has_indexes (first query on the object)')
            return
        if rng.random() < 0.5:
            pattern = 'none'        # straight on to the index resolution
    if pattern == 'none':
        got = want
    elif pattern == 'nested':
        got = [(dig_e(v), [dig_a(a) for a in P(it)]) for v, it in P(sec.iter_versions())]
    elif pattern == 'outer-first':
        outer = [(v, it) for v, it in P(sec.iter_versions())]
        got = [None] * len(outer)
        ks = list(range(len(outer)))
        rng.shuffle(ks)
        for k in ks:        # auxiliary iterators consumed later, in another order
            got[k] = (dig_e(outer[k][0]), [dig_a(a) for a in P(outer[k][1])])
    else:
        got = []
        for v, it in P(sec.iter_versions()):
            first = [dig_a(a) for a, _ in zip(P(it), range(1))]
            got.append((dig_e(v), first))
        want_cmp = [(w[0], w[1][:1]) for w in want]
        if got != want_cmp:
            sh.violation('C15:%s partial iteration differs (%s layout)' % (kind, style), got=got[:3], want=want_cmp[:3])
            return
        got = want
    if got != want:
        sh.violation('C15:%s iteration differs (%s layout, %s)' % (kind, style, pattern), got=got[:3], want=want[:3],
                     cls=cls, le=le)
        return
    # index resolution
    if kind == 'verdef':
        assigned = {p['ndx']: p for p in plan}
    else:
        assigned = {}
        for p in plan:
            for a in p['aux']:
                assigned.setdefault(a['other'], []).append((p, a))
    queries = list(assigned)
    rng.shuffle(queries)
    queries = queries[:25] + [q for q in (0x7777, 0, 1, 0x8001, 0xffff) if q not in assigned]
    queries += queries[:6]          # the same index asked again: the answer must not depend on having been asked before
    for q in queries:
        poison([st], rng)
        r = sec.get_version(q)
        if q not in assigned:
            if r is not None:
                sh.violation('C15:%s get_version(unassigned) returned an entry' % kind, q=q)
                return
            continue
        if r is None:
            sh.violation('C15:%s get_version(assigned) returned None (%s layout)' % (kind, style), q=q)
            return
        if kind == 'verdef':
            p = assigned[q]
            g = (dig_e(r[0]), [dig_a(a) for a in P(r[1])])
            if g != (want_e(p), [want_a(a) for a in p['aux']]):
                sh.violation('C15:verdef get_version wrong entry', q=q, got=g)
                return
        else:
            g = (dig_e(r[0]), dig_a(r[1]))
            if g not in [(want_e(p), want_a(a)) for p, a in assigned[q]]:
                sh.violation('C15:verneed get_version wrong entry', q=q, got=g)
                return
    if kind == 'verneed':
        poison([st], rng)
        hi = sec.has_indexes()
        if hi != any(a['other'] for p in plan for a in p['aux']) or sec.has_indexes() != hi:
            sh.violation('C15:has_indexes', got=hi)
            return
    sh.held((kind, cls, le, style, pattern, min(len(plan), 6), max([len(p['aux']) for p in plan] or [0])))
    sh.sample({'kind': kind, 'layout': style, 'entries': want[:2]}, kind=kind)


# ---- both version sections in one file, each resolving names through the string table its own sh_link names
_base_run_case = run_case


def run_case(kind, idx, rng, sh):
    if kind != 'links':
        return _base_run_case(kind, idx, rng, sh)
    from elftools.elf.elffile import ELFFile
    cls = rng.choice([32, 64])
    le = rng.random() < 0.5
    E = '<' if le else '>'
    tab_d, so_d = make_strtab(rng)
    tab_r, so_r = make_strtab(rng)
    tab_r = b'\0xy\0' + tab_r[1:]               # another length and other offsets than the first table
    so_r = {k: v + 3 for k, v in so_r.items()}
    keys = sorted(so_d)
    same_table = rng.random() < 0.25             # the usual layout: one table for both
    defs = [dict(ndx=i + 1, names=[rng.choice(keys) for _ in range(rng.choice([1, 2]))]) for i in range(rng.choice([1, 2, 3]))]
    needs = [dict(file=rng.choice(keys), aux=[dict(name=rng.choice(keys), other=10 + 4 * f + j) for j in range(rng.choice([1, 2]))])
             for f in range(rng.choice([1, 2]))]
    so_need = so_d if same_table else so_r
    vd = b''
    for i, d in enumerate(defs):
        size = 20 + 8 * len(d['names'])
        vd += struct.pack(E + 'HHHHIII', 1, 0, d['ndx'], len(d['names']), 0, 20, 0 if i == len(defs) - 1 else size)
        for j, n in enumerate(d['names']):
            vd += struct.pack(E + 'II', so_d[n], 0 if j == len(d['names']) - 1 else 8)
    vn = b''
    for f, nd in enumerate(needs):
        vn += struct.pack(E + 'HHIII', 1, len(nd['aux']), so_need[nd['file']], 16, 0 if f == len(needs) - 1 else 16 + 16 * len(nd['aux']))
        for j, a in enumerate(nd['aux']):
            vn += struct.pack(E + 'IHHII', 0, 0, a['other'], so_need[a['name']], 0 if j == len(nd['aux']) - 1 else 16)
    secs = [elfgen.Sec('.dynstr', 3, flags=2, data=tab_d), elfgen.Sec('.verstr', 3, flags=2, data=tab_r),
            elfgen.Sec('.gnu.version_d', 0x6ffffffd, flags=2, data=vd, link='.dynstr', info=len(defs), align=4),
            elfgen.Sec('.gnu.version_r', 0x6ffffffe, flags=2, data=vn, link='.dynstr' if same_table else '.verstr', info=len(needs), align=4)]
    rng.shuffle(secs)
    img, info = elfgen.build(cls=cls, le=le, machine=rng.choice([3, 62, 40, 183]), etype=3, sections=secs, rng=rng)
    st = TracedBytesIO(img)
    ef = ELFFile(st)
    want = {'def': [(d['ndx'], list(d['names'])) for d in defs],
            'need': [(nd['file'], [(a['name'], a['other']) for a in nd['aux']]) for nd in needs]}
    steps = ['def', 'need'] if rng.random() < 0.5 else ['need', 'def']
    steps += [rng.choice(['def', 'need']) for _ in range(rng.choice([0, 2, 4]))]
    held = {}
    for step, which in enumerate(steps):
        name = '.gnu.version_d' if which == 'def' else '.gnu.version_r'
        poison([st], rng)
        sec = held[which] if which in held and rng.random() < 0.5 else ef.get_section_by_name(name)
        held[which] = sec
        if which == 'def':
            got = [(v['vd_ndx'], [a.name for a in PoisonedIter(aux, [st], rng, sh.counters)]) for v, aux in sec.iter_versions()]
        else:
            got = [(v.name, [(a.name, a['vna_other']) for a in PoisonedIter(aux, [st], rng, sh.counters)]) for v, aux in sec.iter_versions()]
        if got != want[which]:
            sh.violation('C15:names of the version %s section resolved through another table than its sh_link names (%s)' % (
                'definition' if which == 'def' else 'need',
                'first section touched' if step == 0 else 'after the other version section was created'),
                steps=steps[:step + 1], got=got[:3], want=want[which][:3], same_table=same_table)
            return
        if which == 'need':
            a = needs[-1]['aux'][-1]
            poison([st], rng)
            r = sec.get_version(a['other'])
            if r is None or r[1].name != a['name'] or r[0].name != needs[-1]['file']:
                sh.violation('C15:get_version of a need section whose names live in its own string table', got=None if r is None else (r[0].name, r[1].name))
                return
    sh.held(('links', cls, le, same_table, steps[0], len(steps)), n=len(steps))
    sh.sample({'kind': 'links', 'same_table': same_table, 'order': steps}, kind='links')
