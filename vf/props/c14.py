"""C14 - note sections and segments yield every note exactly once; stab records."""
import io

from ..gen import elfgen, notesgen
from ..monitor import TracedBytesIO, PoisonedIter, poison

PROP = 'C14'
LEVEL = 'exploration'
RULE = ('generated note extents (0..40 notes; name sizes 0..21 and descriptor sizes 0..70 over every '
        'residue mod 4; header-only final note; unknown owners/types incl. type numbers that collide '
        'with known ones; GNU ABI tag, build id, gold version, property lists with 1-6 properties of '
        'each kind and class-dependent padding; in ET_CORE files NT_PRPSINFO (both layouts, 16-bit '
        'uid/gid machines) and NT_FILE with 0-20 mappings) placed in a real image and read through a '
        'SHT_NOTE section and a PT_NOTE segment over the same bytes, followed by unrelated bytes or '
        'alignment slack, with the shared stream repositioned at every yield; stab sections with '
        '0..500 records; (shared) the layout linkers write - two or three adjacent note sections under '
        'one PT_NOTE segment, a second segment over the last section alone - read through one file '
        'object in a random order of views, each view several times, partly consumed walks included. '
        'distinct = (class, order, core?, per-note feature tuple incl. residues).')
ASSUMPTIONS = [
    'type names are expected from the table selected by e_type (core vs other) whatever the owner; '
    'descriptor decoding is expected only for owner GNU (non-core types) and owner CORE (core types)',
    'the named x86/aarch64 bit-mask properties are 4 bytes (the psABI size); processor-range properties of other types carry 8-16 '
    'bytes, expected back in full',
    'alignment slack after the last note is < 12 bytes (a longer run of zeros is indistinguishable '
    'from a header-only note)',
]
KINDS = {'notes': (6000, 200000, 0), 'stabs': (200, 4000, 0), 'shared': (600, 12000, 0)}
FLOOR = {'quick': 5000, 'thorough': 150000}
REACH = ['elftools.elf.notes:iter_notes', 'elftools.elf.sections:StabSection.iter_stabs']

NONCORE = {1: 'NT_GNU_ABI_TAG', 2: 'NT_GNU_HWCAP', 3: 'NT_GNU_BUILD_ID', 4: 'NT_GNU_GOLD_VERSION',
           5: 'NT_GNU_PROPERTY_TYPE_0'}
CORE = {1: 'NT_PRSTATUS', 2: 'NT_FPREGSET', 3: 'NT_PRPSINFO', 4: 'NT_TASKSTRUCT', 6: 'NT_AUXV',
        0x53494749: 'NT_SIGINFO', notesgen.NT_FILE: 'NT_FILE'}
PRT = {1: 'GNU_PROPERTY_STACK_SIZE', 2: 'GNU_PROPERTY_NO_COPY_ON_PROTECTED',
       0xc0000002: 'GNU_PROPERTY_X86_FEATURE_1_AND', 0xc0008002: 'GNU_PROPERTY_X86_ISA_1_NEEDED',
       0xc0010001: 'GNU_PROPERTY_X86_FEATURE_2_USED', 0xc0010002: 'GNU_PROPERTY_X86_ISA_1_USED',
       0xc0000000: 'GNU_PROPERTY_AARCH64_FEATURE_1_AND'}
ABI_OS = {0: 'ELF_NOTE_OS_LINUX', 1: 'ELF_NOTE_OS_GNU', 2: 'ELF_NOTE_OS_SOLARIS2', 3: 'ELF_NOTE_OS_FREEBSD',
          4: 'ELF_NOTE_OS_NETBSD', 5: 'ELF_NOTE_OS_SYLLABLE'}
MACHINES = [3, 40, 62, 183, 8, 21, 22, 243, 2, 4, 42, 20]


def digest(note):
    d = {k: note[k] for k in ('n_name', 'n_type', 'n_descdata', 'n_offset', 'n_size', 'n_namesz', 'n_descsz')}
    desc = note['n_desc']
    if isinstance(desc, (bytes, str)):
        d['n_desc'] = desc
    elif isinstance(desc, list):
        # a property type outside my own table is compared by number, whether or not the library has a name for it
        from elftools.elf.enums import ENUM_NOTE_GNU_PROPERTY_TYPE as _PT
        known = set(PRT.values())
        d['n_desc'] = [(p['pr_type'] if p['pr_type'] in known or not isinstance(p['pr_type'], str) else _PT.get(p['pr_type'], p['pr_type']),
                        p['pr_datasz'], p['pr_data']) for p in desc]
    elif 'abi_os' in desc:
        d['n_desc'] = ('abi', desc['abi_os'], desc['abi_major'], desc['abi_minor'], desc['abi_tiny'])
    elif 'pr_state' in desc:
        d['n_desc'] = ('prpsinfo', {k: desc[k] for k in (
            'pr_state', 'pr_sname', 'pr_zomb', 'pr_nice', 'pr_flag', 'pr_uid', 'pr_gid', 'pr_pid', 'pr_ppid',
            'pr_pgrp', 'pr_sid', 'pr_fname', 'pr_psargs')})
    elif 'num_map_entries' in desc:
        d['n_desc'] = ('ntfile', desc['num_map_entries'], desc['page_size'],
                       [(m['vm_start'], m['vm_end'], m['page_offset']) for m in desc['Elf_Nt_File_Entry']],
                       list(desc['filename']))
    else:
        d['n_desc'] = repr(desc)
    return d


def expected(e, base, core):
    tab = CORE if core else NONCORE
    d = dict(n_name=e['n_name'], n_type=tab.get(e['n_type'], e['n_type']), n_descdata=e['n_descdata'],
             n_offset=base + e['n_offset'], n_size=e['n_size'], n_namesz=e['n_namesz'], n_descsz=e['n_descsz'])
    if 'props' in e:
        d['n_desc'] = [(PRT.get(t, t), n, v) for t, n, v in e['props']]
    elif 'abi' in e:
        v = e['abi']
        d['n_desc'] = ('abi', ABI_OS.get(v[0], v[0]), v[1], v[2], v[3])
    elif 'prpsinfo' in e:
        d['n_desc'] = ('prpsinfo', e['prpsinfo'])
    elif 'ntfile' in e:
        f = e['ntfile']
        d['n_desc'] = ('ntfile', f['num_map_entries'], f['page_size'], f['maps'], f['files'])
    else:
        d['n_desc'] = e['n_desc']
    return d


def run_case(kind, idx, rng, sh):
    from elftools.elf.elffile import ELFFile
    from elftools.elf.sections import NoteSection, StabSection
    from elftools.elf.segments import NoteSegment
    cls = rng.choice([32, 64])
    le = rng.random() < 0.5
    if kind == 'stabs':
        n = rng.choice([0, 1, 2, 7, 100, 500])
        data, recs = notesgen.gen_stabs(rng, le, n)
        img, info = elfgen.build(cls=cls, le=le, machine=rng.choice(MACHINES), etype=rng.choice([1, 2, 3]),
                                 sections=[elfgen.Sec('.text', 1, data=b'\x90' * rng.randrange(9)),
                                           elfgen.Sec('.stab', 1, data=data, link='.stabstr', entsize=12),
                                           elfgen.Sec('.stabstr', 3, data=b'\0abc\0')], gap=rng.choice([0, 0, 3]),
                                 filler=0xa5, rng=rng)
        st = TracedBytesIO(img)
        ef = ELFFile(st)
        sec = ef.get_section_by_name('.stab')
        if not isinstance(sec, StabSection):
            sh.violation('C14:.stab section is %s' % type(sec).__name__)
            return
        base = info['secs'][info['byname']['.stab']].offset
        if rng.random() < 0.5:
            # a walk given up after the first record (reading the N_UNDF header, say), then the full walk of the same object
            for _ in zip(range(rng.choice([1, 2])), sec.iter_stabs()):
                pass
            sh.count('stab_walks_after_an_abandoned_walk')
        got = [(s['n_strx'], s['n_type'], s['n_other'], s['n_desc'], s['n_value'], s['n_offset'])
               for s in PoisonedIter(sec.iter_stabs(), [st], rng, sh.counters)]
        want = [r + (base + 12 * i,) for i, r in enumerate(recs)]
        if got != want:
            sh.violation('C14:stab records differ', n=n, got=got[:3], want=want[:3], cls=cls, le=le)
        else:
            sh.held(('stabs', cls, le, min(n, 8)))
            sh.sample({'stab_records': n, 'first': want[:2]}, kind='stabs')
        return
    core = rng.random() < 0.4
    machine = rng.choice(MACHINES)
    body, exp = notesgen.gen_notes(rng, cls, le, core, machine)
    slack = rng.choice([0, 0, 0, 4, 8]) if exp else rng.choice([0, 4, 8, 11])
    extent = body + b'\0' * slack
    tail = bytes(rng.getrandbits(8) for _ in range(rng.choice([0, 0, 16, 40])))
    secs = [elfgen.Sec('.text', 1, data=b'\xcc' * rng.randrange(17), align=rng.choice([1, 4, 16])),
            elfgen.Sec('.note.test', 7, flags=2, data=extent, align=rng.choice([1, 4, 8])),
            elfgen.Sec('.junk', 1, data=tail)]
    segs = [elfgen.Seg(type=4, sec='.note.test', align=4)]
    img, info = elfgen.build(cls=cls, le=le, machine=machine, etype=4 if core else rng.choice([1, 2, 3]),
                             sections=secs, segments=segs, order=rng.choice([('ph', 'data', 'sh'), ('sh', 'ph', 'data'),
                                                                             ('ph', 'sh', 'data')]),
                             filler=rng.choice([0, 0xff]), rng=rng)
    st = TracedBytesIO(img)
    ef = ELFFile(st)
    base = info['secs'][info['byname']['.note.test']].offset
    want = [expected(e, base, core) for e in exp]
    views = {}
    sec = ef.get_section_by_name('.note.test')
    seg = ef.get_segment(0)
    if not isinstance(sec, NoteSection) or not isinstance(seg, NoteSegment):
        sh.violation('C14:note section/segment classes %s/%s' % (type(sec).__name__, type(seg).__name__))
        return
    for name, obj in (('section', sec), ('segment', seg)):
        poison([st], rng)
        try:
            views[name] = [digest(n) for n in PoisonedIter(obj.iter_notes(), [st], rng, sh.counters)]
        except Exception as e:
            views[name] = 'EXC %s' % type(e).__name__
            exc = e
    feats = tuple(sorted({e['feature'] for e in exp}))
    sigbase = (cls, le, core, slack, bool(tail))
    for name, got in views.items():
        if got == want:
            continue
        # locate the first difference for the key
        if isinstance(got, str):
            key = got
        elif len(got) != len(want):
            last = exp[-1] if exp else {}
            key = 'count %d vs %d%s' % (len(got), len(want),
                                         ' (header-only final note)' if last.get('n_size') == 12 and len(got) == len(want) - 1 else '')
            key = 'count differs' + (' (header-only final note dropped)' if last.get('n_size') == 12 and len(got) == len(want) - 1 else '')
        else:
            i = [g != w for g, w in zip(got, want)].index(True)
            fld = [k for k in want[i] if got[i].get(k) != want[i][k]]
            key = 'field %s of a %s note' % (fld[0], exp[i]['feature'][0])
        sh.violation('C14:%s view: %s%s' % (name, key, ' [core file]' if core else ''), cls=cls, le=le, core=core,
                     machine=machine, want=want[:4], got=got if isinstance(got, str) else got[:4],
                     extent=extent)
        return
    if views['section'] != views['segment']:
        sh.violation('C14:section view != segment view')
        return
    if sum(n['n_size'] for n in views['section']) != len(body):
        sh.violation('C14:sizes do not tile the extent')
        return
    sh.held()
    for f in feats:
        sh.sig(sigbase[:3] + (f,))
    sh.sig(('layout', sigbase, len(exp) > 0, exp[-1]['n_size'] == 12 if exp else None))
    sh.sample({'class': cls, 'little_endian': le, 'core': core, 'notes': len(exp),
               'first': [(e['n_name'], e['n_type'], len(e['n_descdata'])) for e in exp[:4]]}, kind='notes')


# ---- several views over overlapping extents of one file object (a PT_NOTE segment covering adjacent note sections)
_base_run_case = run_case


def run_case(kind, idx, rng, sh):
    if kind != 'shared':
        return _base_run_case(kind, idx, rng, sh)
    from elftools.elf.elffile import ELFFile
    cls = rng.choice([32, 64])
    le = rng.random() < 0.5
    machine = rng.choice(MACHINES)
    nsec = rng.choice([2, 2, 3])
    parts = []
    for k in range(nsec):
        # every part ends on a 4-byte boundary, so that the sections are adjacent and the segment is one run of notes
        body, exp = notesgen.gen_notes(rng, cls, le, False, machine, count=rng.choice([1, 1, 2, 3]), allow_header_only_last=False)
        if len(body) % 4 or any('props' in e for e in exp):
            body, exp = notesgen.gen_notes(rng, cls, le, False, machine, count=0)
        parts.append((body, exp))
    if not any(b for b, _ in parts):
        sh.skip('no notes generated')
        return
    junk = b'\xa5' * rng.choice([0, 16])

    def mk_secs():
        return [elfgen.Sec('.text', 1, data=b'\xcc' * 8, align=4)] + \
            [elfgen.Sec('.note.p%d' % k, 7, flags=2, data=body, align=4 if k == 0 else 1) for k, (body, exp) in enumerate(parts)] + \
            [elfgen.Sec('.junk', 1, data=junk)]
    secs = mk_secs()
    img, info = elfgen.build(cls=cls, le=le, machine=machine, etype=rng.choice([2, 3]), sections=secs,
                             segments=[elfgen.Seg(type=4, offset=0, filesz=0, align=4), elfgen.Seg(type=4, offset=0, filesz=0, align=4)])
    offs = [info['secs'][info['byname']['.note.p%d' % k]].offset for k in range(nsec)]
    if any(offs[k] + len(parts[k][0]) != offs[k + 1] for k in range(nsec - 1)):
        raise RuntimeError('generated note sections are not adjacent')
    total = sum(len(b) for b, _ in parts)
    segs = [elfgen.Seg(type=4, offset=offs[0], vaddr=offs[0], filesz=total, align=4),
            elfgen.Seg(type=4, offset=offs[-1], vaddr=offs[-1], filesz=len(parts[-1][0]), align=4)]
    img2, info2 = elfgen.build(cls=cls, le=le, machine=machine, etype=2, sections=mk_secs(), segments=segs)
    if len(img2) != len(img) or [info2['secs'][info2['byname']['.note.p%d' % k]].offset for k in range(nsec)] != offs:
        raise RuntimeError('second pass moved the sections')
    st = TracedBytesIO(img2)
    ef = ELFFile(st)
    want = {}
    for k, (body, exp) in enumerate(parts):
        want['section %d' % k] = [expected(e, offs[k], False) for e in exp]
    want['segment all'] = [n for k in range(nsec) for n in want['section %d' % k]]
    want['segment last'] = list(want['section %d' % (nsec - 1)])
    objs = {'segment all': lambda: ef.get_segment(0), 'segment last': lambda: ef.get_segment(1)}
    for k in range(nsec):
        objs['section %d' % k] = (lambda k=k: ef.get_section_by_name('.note.p%d' % k))
    held = {}
    order = [rng.choice(sorted(objs)) for _ in range(rng.choice([4, 6, 10]))] + sorted(objs)
    rng.shuffle(order)
    for step, name in enumerate(order):
        obj = held[name] if name in held and rng.random() < 0.5 else objs[name]()
        held[name] = obj
        poison([st], rng)
        it = PoisonedIter(obj.iter_notes(), [st], rng, sh.counters)
        if rng.random() < 0.25:
            first = next(iter(it), None)            # a walk given up after its first note
            got = [digest(first)] if first is not None else []
            w = want[name][:1]
            how = 'abandoned walk'
        else:
            got = [digest(n) for n in it]
            w = want[name]
            how = 'full walk'
        if got != w:
            sh.violation('C14:shared extents: %s of the %s differs from the encoded notes (after %s)' % (
                how, name.split()[0] + (' over all sections' if name == 'segment all' else ' over the last section' if name == 'segment last' else ''),
                'no other view' if step == 0 else 'other views of the same file object'),
                order=order[:step + 1], got=got[:3], want=w[:3], cls=cls, le=le)
            return
    sh.held(('shared', cls, le, nsec, len(order)), n=len(order))
    sh.sig(('shared-order',) + tuple(o.split()[0] for o in order[:3]))
    sh.sample({'class': cls, 'sections': nsec, 'notes_per_section': [len(e) for _, e in parts], 'views_walked': len(order)}, kind='shared')
