"""C19 - opening arbitrary bytes fails only with ELFError; header enumeration terminates."""
import glob
import io
import os
import random
import tracemalloc

from .. import REPO
from ..core import BudgetExceeded, lib_frame
from ..gen import elfgen, seckinds
from ..monitor import TracedBytesIO, StepMeter

PROP = 'C19'
LEVEL = 'fault_enumeration'
RULE = ('seeds: the repository\'s ELF test binaries under 12 KiB plus generated images of every class/'
        'order carrying every section kind. Fault classes: random byte strings (0-400 bytes, with and '
        'without a valid identification prefix); every truncation length of each seed up to 4 KiB and '
        'at every header-table entry boundary; every single-byte substitution of the first 64 bytes '
        'with {0x00, 0xff, +1, ^0x80}; single-byte substitutions over the whole seed (every byte in '
        'thorough, a seed-rotated stride in quick; this covers section-header, program-header, dynamic, '
        'note, hash and version records); structured corruption of each Ehdr count/size/offset/index '
        'field with {0, 1, max} in all pairs (triples in thorough); random 1-4 field corruptions. For '
        'each case the constructor must return or raise ELFError, and a fixed enumeration battery '
        '(header, sections, segments, symbol counts, hash counts, dynamic tags, notes) runs under a '
        'logical step meter (function entries + taken jumps + stream operations) with budget '
        '50000 + 400 x size and, on every 4th case, a tracemalloc peak limit 4 MiB + 64 x size. '
        'distinct = (fault class, seed, field or region, outcome class).')
ASSUMPTIONS = [
    'time is logical (function entries, taken jumps and stream operations of the traced stream); the '
    'budget constants sit about 10x above the largest per-byte ratio observed over all corrupted cases (reported in the evidence)',
    'memory is the tracemalloc peak for BytesIO inputs; every other measured case reads a real file on disk whose read(n) requests '
    'are watched (and served clipped to the file size, so no gigabyte buffer is really allocated): a request beyond the bound is the observation',
    'any exception ends a battery step normally (the statement allows raising there); only the '
    'constructor is required to raise ELFError',
]
KINDS = {'random': (64, 640, 4), 'trunc': (60, 60, 1), 'hdr64': (60, 60, 1), 'bytes': (960, 960, 0), 'struct': (60, 60, 1),
         'fields': (64, 640, 4)}
FLOOR = {'quick': 30000, 'thorough': 500000}
CASE_TIMEOUT = 900
STEP_A, STEP_B = 50000, 400
MEM_C, MEM_D = 4 << 20, 64
_S = {}


def seeds():
    if 'seeds' in _S:
        return _S['seeds']
    out = []
    for f in sorted(glob.glob(os.path.join(REPO, 'test', 'testfiles_for_*', '*'))):
        if os.path.isfile(f) and os.path.getsize(f) < 12000:
            with open(f, 'rb') as fh:
                d = fh.read()
            if d[:4] == b'\x7fELF':
                out.append((os.path.basename(f), d))
    out = out[:44]
    rng = random.Random(1234)
    from ..gen import notesgen
    for cls in (32, 64):
        for le in (True, False):
            for machine in (62, 40):
                secs = seckinds.companion_set(random.Random(cls + le + machine), cls, le, machine)
                # take the whole family deterministically
                full = seckinds.companion_set(random.Random(7), cls, le, machine)
                names = {s.name for s in full}
                body, _ = notesgen.gen_notes(random.Random(3), cls, le, False, machine, count=3)
                full.append(elfgen.Sec('.note.gnu', 7, flags=2, data=body, align=4))
                segs = [elfgen.Seg(type=1, sec='.dynsym', vaddr=0x1000), elfgen.Seg(type=4, sec='.note.gnu', vaddr=0x3000)]
                if '.dynamic' in names:
                    segs.append(elfgen.Seg(type=2, sec='.dynamic', vaddr=0x2000))
                img, _ = elfgen.build(cls=cls, le=le, machine=machine, etype=3, sections=full, segments=segs)
                out.append(('gen-%d-%s-%d' % (cls, 'le' if le else 'be', machine), img))
    _S['seeds'] = out
    return out


def setup_worker():
    _S['meter'] = StepMeter()


def battery(ef):
    from elftools.elf.sections import SymbolTableSection, NoteSection
    from elftools.elf.dynamic import DynamicSection, DynamicSegment
    from elftools.elf.segments import NoteSegment
    from elftools.elf.hash import ELFHashSection, GNUHashSection

    def step(f):
        try:
            f()
        except (BudgetExceeded, MemoryError):
            raise
        except Exception:
            pass
    step(lambda: ef.num_sections())
    step(lambda: ef.num_segments())
    secs, segs = [], []

    def s1():
        for s in ef.iter_sections():
            secs.append(s)

    def s2():
        for s in ef.iter_segments():
            segs.append(s)
    step(s1)
    step(s2)
    for s in secs:
        if isinstance(s, SymbolTableSection):
            step(lambda: s.num_symbols())
        if isinstance(s, (ELFHashSection, GNUHashSection)):
            step(lambda: s.get_number_of_symbols())
        if isinstance(s, DynamicSection):
            step(lambda: list(s.iter_tags()))
            step(lambda: s.num_tags())
        if isinstance(s, NoteSection):
            step(lambda: list(s.iter_notes()))
    for g in segs:
        if isinstance(g, DynamicSegment):
            step(lambda: list(g.iter_tags()))
            step(lambda: g.num_symbols())
        if isinstance(g, NoteSegment):
            step(lambda: list(g.iter_notes()))
    return len(secs), len(segs)


class AskedReads:
    """A real file whose read(n) is watched: the request is recorded with the library frame that made it and then served
    clipped to the file size, so that no gigabyte buffer is really allocated while the request itself is the observation."""

    def __init__(self, f, size):
        self._f, self._size, self.worst = f, size, None

    def read(self, n=-1):
        if n is not None and n > self._size + 4096:
            if self.worst is None or n > self.worst[0]:
                import sys as _sys
                fr = _sys._getframe(1)
                while fr is not None and '/elftools/' not in fr.f_code.co_filename:
                    fr = fr.f_back
                self.worst = (n, '%s:%s' % (os.path.basename(fr.f_code.co_filename), fr.f_code.co_name) if fr else '?')
            n = self._size + 4096
        return self._f.read(n)

    def __getattr__(self, name):
        return getattr(self._f, name)


def run_one(sh, data, what, memcheck):
    """-> outcome class; records violations."""
    from elftools.elf.elffile import ELFFile
    from elftools.common.exceptions import ELFError
    meter = _S['meter']
    st = TracedBytesIO(data)
    disk = None
    if memcheck and len(data) % 2 == 0:
        # every other measured case reads a real file on disk (a buffered reader allocates what it is ASKED to read, a
        # BytesIO only what is there: a size field believed without a look at the file shows here)
        import tempfile
        if 'dir' not in _S:
            _S['dir'] = tempfile.mkdtemp(prefix='vf-c19-')
            import atexit, shutil
            atexit.register(shutil.rmtree, _S['dir'], True)
        path = os.path.join(_S['dir'], 'case.bin')
        with open(path, 'wb') as f:
            f.write(data)
        disk = st = AskedReads(open(path, 'rb'), len(data))
        sh.counters['cases_read_from_a_file_on_disk'] += 1
    budget = STEP_A + STEP_B * len(data)
    if memcheck:
        tracemalloc.start()
    meter.start(budget)
    outcome = None
    try:
        try:
            ef = ELFFile(st)
        except ELFError:
            outcome = 'ctor-ELFError'
        except BudgetExceeded:
            meter.stop()
            sh.note_violation('C19:constructor exceeds the step budget (%s)' % what[0], what=what, size=len(data), input=data[:128])
            return 'budget'
        except Exception as e:
            meter.stop()
            sh.note_violation('C19:constructor raises %s@%s' % (type(e).__name__, lib_frame(e)), what=what, size=len(data),
                              message=str(e)[:120], input=data[:128])
            return 'ctor-other'
        if outcome is None:
            try:
                battery(ef)
                outcome = 'battery-done'
            except BudgetExceeded as e:
                meter.stop()
                sh.note_violation('C19:enumeration exceeds the step budget@%s' % lib_frame(e), what=what, size=len(data),
                                  budget=budget, input=data[:128])
                return 'budget'
    finally:
        steps = meter.stop()
        if disk is not None:
            disk.close()
            st = TracedBytesIO(b'')         # (no stream operation count for the real file)
            if disk.worst and disk.worst[0] > MEM_C + MEM_D * len(data):
                sh.note_violation('C19:a read of far more bytes than the file holds is requested from a real file (the buffered reader '
                                  'allocates the requested size)@%s' % disk.worst[1], what=what, size=len(data), requested=disk.worst[0],
                                  input=data[:128])
        if memcheck:
            peak = tracemalloc.get_traced_memory()[1]
            tracemalloc.stop()
            if peak > MEM_C + MEM_D * len(data):
                sh.note_violation('C19:allocation peak %d bytes exceeds the bound' % peak, what=what, size=len(data), input=data[:128])
            sh.extra['max_alloc_peak'] = max(sh.extra.get('max_alloc_peak', 0), peak)
    sh.extra['max_steps_per_byte_x100'] = max(sh.extra.get('max_steps_per_byte_x100', 0), (steps + st.ops) * 100 // max(len(data), 64))
    sh.extra['max_steps_one_case'] = max(sh.extra.get('max_steps_one_case', 0), steps + st.ops)
    sh.counters['steps_total'] += steps
    sh.counters['stream_ops_total'] += st.ops
    if steps + st.ops > budget:
        sh.note_violation('C19:step budget exceeded (incl. stream operations)', what=what, size=len(data))
    return outcome


def ehdr_fields(d):
    if len(d) < 52:
        return {}
    if d[4] == 2:
        return {'e_type': (16, 2), 'e_machine': (18, 2), 'e_phoff': (32, 8), 'e_shoff': (40, 8), 'e_ehsize': (52, 2), 'e_phentsize': (54, 2),
                'e_phnum': (56, 2), 'e_shentsize': (58, 2), 'e_shnum': (60, 2), 'e_shstrndx': (62, 2)}
    return {'e_type': (16, 2), 'e_machine': (18, 2), 'e_phoff': (28, 4), 'e_shoff': (32, 4), 'e_ehsize': (40, 2), 'e_phentsize': (42, 2),
            'e_phnum': (44, 2), 'e_shentsize': (46, 2), 'e_shnum': (48, 2), 'e_shstrndx': (50, 2)}


def table_boundaries(d):
    F = ehdr_fields(d)
    if not F or len(d) < 64:
        return []
    order = 'little' if d[5] == 1 else 'big'

    def rd(k):
        o, w = F[k]
        return int.from_bytes(d[o:o + w], order)
    out = []
    for off, ent, num in ((rd('e_shoff'), rd('e_shentsize'), rd('e_shnum')), (rd('e_phoff'), rd('e_phentsize'), rd('e_phnum'))):
        if off and ent and num < 200:
            out += [off + i * ent + k for i in range(num + 1) for k in (-1, 0, 1)]
    return [x for x in out if 0 <= x <= len(d)]


def run_case(kind, idx, rng, sh):
    import itertools
    S = seeds()
    n = 0
    outcomes = {}

    def go(data, what):
        nonlocal n
        n += 1
        o = run_one(sh, data, what, memcheck=(n % 4 == 0))
        outcomes[o] = outcomes.get(o, 0) + 1
        sh.sig((what[0], what[1] if len(what) > 1 else None, what[2] if len(what) > 2 and isinstance(what[2], str) else None, o))
    if kind == 'random':
        for k in range(300):
            ln = rng.choice([0, 1, 4, 5, 6, 15, 16, 20, 51, 52, 63, 64, 100, 400])
            b = bytes(rng.getrandbits(8) for _ in range(ln))
            mode = rng.choice(['raw', 'ident', 'ident+hdr'])
            if mode != 'raw':
                b = (b'\x7fELF' + bytes([rng.choice([1, 2]), rng.choice([1, 2])]) + b)[:max(ln, 6)]
            if mode == 'ident+hdr' and len(b) >= 52:
                # plausible small counts so that the constructor goes further
                b = bytearray(b)
                b[16:20] = bytes([rng.randrange(5), 0, rng.choice([3, 62, 40, 8]), 0])
                b = bytes(b)
            go(b, ('random', mode, 'len%d' % min(ln, 64)))
    elif kind == 'trunc':
        name, d = S[idx % len(S)]
        cuts = set(range(0, min(len(d), 4096) + 1)) if sh.tier == 'thorough' else \
            set(range(0, min(len(d), 200))) | set(range(idx % 7, min(len(d), 4096), 7))
        cuts |= set(table_boundaries(d))
        for c in sorted(cuts):
            go(d[:c], ('truncation', name, 'at-table-boundary' if c in table_boundaries(d) else 'any'))
    elif kind == 'hdr64':
        name, d = S[idx % len(S)]
        for i in range(min(64, len(d))):
            for v in (0x00, 0xff, (d[i] + 1) & 0xff, d[i] ^ 0x80):
                if v != d[i]:
                    b = bytearray(d)
                    b[i] = v
                    go(bytes(b), ('header-byte', name, 'byte%d' % i))
    elif kind == 'bytes':
        # every byte (thorough) / a rotating stride (quick) of each seed, 16 shards per seed
        name, d = S[(idx // 16) % len(S)]
        shard = idx % 16
        step = 1 if sh.tier == 'thorough' else 12
        start = (shard + 16 * ((sh.seed + idx // 16) % step)) if step > 1 else shard
        for i in range(start, len(d), 16 * step if step > 1 else 16):
            for v in (0x00, 0xff, (d[i] + 1) & 0xff, d[i] ^ 0x80):
                if v != d[i]:
                    b = bytearray(d)
                    b[i] = v
                    go(bytes(b), ('any-byte', name, 'region%d' % (i * 8 // max(len(d), 1))))
    elif kind == 'struct':
        name, d = S[idx % len(S)]
        F = ehdr_fields(d)
        order = 'little' if len(d) > 5 and d[5] == 1 else 'big'
        r = 3 if sh.tier == 'thorough' else 2
        for combo in itertools.combinations(list(F), r):
            for vals in itertools.product((0, 1, 'max'), repeat=r):
                b = bytearray(d)
                for k, v in zip(combo, vals):
                    o, w = F[k]
                    x = (1 << (8 * w)) - 1 if v == 'max' else v
                    b[o:o + w] = x.to_bytes(w, order)
                go(bytes(b), ('ehdr-fields', name, '+'.join(combo)))
    else:
        for k in range(300):
            name, d = rng.choice(S)
            b = bytearray(d)
            for _ in range(rng.randint(1, 4)):
                w = rng.choice([1, 2, 4, 8])
                o = rng.randrange(0, max(1, len(b) - w))
                o -= o % rng.choice([1, 4])
                x = rng.choice([0, 1, (1 << (8 * w)) - 1, 1 << (8 * w - 1), rng.getrandbits(8 * w)])
                b[o:o + w] = x.to_bytes(w, 'little' if len(d) > 5 and d[5] == 1 else 'big')
            go(bytes(b), ('random-fields', name))
    sh.held(n=n)
    sh.extra['max_seeds_loaded'] = len(S)
    for o, c in outcomes.items():
        sh.count('outcome:' + str(o), c)
    sh.sample({'fault_class': kind, 'cases': n, 'outcomes': outcomes}, kind=kind)


def finish(m, tier, seed):
    return {'calibration': {'step_budget': '%d + %d x size' % (STEP_A, STEP_B), 'memory_bound': '%d + %d x size' % (MEM_C, MEM_D)}}
