"""C18 - the readelf clone prints what GNU readelf prints."""
import glob
import json
import os
import re
import platform
import random
import subprocess
import struct
import sys
from difflib import SequenceMatcher

from .. import REPO, VERIF_DIR
from .. import oracles
from ..gen import elfgen, dwtab
from ..gen.leb import uleb

PROP = 'C18'
LEVEL = 'translation_validation'
RULE = ('(file, option) pairs run through GNU readelf 2.40 and `python scripts/readelf.py` from the '
        'repository root, compared with a vendored frozen copy of the project\'s compare_output. Kinds: (corpus) the '
        'regression corpus x the 18 options of the project\'s runner with its own skip rules (quick: a seed-rotated third '
        'covering every option; thorough: all); (compiled) gcc shared/relocatable objects of /verif/corpus/src at DWARF 2-5 x '
        '-O0/-O2, clang objects for 8 targets at DWARF 2/4 (+5 for four of them), g++/clang++/gfortran/rustc objects, fully linked '
        'programs (PIE, non-PIE, C++, clang; linker options for hash style, RELRO, build id, rpath, version script), their objcopy/'
        'strip products, -m32/-mx32/-gz/-gdwarf64/-fdebug-types-section variants; (system) programs and libraries of the image '
        '(libc, libm, libstdc++, libgcc_s, ld.so, ls, readelf, gdb) with the header, symbol, dynamic, relocation, note, version '
        'and frame options; '
        '(descr) one synthesized file per entry of the clone\'s ELF description tables (e_machine, e_type, OS ABI, machine flags, '
        'sh_type, sh_flags, p_type, p_flags, symbol type/bind/visibility/shndx, dynamic tags per machine/OS, DT_FLAGS, '
        'DT_FLAGS_1, DT_MIPS_FLAGS, note types and GNU property bits, relocation types of 9 machines) printed with the option '
        'that shows it; (dwdescr) one DIE / frame instruction / attribute per entry of the DWARF and build-attribute tables '
        '(DW_OP per machine and in a 64-bit-format unit, regx/bregx over each register table, DW_TAG, DW_AT by class, DW_FORM, '
        'value enumerations, DW_UT, DW_CFA, ARM and RISC-V attributes), judged entry by entry; (generated) linker/compiler-'
        'shaped files from the envelope generators (versions, notes, symtab, relocs, layout, dumps, lines, frames, names, '
        'loclists); (inprocess) one interpreter dumps a sequence of 70-odd files through the clone\'s main() - two files of one '
        'layout whose import attributes hold the same offset but name different entries, alternated 25 times, then pairs of '
        'generated files of three families and two table files in random order - and every text must equal what a process of '
        'its own prints for that file and option (which the other kinds compare with GNU readelf). A pair is non-trivial when both programs print at least 3 lines; a table entry is non-trivial always. '
        'programs = pairs + table entries compared.')
ASSUMPTIONS = [
    'oracle: GNU readelf 2.40 (the project pins >= 2.41); pairs where 2.40 is known to print an older layout '
    '(--debug-dump=loc/Ranges on .debug_loclists/.debug_rnglists) or not to relocate (LoongArch objects) are excluded',
    'for a description-table entry, if GNU readelf itself prints a placeholder (<unknown>, <processor specific>, a bare '
    'hex code) the oracle has no name and the entry is unjudged; differences recorded in oracle_gaps_C18.json '
    'could not be decided offline and are unjudged as well',
    'the tolerated differences are exactly those of the project\'s compare_output (vendored copy), except that the last legend '
    'line is compared after removing the three items the project tolerates (R (retain), D (mbind), l (large))',
    'when GNU readelf exits with an error for a file, the pair is judged only if both programs still print the same; otherwise '
    'the file counts as outside the envelope (unjudged, counted under skipped)',
    'an OPEN finding that is a fixed difference of wording (TEXT_FINDINGS) is rewritten in the GNU output before comparison and counted',
    'base-address selection entries of .debug_loc/.debug_ranges are compared after normalisation: readelf 2.40 prints "offset ffffffff '
    'base (base address)", 2.41 and the clone "offset base (base address)"; the base value is compared modulo zero padding',
    'string dumps (-p) are generated from 7-bit bytes without DEL: bytes >= 0x80 depend on the locale and GNU prints DEL as "^" + 0xbf',
    'notes are generated without annobin/stapsdt owners, RELR sections are not displayed by the clone, core-file notes live in '
    'segments the clone does not print: files with those features are skipped for the option concerned',
]
KINDS = {'corpus': (288, 1011, 0), 'system': (22, 64, 1), 'compiled': (32, 86, 1), 'descr': (64, 64, 2), 'dwdescr': (40, 40, 1), 'generated': (260, 2600, 4), 'inprocess': (16, 96, 1)}
FLOOR = {'quick': 150, 'thorough': 600}
CASE_TIMEOUT = 1200
OPTIONS = ['-e', '-d', '-s', '-n', '-r', '-x.text', '-p.shstrtab', '-V', '--debug-dump=info', '--debug-dump=decodedline',
           '--debug-dump=frames', '--debug-dump=frames-interp', '--debug-dump=aranges', '--debug-dump=pubtypes',
           '--debug-dump=pubnames', '--debug-dump=loc', '--debug-dump=Ranges', '--arch-specific']


# ---------------------------------------------------------------- vendored compare_output (frozen copy of
# test/run_readelf_tests.py:compare_output at the pinned commit; the documented tolerated differences)
def compare_output(s1, s2):
    def prepare_lines(s):
        return [line for line in s.lower().splitlines() if line.strip()]
    lines1 = prepare_lines(s1)
    lines2 = prepare_lines(s2)
    flag_in_debug_line_section = False
    if len(lines1) != len(lines2):
        return False, 'Number of lines different: %s vs %s' % (len(lines1), len(lines2))
    view_col_position = -1
    for i in range(len(lines1)):
        if lines1[i].endswith('debug_line section:'):
            flag_in_debug_line_section = True
        lines1[i] = lines1[i].replace('procesor-specific type', 'processor-specific type')
        if view_col_position >= 0 and lines1[i].startswith('cu:'):
            view_col_position = -1
        if flag_in_debug_line_section and lines1[i].startswith('file name') and view_col_position < 0:
            view_col_position = lines1[i].find("view")
            stmt_col_position = lines1[i].find("stmt")
        if view_col_position >= 0 and not lines1[i].endswith(':'):
            lines1[i] = lines1[i][:view_col_position] + lines1[i][stmt_col_position:]
        lines1_parts = lines1[i].split()
        lines2_parts = lines2[i].split()
        if ''.join(lines1_parts) != ''.join(lines2_parts):
            ok = False
            try:
                if (''.join(lines1_parts[:-1]) == ''.join(lines2_parts[:-1]) and
                        int(lines1_parts[-1], 16) == int(lines2_parts[-1], 16)):
                    ok = True
            except (ValueError, IndexError):
                pass
            if '[...]' in lines1[i]:
                p1 = p2 = ''
                dots_start = -1
                for p1, p2 in zip(lines1_parts, lines2_parts):
                    dots_start = p1.find('[...]')
                    if dots_start != -1:
                        break
                ok = p1.endswith('[...]') and p1[:dots_start] == p2[:dots_start]
                if not ok:
                    dots_end = dots_start + 5
                    if len(p1) > dots_end and p1[dots_end] == '@':
                        ok = (p1[:dots_start] == p2[:dots_start] and p1[p1.rfind('@'):] == p2[p2.rfind('@'):])
            elif 'at_const_value' in lines1[i]:
                val = lines2_parts[-1]
                try:
                    num2 = int(val, 16 if val.startswith('0x') else 10)
                    if num2 <= -2 ** 31 and '32' in platform.architecture()[0]:
                        ok = True
                except ValueError:
                    pass
            elif 'os/abi' in lines1[i]:
                if 'unix - gnu' in lines1[i] and 'unix - linux' in lines2[i]:
                    ok = True
            elif len(lines1_parts) == 3 and lines1_parts[2] == 'nt_gnu_property_type_0':
                ok = lines1_parts == lines2_parts[:3]
            else:
                for s in ('t (tls)', 'l (large)', 'd (mbind)'):
                    if s in lines1[i] or s in lines2[i]:
                        ok = True
                        break
                if ok and 'p (processor specific)' in lines1[i] and 'p (processor specific)' in lines2[i]:
                    # the last line of the flag legend: the project's comparison lets it pass because the clone has no
                    # 'R (retain)', 'D (mbind)' and 'l (large)'; the other machine-specific letters on the line are still compared
                    items = lambda ln: [t.strip() for t in ln.split(',') if t.strip() not in ('r (retain)', 'd (mbind)', 'l (large)')]
                    ok = items(lines1[i]) == items(lines2[i])
            if not ok:
                return False, 'Mismatch on line #%s:\n>>%s<<\n>>%s<<' % (i, lines1[i], lines2[i])
    return True, ''


def project_skips(filename, option):
    """The skip rules of the project's runner (same frozen copy)."""
    base = os.path.basename(filename)
    if base.endswith('dwarf_debug_types.elf') and option in ('--debug-dump=frames', '--debug-dump=frames-interp', '--debug-dump=aranges'):
        return True
    if 'core' in filename and option == '-n':
        return True
    if 'dwarf_v4cie' in filename and option in ('--debug-dump=frames-interp', '--debug-dump=aranges'):
        return True
    if option in ('-A', '--arch-specific') and '-eabi-' not in filename:
        return True
    return False


def section_names(path):
    try:
        with open(path, 'rb') as f:
            d = f.read()
        from .c11 import read_sections
        cls, le, mach, etype, secs = read_sections(d)
        return {s[0] for s in secs}, mach, etype
    except Exception:
        return set(), None, None


def oracle_age_skip(path, option):
    names, mach, etype = section_names(path)
    if option in ('--debug-dump=loc', '--debug-dump=Ranges') and (names & {'.debug_loclists', '.debug_rnglists'}):
        return 'readelf 2.40 prints v5 location/range lists in an older layout'
    if mach == 258 and etype == 1 and option.startswith('--debug-dump'):
        return 'readelf 2.40 does not apply LoongArch relocations to debug sections'
    return None


_BASE_RE = re.compile(r'^(\s*[0-9a-fA-F]{8}) (?:[fF]{8}|[fF]{16}) ([0-9a-fA-F]+ \(base address\))', re.M)
_BASE_VAL = re.compile(r'^(\s*[0-9a-fA-F]{8}) 0*([0-9a-fA-F]+) \(base address\)', re.M)


def norm_base_lines(text):
    """Base-address selection entries of .debug_loc/.debug_ranges: readelf 2.40 prints 'offset ffffffff base (base address)',
    2.41 and the clone 'offset base (base address)'; the base is compared modulo zero padding (a tolerated difference the
    project's comparator only implements for the last token of a line)."""
    text = _BASE_RE.sub(r'\1 \2', text)
    return _BASE_VAL.sub(r'\1 \2 (base address)', text)


def run_pair(path, option, timeout=600):
    """-> ('ok' | 'diff' | 'rc' | 'skip', message, (n_lines_gnu, n_lines_clone))"""
    r1 = oracles.run(['readelf', option, path], timeout=timeout, cwd=REPO)
    r2 = oracles.run([sys.executable, 'scripts/readelf.py', option, path], timeout=timeout, cwd=REPO)
    if r1[0] == -999 or r2[0] == -999:
        return 'skip', 'timeout', (0, 0)
    n = (len(r1[1].splitlines()), len(r2[1].splitlines()))
    if 'Traceback (most recent call last)' in r2[2]:
        return 'rc', 'clone raised: ' + r2[2].strip().splitlines()[-1][:160], n
    if r1[0] != 0 and r2[0] != 0:
        return 'skip', 'both programs reject the file', n
    if r2[0] != 0:
        return 'rc', 'return codes differ: readelf %s, clone %s: %s' % (r1[0], r2[0], (r2[2] or r1[2]).strip()[-160:]), n
    o1, o2 = r1[1], r2[1]
    if r1[0] != 0:
        # GNU readelf reports an error for the file and still prints: the file is outside the envelope unless both print the same
        o1n = apply_text_findings(o1, o2)
        if compare_output(o1n, o2)[0]:
            return 'ok', '', n
        return 'skip', 'GNU readelf reports an error for this file: ' + r1[2].strip()[-120:], n
    if option in ('--debug-dump=loc', '--debug-dump=Ranges'):
        o1, o2 = norm_base_lines(o1), norm_base_lines(o2)
    o1 = apply_text_findings(o1, o2)
    ok, msg = compare_output(o1, o2)
    return ('ok' if ok else 'diff'), msg, n


# OPEN findings that are a fixed difference of wording: (finding id, text GNU readelf prints, text the clone prints). While the
# finding is open the GNU wording is rewritten to the clone's wherever the clone's output lacks the GNU wording, every
# rewritten output is counted under the finding, and the rest of the output is compared as usual.
TEXT_FINDINGS = [('push_tls_address_hp_alias', 'DW_OP_GNU_push_tls_address or DW_OP_HP_unknown', 'DW_OP_GNU_push_tls_address')]
OPEN_NOW = set()            # ids of the open findings of this run (set by run_case)
APPLIED = []                # findings applied by the comparisons of the current case


def apply_text_findings(gnu, clone):
    for fid, gtext, ctext in TEXT_FINDINGS:
        if fid in OPEN_NOW and gtext in gnu and gtext not in clone and ctext in clone:
            gnu = gnu.replace(gtext, ctext)
            APPLIED.append(fid)
    return gnu


EXTRA_OPTIONS = ['-S', '-l', '-h']      # the parts of -e on their own: they print headings of their own


def corpus_pairs(extra=False):
    files = sorted(f for f in glob.glob(os.path.join(REPO, 'test', 'testfiles_for_readelf', '*.elf')))
    files = [f for f in files if os.path.getsize(f) > 0]
    return [(f, o) for f in files for o in OPTIONS] + ([(f, o) for f in files for o in EXTRA_OPTIONS] if extra else [])


SYSTEM_FILES = ['/lib/x86_64-linux-gnu/libm.so.6', '/lib/x86_64-linux-gnu/libgcc_s.so.1', '/usr/bin/ls', '/lib/x86_64-linux-gnu/libc.so.6',
                '/usr/lib/x86_64-linux-gnu/libstdc++.so.6', '/lib64/ld-linux-x86-64.so.2', '/usr/bin/readelf', '/usr/bin/gdb']
SYSTEM_OPTIONS = ['-e', '-s', '-d', '-r', '-n', '-V', '--debug-dump=frames', '--debug-dump=frames-interp']


def system_pairs():
    """Programs and libraries of the image itself (linked by the distribution's toolchain): a workload no generator of mine
    shaped. A file that is absent is skipped; features the clone has no code for are skipped with a counted reason."""
    return [(f, o) for f in SYSTEM_FILES for o in SYSTEM_OPTIONS]


def system_skip(path, option):
    names, mach, etype = section_names(path)
    if option == '-r' and '.relr.dyn' in names:
        return 'the clone has no display of RELR relocation sections'
    if option == '-n' and '.note.stapsdt' in names:
        return 'SystemTap probe notes are not decoded by the clone'
    return None


def load_gaps():
    try:
        with open(os.path.join(VERIF_DIR, 'oracle_gaps_C18.json')) as f:
            return json.load(f)['gaps']
    except FileNotFoundError:
        return []


def known_c18(sh, kind, ident, gnu, clone):
    """An OPEN finding lists the exact entries it explains (findings/C18/<id>.json); anything else is a violation."""
    for fid in sorted(sh.quirks):
        try:
            with open(os.path.join(VERIF_DIR, 'findings', 'C18', fid + '.json')) as f:
                ents = json.load(f)['entries']
        except FileNotFoundError:
            continue
        for e in ents:
            if e['kind'] == kind and e['id'] == ident and e['gnu'].lower() in gnu.lower() and e['clone'].lower() in clone.lower():
                sh.known_finding(fid)
                return True
    return False


def gap_matches(kind, ident, msg):
    for g in load_gaps():
        if g['kind'] == kind and g['id'] == ident and g['gnu'].lower() in msg.lower() and g['clone'].lower() in msg.lower():
            return True
    return False


def judge(sh, what, path, option, ident, kind):
    why = oracle_age_skip(path, option)
    if why:
        sh.skip('oracle age: ' + why)
        return
    res, msg, n = run_pair(path, option)
    sh.count('pairs_run')
    sh.count('pairs_run:' + kind)
    if res == 'skip':
        sh.skip(msg)
        return
    if res == 'ok':
        sh.held(sig=(kind, ident, option) if min(n) >= 3 else None)
        sh.count('pairs_equal')
        sh.sample({'file': ident, 'option': option, 'lines': n[0]}, kind=kind)
        return
    fid = 'zero_range_of_object_taken_for_terminator'
    if option == '--debug-dump=loc' and fid in sh.quirks and section_names(path)[2] == 1:
        g = oracles.run(['readelf', option, path], cwd=REPO)[1]
        if ZERO_RANGE.search(g):
            sh.known_finding(fid)       # the object holds a range that relocates to (0, 0): the open finding explains the difference
            return
    ml = msg.splitlines()
    if res == 'diff' and option in ('--debug-dump=loc', '--debug-dump=Ranges') and len(ml) > 2 and '(base address)' in ml[1] and \
            'ffffffff' in ml[1] and '(base address)' in ml[2]:
        sh.skip('oracle age: readelf 2.40 prints base-address selection entries as "offset ffffffff base", 2.41 (and the clone) as "offset base"')
        return
    if gap_matches(kind, '%s %s' % (ident, option), msg):
        sh.count('pairs_unjudged_oracle_gap')
        sh.skip('oracle gap (oracle_gaps_C18.json)')
        return
    sh.violation('C18:%s %s %s: %s' % (kind, ident, option, 'python traceback / return code' if res == 'rc' else 'output differs'),
                 message=msg[:600], lines=n)


# ---------------------------------------------------------------- compiled files
GCC_CFG = [(v, o, k) for v in (2, 3, 4, 5) for o in ('-O0', '-O2') for k in ('so', 'o')]
CLANG_TARGETS = [('x86_64-linux-gnu', True), ('i386-linux-gnu', True), ('arm-linux-gnueabi', True), ('aarch64-linux-gnu', True),
                 ('mips-linux-gnu', False), ('mips64-linux-gnuabi64', False), ('powerpc64le-linux-gnu', False), ('s390x-linux-gnu', False),
                 ('armeb-linux-gnueabi', True), ('aarch64_be-linux-gnu', True), ('mipsel-linux-gnu', False), ('mips64el-linux-gnuabi64', False),
                 ('powerpc64-linux-gnu', False)]
CLANG_CFG = [(t, regs, v) for t, regs in CLANG_TARGETS for v in (2, 4)] + [(t, regs, 5) for t, regs in CLANG_TARGETS[:4]]
COMPILED_OPTS = ['-e', '-s', '-r', '-n', '-d', '-V', '-A', '--debug-dump=info', '--debug-dump=decodedline', '--debug-dump=frames',
                 '--debug-dump=frames-interp', '--debug-dump=aranges', '--debug-dump=loc', '--debug-dump=Ranges', '--debug-dump=pubnames']


OTHER_CFG = [('g++', 'c.cpp', ['-gdwarf-%d' % v, o, '-fPIC', '-c'], 'g++-dwarf%d%s.o' % (v, o)) for v in (4, 5) for o in ('-O0', '-O2')] + \
    [('clang++', 'c.cpp', ['-gdwarf-4', '-O1', '-c'], 'clang++-dwarf4.o'),
     ('gfortran', 'd.f90', ['-gdwarf-4', '-O0', '-c'], 'gfortran-dwarf4.o'), ('gfortran', 'd.f90', ['-gdwarf-5', '-O1', '-c'], 'gfortran-dwarf5.o'),
     ('rustc', 'e.rs', ['-g', '--emit=obj'], 'rustc.o'),
     # fully linked programs: interpreter, dynamic section, symbol versions of libc/libstdc++, PLT relocations, TLS, RELRO, notes
     ('gcc', ('m.c', 'a.c', 'b.c'), ['-g', '-O1'], 'gcc-exe-pie'), ('gcc', ('m.c', 'a.c', 'b.c'), ['-gdwarf-4', '-O2', '-no-pie'], 'gcc-exe-nopie-dwarf4'),
     ('g++', ('mm.cpp', 'c.cpp'), ['-g', '-O1'], 'g++-exe'), ('clang', ('m.c', 'a.c', 'b.c'), ['-gdwarf-4', '-O1'], 'clang-exe-dwarf4'),
     ('gcc', ('m.c', 'a.c', 'b.c'), ['-gdwarf-4', '-fdebug-types-section', '-O1'], 'gcc-exe-types4'),
     ('gcc', 'a.c', ['-g', '-O1', '-m32', '-c'], 'gcc-m32.o'), ('gcc', 'a.c', ['-g', '-gz', '-O1', '-c'], 'gcc-gz.o'),
     ('gcc', 'a.c', ['-gdwarf-5', '-gdwarf64', '-O1', '-c'], 'gcc-dwarf64.o'),
     # linker options that shape the dynamic section, hash tables, notes and version sections
     ('gcc', ('a.c', 'b.c'), ['-g', '-O1', '-fPIC', '-shared', '-Wl,--version-script=' + os.path.join(VERIF_DIR, 'corpus', 'src', 'vers.map'),
                              '-Wl,-soname,libcx.so.1'], 'gcc-so-verdef'),
     ('gcc', ('m.c', 'a.c', 'b.c'), ['-g', '-O1', '-Wl,--hash-style=both', '-Wl,-z,now', '-Wl,--build-id=md5', '-Wl,-rpath=/opt/lib',
                                     '-Wl,--disable-new-dtags', '-Wl,-z,nodelete'], 'gcc-exe-ldopts1'),
     ('gcc', ('m.c', 'a.c', 'b.c'), ['-g', '-O1', '-Wl,--hash-style=sysv', '-Wl,-z,norelro', '-Wl,--build-id=0xabcdef0123456789', '-Wl,-rpath=/opt/lib',
                                     '-Wl,-z,execstack', '-Wl,-z,ibt,-z,shstk', '-Wl,-z,separate-code'], 'gcc-exe-ldopts2'),
     # the same program after the binutils tools worked on it
     ('gcc', ('m.c', 'a.c', 'b.c'), ['-g', '-O1'], 'gcc-exe-only-keep-debug', [['objcopy', '--only-keep-debug', '{in}', '{out}']]),
     ('gcc', ('m.c', 'a.c', 'b.c'), ['-g', '-O1'], 'gcc-exe-zlib', [['objcopy', '--compress-debug-sections=zlib', '{in}', '{out}']]),
     ('gcc', ('m.c', 'a.c', 'b.c'), ['-g', '-O1'], 'gcc-exe-zlib-gnu', [['objcopy', '--compress-debug-sections=zlib-gnu', '{in}', '{out}']]),
     ('gcc', ('m.c', 'a.c', 'b.c'), ['-g', '-O1'], 'gcc-exe-stripped', [['strip', '-o', '{out}', '{in}']]),
     ('gcc', 'a.c', ['-g', '-O1', '-c', '-ffunction-sections', '-fdata-sections'], 'gcc-sections.o'),
     ('gcc', ('a.c', 'b.c'), ['-m32', '-g', '-O1', '-fPIC', '-shared', '-nostdlib', '-Wl,--hash-style=both',
                              '-Wl,--version-script=' + os.path.join(VERIF_DIR, 'corpus', 'src', 'vers.map')], 'gcc-m32-so-verdef'),
     ('gcc', 'a.c', ['-mx32', '-g', '-O1', '-c'], 'gcc-x32.o'), ('g++', 'c.cpp', ['-m32', '-g', '-O1', '-w', '-c'], 'g++-m32.o'),
     # large entry trees: every type of a dozen system headers, a C++ program using the standard containers
     ('gcc', 'big.c', ['-gdwarf-4', '-O1', '-fno-eliminate-unused-debug-types', '-c'], 'gcc-big-dwarf4.o'),
     ('gcc', 'big.c', ['-gdwarf-5', '-O1', '-fno-eliminate-unused-debug-types', '-c'], 'gcc-big-dwarf5.o'),
     ('g++', 'big.cpp', ['-gdwarf-4', '-O1', '-c'], 'g++-big-dwarf4.o'), ('g++', 'big.cpp', ['-gdwarf-5', '-O2', '-c'], 'g++-big-dwarf5.o'),
     ('g++', 'big.cpp', ['-gdwarf-4', '-O1'], 'g++-big-exe-dwarf4'),
     # programs of other front ends, linked with their run-time libraries (the Rust one carries the debug info of std: ~470000 lines)
     ('rustc', 'main.rs', ['-g'], 'rustc-exe'), ('gfortran', 'fmain.f90', ['-g', '-O1'], 'gfortran-exe'),
     ('clang++', ('mm.cpp', 'c.cpp'), ['-g', '-O1', '-gdwarf-4'], 'clang++-exe-dwarf4'),
     # relocation sections kept in a linked file, large-model sections, RELR, and the dynamic tags of rarely used linker options
     ('gcc', ('m.c', 'a.c', 'b.c'), ['-g', '-O1', '-Wl,--emit-relocs', '-Wl,--gc-sections'], 'gcc-exe-emit-relocs'),
     ('gcc', 'med.c', ['-g', '-O1', '-mcmodel=medium', '-mlarge-data-threshold=1000', '-c'], 'gcc-medium-model.o'),
     ('gcc', ('m.c', 'a.c', 'b.c'), ['-g', '-O1', '-Wl,-z,pack-relative-relocs'], 'gcc-exe-relr'),
     ('gcc', ('a.c', 'b.c'), ['-g', '-O1', '-fPIC', '-shared', '-Wl,-Bsymbolic', '-Wl,-z,initfirst', '-Wl,-z,interpose', '-Wl,-z,origin', '-Wl,-z,global',
                              '-Wl,-z,nodlopen', '-Wl,-z,nodump', '-Wl,--audit=libaudit.so', '-Wl,--depaudit=libdep.so', '-Wl,-f,libaux.so', '-Wl,-init=area',
                              '-Wl,-fini=sum_list', '-Wl,-z,stack-size=0x200000', '-Wl,-z,now'], 'gcc-so-flags'),
     ('gcc', 'a.c', ['-g', '-O1', '-fPIC', '-shared', '-Wl,-F,libfilter.so', '-Wl,--build-id=none', '-Wl,-z,noseparate-code', '-Wl,-z,lazy'], 'gcc-so-filter')]


def run_compiled(idx, rng, sh):
    src = [os.path.join(VERIF_DIR, 'corpus', 'src', f) for f in ('a.c', 'b.c')]
    cfgs = [('gcc',) + c for c in GCC_CFG] + [('clang',) + c for c in CLANG_CFG] + [('other',) + c for c in OTHER_CFG]
    cfg = cfgs[(idx + (sh.seed if sh.tier == 'quick' else 0)) % len(cfgs)]
    with oracles.Scratch() as s:
        ver = 0
        post = []
        if cfg[0] == 'other':
            _, tool, srcname, flags, ident = cfg[:5]
            post = cfg[5] if len(cfg) > 5 else []
            out = os.path.join(s.d, ident)
            cmd = [tool] + flags + ['-o', out] + [os.path.join(VERIF_DIR, 'corpus', 'src', n) for n in ([srcname] if isinstance(srcname, str) else srcname)]
            if tool == 'gfortran':
                cmd += ['-J', s.d]
            regs = True
        elif cfg[0] == 'gcc':
            _, ver, opt, kind = cfg
            out = os.path.join(s.d, 'g%d%s.%s' % (ver, opt, kind))
            cmd = ['gcc', '-gdwarf-%d' % ver, opt, '-fPIC']
            cmd += ['-shared', '-nostdlib', '-o', out] + src if kind == 'so' else ['-c', '-o', out, src[0]]
            ident = 'gcc-dwarf%d%s.%s' % (ver, opt, kind)
            regs = True
        else:
            _, target, regs, ver = cfg
            out = os.path.join(s.d, 'c_%s_%d.o' % (target.split('-')[0], ver))
            cmd = ['clang', '--target=' + target, '-gdwarf-%d' % ver, '-O1', '-c', '-o', out, src[0]]
            ident = 'clang-%s-dwarf%d.o' % (target.split('-')[0], ver)
        if not oracles.have(cmd[0]):
            sh.skip(cmd[0] + ' missing')
            return
        rc, o, e = oracles.run(cmd, timeout=180)
        if rc != 0 or not os.path.exists(out):
            sh.skip('%s cannot build %s' % (cmd[0], ident))
            return
        for step, argv in enumerate(post):
            nxt = out + '.%d' % step
            rc, o, e = oracles.run([a.replace('{in}', out).replace('{out}', nxt) for a in argv], timeout=180) if oracles.have(argv[0]) else (1, '', '')
            if rc != 0 or not os.path.exists(nxt):
                sh.skip('%s cannot transform %s' % (argv[0], ident))
                return
            out = nxt
        for option in COMPILED_OPTS:
            if cfg[0] == 'clang' and ver == 5 and option == '--debug-dump=info':
                sh.skip('clang DWARF 5 uses the index forms (strx/addrx/loclistx/rnglistx), which have no entry in the clone\'s attribute description map')
                continue
            why = system_skip(out, option)
            if why:
                sh.skip(why)
                continue
            if option == '-A' and not (cfg[0] == 'clang' and cfg[1].startswith('arm')):
                continue                # build attributes: the clone decodes those of ARM and RISC-V only
            if '-gdwarf64' in cmd and option == '--debug-dump=aranges':
                sh.skip('address-range sets in the 64-bit DWARF format are not supported by the library (C13 is stated for the 32-bit format)')
                continue
            if not regs and option in ('--debug-dump=loc', '--debug-dump=frames', '--debug-dump=frames-interp'):
                sh.skip('register names of this machine are outside the clone\'s tables')
                continue
            judge(sh, 'compiled', out, option, ident, 'compiled')


# ---------------------------------------------------------------- description-table files
PLACEHOLDERS = ('<unknown', 'unrecognized', 'processor specific', 'processor-specific', 'application-specific', 'os specific', 'operating system specific', '<corrupt', 'unknown:',
                '<other>', 'unknown', 'loproc+', 'loos+')


def descr_jobs():
    """(table label, option, builder(code) -> image, extractor(stdout) -> text, codes)"""
    import elftools.elf.descriptions as D
    import elftools.elf.enums as E
    jobs = []

    def keys(tab, enum):
        out = []
        for k in tab:
            v = enum.get(k) if isinstance(k, str) else k
            if isinstance(v, int):
                out.append((k, v))
        return out
    jobs.append(('e_machine', '-h', keys(D._DESCR_E_MACHINE, E.ENUM_E_MACHINE), lambda c: dict(machine=c), 'machine:'))
    jobs.append(('e_type', '-h', keys(D._DESCR_E_TYPE, E.ENUM_E_TYPE), lambda c: dict(etype=c), 'type:'))
    jobs.append(('osabi', '-h', keys(D._DESCR_EI_OSABI, E.ENUM_EI_OSABI), lambda c: dict(osabi=c), 'os/abi:'))
    return jobs


def line_with(out, key):
    for ln in out.splitlines():
        if key in ln.lower():
            return ' '.join(ln.split()).lower()
    return None


def run_descr(idx, rng, sh):
    """One description table per index; every entry of the table in its own file."""
    import elftools.elf.descriptions as D
    import elftools.elf.enums as E
    tables = descr_tables()
    if idx >= len(tables):
        return
    label, option, entries, build, key = tables[idx]
    seen_texts = set()
    with oracles.Scratch() as s:
        for name, code in entries:
            try:
                img = build(code)
            except Exception as e:
                sh.skip('cannot build a file for %s' % label)
                continue
            p = s.write('d_%s_%x.elf' % (label.replace('/', '_'), code & 0xffffffff), img)
            r1 = oracles.run(['readelf', option, p], cwd=REPO)
            r2 = oracles.run([sys.executable, 'scripts/readelf.py', option, p], cwd=REPO)
            sh.count('descr_entries_run')
            sh.count('entries_run:' + label.split('/')[0])
            if 'Traceback (most recent call last)' in r2[2] or (r1[0] == 0 and r2[0] != 0):
                sh.violation('C18:descr %s: clone raises or fails on entry %s' % (label, name), message=(r2[2].strip().splitlines() or ['?'])[-1][:200])
                continue
            g = extract(r1[1], key, code)
            c = extract(r2[1], key, code)
            seen_texts.add(g)
            if g is None or c is None:
                if g is None and c is None:
                    sh.skip('entry not shown by either program')
                else:
                    sh.violation('C18:descr %s: only one program prints the entry %s' % (label, name), gnu=g, clone=c)
                continue
            if any(ph in g for ph in PLACEHOLDERS) or g_is_bare_code(g, code):
                sh.count('descr_entries_unjudged_gnu_placeholder')
                sh.skip('GNU readelf 2.40 has no name for this code')
                continue
            ok, msg = compare_output(g, c)
            if ok:
                sh.held(sig=('descr', label, name))
                sh.count('descr_entries_equal')
                sh.sample({'table': label, 'entry': str(name), 'gnu': g, 'clone': c}, kind='descr:' + label)
            elif gap_matches('descr', '%s %s' % (label, name), 'gnu: %s clone: %s' % (g, c)):
                sh.count('descr_entries_unjudged_oracle_gap')
                sh.skip('oracle gap (oracle_gaps_C18.json)')
            elif not known_c18(sh, 'descr', '%s %s' % (label, name), g, c):
                sh.violation('C18:descr %s entry %s differs' % (label, name), gnu=g, clone=c)
    # liveness of the observation: if every entry of a table yields the same extracted text, the extractor does not
    # see the field the table is about and the table has decided nothing
    if len(entries) > 3 and len(seen_texts) <= 1:
        sh.violation('C18:descr %s: harness: the extracted text is the same for all %d entries (nothing observed)' % (label, len(entries)), harness=True)


def g_is_bare_code(text, code):
    t = text.split(':')[-1].strip()
    return t in ('%x' % code, '0x%x' % code, '%d' % code)


def extract(out, key, code):
    """The line(s) of the dump that carry the entry."""
    if callable(key):
        return key(out, code)
    return line_with(out, key)


def descr_tables():
    import elftools.elf.descriptions as D
    import elftools.elf.enums as E
    from elftools.elf.constants import SH_FLAGS as SH_FLAGS_CONST
    T = []

    def entries(tab, enum):
        out = []
        for k in tab:
            v = enum.get(k) if isinstance(k, str) else k
            if isinstance(v, int) and not isinstance(v, bool):
                out.append((k, v))
        return out

    def simple(**kw):
        def b(code):
            a = dict(cls=64, le=True, machine=62, etype=2, sections=[elfgen.Sec('.text', 1, flags=6, data=b'\x90' * 8, addr=0x1000)])
            for k, v in kw.items():
                a[k] = code if v is None else v
            return elfgen.build(**a)[0]
        return b
    T.append(('e_machine', '-h', entries(D._DESCR_E_MACHINE, E.ENUM_E_MACHINE), simple(machine=None), 'machine:'))
    T.append(('e_type', '-h', entries(D._DESCR_E_TYPE, E.ENUM_E_TYPE), simple(etype=None), ' type:'))
    T.append(('osabi', '-h', entries(D._DESCR_EI_OSABI, E.ENUM_EI_OSABI), simple(osabi=None), 'os/abi:'))

    # machine flags: every E_FLAGS constant of the machines the clone decodes
    from elftools.elf.constants import E_FLAGS, E_FLAGS_MASKS
    for mach, prefix, cls, label in ((40, 'EF_ARM_', 32, 'arm'), (8, 'EF_MIPS_', 32, 'mips'), (21, 'EF_PPC64_', 64, 'ppc64'),
                                     (243, 'EF_RISCV_', 64, 'riscv'), (258, 'EF_LOONGARCH_', 64, 'loongarch')):
        ents = [(k, v) for k, v in sorted(vars(E_FLAGS).items()) if k.startswith(prefix) and isinstance(v, int) and v]
        ents += [(k, v) for k, v in sorted(vars(E_FLAGS_MASKS).items()) if k.startswith(prefix.replace('EF_', 'EFM_')) and isinstance(v, int) and v]
        if mach == 40:
            ents += [(k + '|EABI5', v | 0x05000000) for k, v in ents if not v & 0xff000000]

        def fb(code, mach=mach, cls=cls):
            return elfgen.build(cls=cls, le=True, machine=mach, etype=2, eflags=code,
                                sections=[elfgen.Sec('.text', 1, flags=6, data=b'\x90' * 8, addr=0x1000)])[0]
        T.append(('e_flags/' + label, '-h', ents, fb, ' flags:'))

    def secline(out, code):
        # a section takes two lines in the 64-bit layout: name/type/address/offset, then size/entsize/flags/link/info/align
        lines = out.splitlines()
        for i, ln in enumerate(lines):
            if '.probe' in ln:
                nxt = lines[i + 1] if i + 1 < len(lines) and lines[i + 1].startswith('       ') else ''
                return ' '.join((ln + ' ' + nxt).split()).lower()
        return None

    def sh_type_builder(machine):
        def b(code):
            return elfgen.build(cls=64, le=True, machine=machine, etype=1,
                                sections=[elfgen.Sec('.probe', code, data=b'\0' * 8, entsize=4 if code == 17 else 0)])[0]
        return b
    for mach, tab, label in ((62, E.ENUM_SH_TYPE_AMD64, 'x86-64'), (40, E.ENUM_SH_TYPE_ARM, 'arm'), (183, E.ENUM_SH_TYPE_AARCH64, 'aarch64'),
                             (8, E.ENUM_SH_TYPE_MIPS, 'mips'), (243, E.ENUM_SH_TYPE_RISCV, 'riscv')):
        ents = [(k, v) for k, v in entries(D._DESCR_SH_TYPE, tab) if v not in (2, 11, 18, 0x6ffffffc, 0x6ffffffd, 0x6ffffffe, 0x6fffffff, 5,
                                                                                0x6ffffff6, 6, 4, 9, 19, 0x70000003, 0x6ffffff3)]
        if mach == 62:
            ents += [('0x6ffffff0', 0x6ffffff0), ('0x7ffffffd', 0x7ffffffd), ('0x7fffffff', 0x7fffffff)]      # named by readelf, not in the enum
        T.append(('sh_type/' + label, '-S', ents, sh_type_builder(mach), secline))

    def flag_builder(code):
        return elfgen.build(cls=64, le=True, machine=62, etype=1, sections=[elfgen.Sec('.probe', 1, flags=code, data=b'\0' * 8)])[0]
    # the flags the clone has a letter for (SHF_COMPRESSED needs a compression header and is covered by the corpus)
    known = [b for b in sorted(vars(SH_FLAGS_CONST).items()) if b[0].startswith('SHF_') and isinstance(b[1], int) and b[1] and b[1] & (b[1] - 1) == 0
             and b[1] != 0x800]
    T.append(('sh_flags', '-S', known, flag_builder, secline))
    # the letters come in a fixed order: every pair of described flags, and all of them together
    pairs = [('%s|%s' % (a[0], b[0]), a[1] | b[1]) for i, a in enumerate(known) for b in known[i + 1:]]
    allf = 0
    for k, v in known:
        allf |= v
    T.append(('sh_flags/pairs', '-S', pairs + [('all', allf)], flag_builder, secline))

    def segline(out, code):
        seen = False
        for ln in out.splitlines():
            if 'program headers' in ln.lower():
                seen = True
            if seen and '0x0000000000000040' in ln.lower() or (seen and '0x000040' in ln.lower()):
                return ' '.join(ln.split()).lower()
        return None

    def p_type_builder(machine):
        def b(code):
            return elfgen.build(cls=64, le=True, machine=machine, etype=2, sections=[elfgen.Sec('.text', 1, flags=6, data=b'\x90' * 8)],
                                segments=[elfgen.Seg(type=code, flags=4, offset=0, vaddr=0, filesz=8, memsz=8, align=1)])[0]
        return b
    for mach, tab, label in ((62, E.ENUM_P_TYPE_BASE, 'base'), (40, E.ENUM_P_TYPE_ARM, 'arm'), (183, E.ENUM_P_TYPE_AARCH64, 'aarch64'),
                             (8, E.ENUM_P_TYPE_MIPS, 'mips'), (243, E.ENUM_P_TYPE_RISCV, 'riscv')):
        ents = [(k, v) for k, v in entries(D._DESCR_P_TYPE, tab) if v not in (2, 3, 4)]
        T.append(('p_type/' + label, '-l', ents, p_type_builder(mach), lambda out, code: first_phdr_line(out)))

    def p_flags_builder(code):
        return elfgen.build(cls=64, le=True, machine=62, etype=2, sections=[elfgen.Sec('.text', 1, flags=6, data=b'\x90' * 8)],
                            segments=[elfgen.Seg(type=1, flags=code, offset=0, vaddr=0, filesz=8, memsz=8, align=1)])[0]
    # the three permission bits alone and beside bits of the OS range (Solaris PF_SUNW_FAILURE ...), the processor range and the rest
    pf = list(range(8)) + [0x00100005, 0x0ff00006, 0x08000007, 0x10000005, 0xf0000006, 0x00000015, 0x000ffff9, 0xfffffff8, 0x00100000, 0xffffffff]
    T.append(('p_flags', '-l', [('%#x' % i, i) for i in pf], p_flags_builder, lambda out, code: first_phdr_line(out)))

    def sym_builder(field, machine=62):
        def b(code):
            E_ = '<'
            info, other, shndx = 0x12, 0, 1
            if field == 'type':
                info = 0x10 | code
            elif field == 'bind':
                info = (code << 4) | 2
            elif field == 'vis':
                other = code
            else:
                shndx = code
            syms = elfgen.sym_pack(E_, True, 0, 0, 0, 0, 0, 0) + elfgen.sym_pack(E_, True, 1, 0x1000, 4, info, other, shndx)
            return elfgen.build(cls=64, le=True, machine=machine, etype=1,
                                sections=[elfgen.Sec('.text', 1, flags=6, data=b'\x90' * 8),
                                          elfgen.Sec('.symtab', 2, data=syms, link='.strtab', info=1, entsize=24, align=8),
                                          elfgen.Sec('.strtab', 3, data=b'\0probe\0')])[0]
        return b

    def symline(out, code):
        for ln in out.splitlines():
            if ln.rstrip().endswith('probe'):
                return ' '.join(ln.split()).lower()
        return None
    T.append(('st_type', '-s', entries(D._DESCR_ST_INFO_TYPE, E.ENUM_ST_INFO_TYPE), sym_builder('type'), symline))
    T.append(('st_bind', '-s', entries(D._DESCR_ST_INFO_BIND, E.ENUM_ST_INFO_BIND), sym_builder('bind'), symline))
    T.append(('st_visibility', '-s', entries(D._DESCR_ST_VISIBILITY, E.ENUM_ST_VISIBILITY), sym_builder('vis'), symline))
    T.append(('st_shndx', '-s', entries(D._DESCR_ST_SHNDX, E.ENUM_ST_SHNDX), sym_builder('shndx'), symline))
    # PPC64 ELFv2 local entry point offsets live in the three high bits of st_other
    T.append(('st_other/ppc64-localentry', '-s', [('localentry%d' % v, (v << 5) | (v & 1)) for v in range(8)], sym_builder('vis', 21), symline))

    def dyn_builder(machine, osabi=0):
        def b(code):
            tags = [(5, 0x2000), (6, 0x2100), (10, 8), (11, 24), (code, 1 if code not in (1, 14, 15, 29) else 1), (0, 0)]
            dyn = b''.join(struct.pack('<qQ', t if t < 2 ** 63 else t - 2 ** 64, v) for t, v in tags)
            secs = [elfgen.Sec('.dynstr', 3, flags=2, data=b'\0lib.so\0', addr=0x2000),
                    elfgen.Sec('.dynsym', 11, flags=2, data=bytes(24), link='.dynstr', info=1, entsize=24, addr=0x2100, align=8),
                    elfgen.Sec('.dynamic', 6, flags=3, data=dyn, link='.dynstr', entsize=16, addr=0x3000, align=8)]
            return elfgen.build(cls=64, le=True, machine=machine, osabi=osabi, etype=3, sections=secs,
                                segments=[elfgen.Seg(type=1, sec='.dynstr', vaddr=0x2000), elfgen.Seg(type=1, sec='.dynsym', vaddr=0x2100),
                                          elfgen.Seg(type=2, sec='.dynamic', vaddr=0x3000)])[0]
        return b

    def dynline(out, code):
        lines = [ln for ln in out.splitlines() if ln.strip().startswith('0x')]
        return ' '.join(lines[4].split()).lower() if len(lines) >= 6 else None
    # every tag in the context its table belongs to (the combined description table is keyed by number)
    def tagset(enum, skip=()):
        return [(k, v) for k, v in enum.items() if isinstance(v, int) and isinstance(k, str) and v not in (0, 5, 6, 10, 11) + tuple(skip)
                and not k.endswith(('LOOS', 'HIOS', 'LOPROC', 'HIPROC', 'VALRNGLO', 'VALRNGHI', 'ADDRRNGLO', 'ADDRRNGHI', 'NUM'))]
    T.append(('d_tag/common', '-d', tagset(E.ENUM_D_TAG_COMMON), dyn_builder(62), dynline))
    T.append(('d_tag/mips', '-d', tagset(E.ENUM_D_TAG_MIPS), dyn_builder(8), dynline))
    T.append(('d_tag/aarch64', '-d', tagset(E.ENUM_D_TAG_AARCH64), dyn_builder(183), dynline))
    T.append(('d_tag/solaris', '-d', tagset(E.ENUM_D_TAG_SOLARIS), dyn_builder(2, 6), dynline))

    def dflag_builder(tag, machine=62):
        def b(code):
            tags = [(5, 0x2000), (6, 0x2100), (10, 8), (11, 24), (tag, code), (0, 0)]
            dyn = b''.join(struct.pack('<qQ', t, v) for t, v in tags)
            secs = [elfgen.Sec('.dynstr', 3, flags=2, data=b'\0lib.so\0', addr=0x2000),
                    elfgen.Sec('.dynsym', 11, flags=2, data=bytes(24), link='.dynstr', info=1, entsize=24, addr=0x2100, align=8),
                    elfgen.Sec('.dynamic', 6, flags=3, data=dyn, link='.dynstr', entsize=16, addr=0x3000, align=8)]
            return elfgen.build(cls=64, le=True, machine=machine, etype=3, sections=secs,
                                segments=[elfgen.Seg(type=1, sec='.dynstr', vaddr=0x2000), elfgen.Seg(type=1, sec='.dynsym', vaddr=0x2100),
                                          elfgen.Seg(type=2, sec='.dynamic', vaddr=0x3000)])[0]
        return b
    from elftools.elf.constants import RH_FLAGS
    T.append(('DT_MIPS_FLAGS', '-d', [(k, v) for k, v in sorted(vars(RH_FLAGS).items()) if k.startswith('RHF_') and isinstance(v, int) and v],
              dflag_builder(0x70000005, 8), dynline))
    T.append(('DT_FLAGS', '-d', [(k, v) for k, v in E.ENUM_DT_FLAGS.items() if isinstance(v, int)], dflag_builder(30), dynline))
    T.append(('DT_FLAGS_1', '-d', [(k, v) for k, v in E.ENUM_DT_FLAGS_1.items() if isinstance(v, int)], dflag_builder(0x6ffffffb), dynline))

    def combos(items):
        items = [(k, v) for k, v in items if isinstance(v, int) and v and v & (v - 1) == 0]
        allv = 0
        for k, v in items:
            allv |= v
        adj = [('%s|%s' % (a[0], b[0]), a[1] | b[1]) for a, b in zip(items, items[1:])]       # neighbours in value order: the print order matters
        return adj + [('all', allv)]
    T.append(('DT_FLAGS/combined', '-d', combos(sorted(E.ENUM_DT_FLAGS.items(), key=lambda kv: kv[1])), dflag_builder(30), dynline))
    T.append(('DT_FLAGS_1/combined', '-d', combos(sorted(E.ENUM_DT_FLAGS_1.items(), key=lambda kv: kv[1])), dflag_builder(0x6ffffffb), dynline))
    T.append(('DT_MIPS_FLAGS/combined', '-d', combos(sorted(((k, v) for k, v in vars(RH_FLAGS).items() if k.startswith('RHF_')), key=lambda kv: kv[1])),
              dflag_builder(0x70000005, 8), dynline))

    # notes: every note type, ABI-tag OS and GNU property (bit) the clone has a description for, one note per file
    NOTES = []

    def prop(pt, data, al=8):
        rec = struct.pack('<II', pt, len(data)) + data
        return rec + b'\0' * (-len(rec) % al)
    NOTES.append(('NT_GNU_HWCAP', 62, 2, struct.pack('<II', 1, 2) + b'\x01hw\0\0\0\0\0'))
    NOTES.append(('NT_GNU_BUILD_ID', 62, 3, bytes(range(20))))
    NOTES.append(('NT_GNU_GOLD_VERSION', 62, 4, b'gold 1.16'))       # as gold writes it: no terminator
    for k, v in sorted(E.ENUM_NOTE_ABI_TAG_OS.items(), key=lambda kv: str(kv[1])):
        if isinstance(v, int):
            NOTES.append(('NT_GNU_ABI_TAG/' + k, 62, 1, struct.pack('<IIII', v, 3, 2, 0)))
    NOTES.append(('GNU_PROPERTY_STACK_SIZE', 62, 5, prop(1, struct.pack('<Q', 0x100000))))
    NOTES.append(('GNU_PROPERTY_NO_COPY_ON_PROTECTED', 62, 5, prop(2, b'')))
    for label, pt, tab, mach in (('X86_FEATURE_1_AND', 0xc0000002, D._DESCR_NOTE_GNU_PROPERTY_X86_FEATURE_1_FLAGS, 62),
                                 ('X86_FEATURE_2_USED', 0xc0010001, D._DESCR_NOTE_GNU_PROPERTY_X86_FEATURE_2_FLAGS, 62),
                                 ('X86_ISA_1_NEEDED', 0xc0008002, D._DESCR_NOTE_GNU_PROPERTY_X86_ISA_1_FLAGS, 62),
                                 ('X86_ISA_1_USED', 0xc0010002, D._DESCR_NOTE_GNU_PROPERTY_X86_ISA_1_FLAGS, 62),
                                 ('AARCH64_FEATURE_1_AND', 0xc0000000, D._DESCR_NOTE_GNU_PROPERTY_AARCH64_FEATURE_1_AND, 183),
                                 ('RISCV_FEATURE_1_AND', 0xc0000000, D._DESCR_NOTE_GNU_PROPERTY_RISCV_FEATURE_1_AND, 243)):
        for m, dsc in tab:
            NOTES.append(('GNU_PROPERTY_%s/%s' % (label, dsc), mach, 5, prop(pt, struct.pack('<I', m))))
        allbits = 0
        for m, dsc in tab:
            allbits |= m
        NOTES.append(('GNU_PROPERTY_%s/all' % label, mach, 5, prop(pt, struct.pack('<I', allbits))))

    def note_builder(code):
        label, mach, typ, desc = NOTES[code]
        rec = struct.pack('<III', 4, len(desc), typ) + b'GNU\0' + desc + b'\0' * (-len(desc) % 4)
        return elfgen.build(cls=64, le=True, machine=mach, etype=2,
                            sections=[elfgen.Sec('.text', 1, flags=6, data=b'\x90' * 8, addr=0x1000),
                                      elfgen.Sec('.note.probe', 7, flags=2, data=rec, align=8 if typ == 5 else 4, addr=0x2000)])[0]

    def notelines(out, code):
        lines = out.splitlines()
        for i, ln in enumerate(lines):
            if ln.strip().lower().startswith('owner'):
                return '\n'.join(' '.join(x.split()).lower() for x in lines[i + 1:] if x.strip())
        return None
    T.append(('notes', '-n', [(n[0], i) for i, n in enumerate(NOTES)], note_builder, notelines))

    def reloc_builder(machine, cls, le, rela):
        def b(code):
            from .c08 import build_rel_image
            return build_rel_image(None, machine, cls, le, rela, [(0, 1, code, 0)], [0, 0x10], bytes(16), target='.data')[0]
        return b

    def relline(out, code):
        lines = [ln for ln in out.splitlines() if ln.strip() and ln.strip()[0] in '0123456789abcdef' and len(ln.split()) >= 3]
        return ' '.join(lines[0].split()).lower() if lines else None
    for label, enum, mach, cls, le, rela in (('i386', E.ENUM_RELOC_TYPE_i386, 3, 32, True, False), ('x86-64', E.ENUM_RELOC_TYPE_x64, 62, 64, True, True),
                                              ('arm', E.ENUM_RELOC_TYPE_ARM, 40, 32, True, False), ('aarch64', E.ENUM_RELOC_TYPE_AARCH64, 183, 64, True, True),
                                              ('mips', E.ENUM_RELOC_TYPE_MIPS, 8, 32, False, False), ('ppc64', E.ENUM_RELOC_TYPE_PPC64, 21, 64, True, True),
                                              ('s390x', E.ENUM_RELOC_TYPE_S390X, 22, 64, False, True), ('loongarch', E.ENUM_RELOC_TYPE_LOONGARCH, 258, 64, True, True),
                                              ('ppc', E.ENUM_RELOC_TYPE_PPC, 20, 32, False, True)):
        ents = [(k, v) for k, v in enum.items() if isinstance(v, int) and (v < 256 or cls == 64)]
        T.append(('reloc/' + label, '-r', ents, reloc_builder(mach, cls, le, rela), relline))

    # flag letters that depend on the machine or the OS ABI, reserved ranges, unknown bits, and their order
    combos = [(mach, osabi, fl) for mach in (62, 40, 20, 3) for osabi in (0, 3, 9)
              for fl in (0x80100003, 0x200003, 0x1000003, 0x90000003, 0x10000003, 0x400003, 0x90100003, 0x1003, 0x80200803, 0x20000006, 0xf0000000,
                         0x0ff00000, 0x1200003)]

    def specific_flag_builder(code):
        mach, osabi, fl = combos[code]
        return elfgen.build(cls=64 if mach == 62 else 32, le=True, machine=mach, etype=1, osabi=osabi,
                            sections=[elfgen.Sec('.probe', 1, flags=fl, data=b'\0' * 8)])[0]
    T.append(('sh_flags/machine-os', '-S', [('m%d.os%d.%x' % c, i) for i, c in enumerate(combos)], specific_flag_builder, secline))

    # the machine tables are chosen by machine alone: the same entries in the other file class (x32, MIPS o32, ARM, RV32)
    def sh_type_builder32(machine):
        def b(code):
            return elfgen.build(cls=32, le=True, machine=machine, etype=1,
                                sections=[elfgen.Sec('.probe', code, data=b'\0' * 8, entsize=4 if code == 17 else 0)])[0]
        return b

    def p_type_builder32(machine):
        def b(code):
            return elfgen.build(cls=32, le=True, machine=machine, etype=2, sections=[elfgen.Sec('.text', 1, flags=6, data=b'\x90' * 8)],
                                segments=[elfgen.Seg(type=code, flags=4, offset=0, vaddr=0, filesz=8, memsz=8, align=1)])[0]
        return b
    for name, option, ents, build, key in list(T):
        if name.startswith('sh_type/') and name != 'sh_type/aarch64':
            mach = {'x86-64': 62, 'arm': 40, 'mips': 8, 'riscv': 243}[name.split('/')[1]]
            T.append((name + '-class32', option, ents, sh_type_builder32(mach), key))
        if name.startswith('p_type/') and name != 'p_type/aarch64':
            mach = {'base': 3, 'arm': 40, 'mips': 8, 'riscv': 243}[name.split('/')[1]]
            T.append((name + '-class32', option, ents, p_type_builder32(mach), key))

    # machine flags in the combinations toolchains produce: independent bits together with every value of the fields
    def eflags_builder(mach, cls):
        def b(code):
            return elfgen.build(cls=cls, le=True, machine=mach, etype=2, eflags=code,
                                sections=[elfgen.Sec('.text', 1, flags=6, data=b'\x90' * 8, addr=0x1000)])[0]
        return b
    F = E_FLAGS
    rv = []
    for bits in range(8):
        for fl, fname in ((F.EF_RISCV_FLOAT_ABI_SOFT, 'soft'), (F.EF_RISCV_FLOAT_ABI_SINGLE, 'single'), (F.EF_RISCV_FLOAT_ABI_DOUBLE, 'double'),
                          (F.EF_RISCV_FLOAT_ABI_QUAD, 'quad')):
            v = fl | (F.EF_RISCV_RVC if bits & 1 else 0) | (F.EF_RISCV_RVE if bits & 2 else 0) | (F.EF_RISCV_TSO if bits & 4 else 0)
            if v:
                rv.append(('%s%s%s%s' % ('RVC+' if bits & 1 else '', 'RVE+' if bits & 2 else '', 'TSO+' if bits & 4 else '', fname), v))
    T.append(('e_flags/riscv-combined', '-h', rv, eflags_builder(243, 32), ' flags:'))
    arm = []
    for fl, fname in ((0, ''), (F.EF_ARM_ABI_FLOAT_SOFT, 'soft'), (F.EF_ARM_ABI_FLOAT_HARD, 'hard')):
        for en, ename in ((0, ''), (F.EF_ARM_LE8, 'le8'), (F.EF_ARM_BE8, 'be8')):
            for rx, rname in ((0, ''), (F.EF_ARM_RELEXEC, 'relexec')):
                arm.append(('EABI5+%s+%s+%s' % (fname, ename, rname), F.EF_ARM_EABI_VER5 | fl | en | rx))
    T.append(('e_flags/arm-combined', '-h', arm, eflags_builder(40, 32), ' flags:'))
    mips = []
    indep = [F.EF_MIPS_NOREORDER, F.EF_MIPS_PIC, F.EF_MIPS_CPIC, F.EF_MIPS_64BIT_WHIRL, F.EF_MIPS_ABI2, F.EF_MIPS_32BITMODE, F.EF_MIPS_NAN2008]
    M = E_FLAGS_MASKS
    n = 0
    for arch in (F.EF_MIPS_ARCH_1, F.EF_MIPS_ARCH_2, F.EF_MIPS_ARCH_3, F.EF_MIPS_ARCH_4, F.EF_MIPS_ARCH_5, F.EF_MIPS_ARCH_32, F.EF_MIPS_ARCH_64,
                 F.EF_MIPS_ARCH_32R2, F.EF_MIPS_ARCH_64R2):
        for abi in (0, M.EFM_MIPS_ABI_O32, M.EFM_MIPS_ABI_O64, M.EFM_MIPS_ABI_EABI32, M.EFM_MIPS_ABI_EABI64):
            n += 1
            sub = (n * 37) % 128            # the independent bits in changing subsets; all of them together every so often
            if n % 9 == 0:
                sub = 127
            v = arch | abi
            for i, bit in enumerate(indep):
                if sub >> i & 1:
                    v |= bit
            mips.append(('arch%x+abi%x+bits%02x' % (arch >> 28, abi >> 12, sub), v))
    T.append(('e_flags/mips-combined', '-h', mips, eflags_builder(8, 32), ' flags:'))
    la = []
    for mod in (F.EF_LOONGARCH_ABI_SOFT_FLOAT, F.EF_LOONGARCH_ABI_SINGLE_FLOAT, F.EF_LOONGARCH_ABI_DOUBLE_FLOAT):
        for ov in (F.EF_LOONGARCH_OBJABI_V0, F.EF_LOONGARCH_OBJABI_V1):
            la.append(('mod%x+obj%x' % (mod, ov), mod | ov))
    T.append(('e_flags/loongarch-combined', '-h', la, eflags_builder(258, 64), ' flags:'))
    return T


# ---------------------------------------------------------------- DWARF description tables
DIE_HDR = re.compile(r'^\s*<[0-9a-f]+><[0-9a-f]+>: abbrev number')


def prepare_lines(s):
    return [line for line in s.lower().splitlines() if line.strip()]


def blocks_by(lines, is_start):
    out = []
    for ln in lines:
        if is_start(ln) or not out:
            out.append([ln])
        else:
            out[-1].append(ln)
    return out


def block_label(block):
    if block and block[0].strip().startswith('tag_'):
        return ' '.join(block[0].split())[:60]
    for ln in block:
        if 'dw_at_name' in ln and ':' in ln:
            return ln.rsplit(':', 1)[1].strip()
    return ' '.join(block[0].split())[:60]


def judge_blocks(sh, table, option, img, s, is_start, min_blocks, gnu_placeholders=PLACEHOLDERS + ('user defined', 'implementation defined', 'user tag value')):
    """Run both programs on one table file and judge it block by block (a block = one table entry)."""
    p = s.write('t_%s.elf' % re.sub(r'[^A-Za-z0-9]+', '_', table), img)
    r1 = oracles.run(['readelf', option, p], cwd=REPO)
    r2 = oracles.run([sys.executable, 'scripts/readelf.py', option, p], cwd=REPO)
    sh.count('pairs_run')
    if 'Traceback (most recent call last)' in r2[2]:
        sh.violation('C18:dwdescr %s: clone raises' % table, message=r2[2].strip().splitlines()[-1][:200])
        return
    if r1[0] == 0 and r2[0] != 0:
        sh.violation('C18:dwdescr %s: clone fails (exit code %s) where GNU readelf succeeds' % (table, r2[0]), message=r2[2].strip()[-200:])
        return
    b1 = blocks_by(prepare_lines(apply_text_findings(r1[1], r2[1])), is_start)
    b2 = blocks_by(prepare_lines(r2[1]), is_start)
    if len(b1) < min_blocks:
        sh.violation('C18:dwdescr %s: harness: GNU readelf printed %d of %d entries' % (table, len(b1), min_blocks),
                     stderr=r1[2][-300:], harness=True)
        return
    if len(b1) != len(b2):
        # align the two block sequences and report every region where they part
        k1 = [''.join(''.join(b).split()) for b in b1]
        k2 = [''.join(''.join(b).split()) for b in b2]
        n = 0
        for tag, i1, i2, j1, j2 in SequenceMatcher(None, k1, k2, autojunk=False).get_opcodes():
            if tag == 'equal':
                continue
            n += 1
            if n <= 6:
                sh.violation('C18:dwdescr %s: entries differ near %s' % (table, block_label(b1[i1] if i1 < len(b1) else b2[min(j1, len(b2) - 1)])),
                             gnu=[ln for b in b1[i1:i2][:3] for ln in b][:6], clone=[ln for b in b2[j1:j2][:3] for ln in b][:6],
                             counts=(len(b1), len(b2)))
        return
    for g, c in zip(b1, b2):
        sh.count('descr_entries_run')
        sh.count('entries_run:' + table.split('/')[0])
        label = block_label(g)
        gtxt = '\n'.join(g)
        ok, msg = compare_output(gtxt, '\n'.join(c))
        if ok:
            sh.held(sig=('dwdescr', table, label))
            sh.count('descr_entries_equal')
            if len(g) > 1:
                sh.sample({'table': table, 'entry': label, 'gnu': g[-1].strip()}, kind='dwdescr:' + table)
            continue
        # the differing line decides whether the oracle has a name at all
        bad = [(x, y) for x, y in zip(g, c) if not compare_output(x, y)[0]] if len(g) == len(c) else [(gtxt, '\n'.join(c))]
        if all(any(ph in x for ph in gnu_placeholders) for x, y in bad):
            sh.count('descr_entries_unjudged_gnu_placeholder')
            sh.skip('GNU readelf 2.40 has no name for this code')
            continue
        if gap_matches('dwdescr', '%s %s' % (table, label), 'gnu: %s clone: %s' % bad[0]):
            sh.count('descr_entries_unjudged_oracle_gap')
            sh.skip('oracle gap (oracle_gaps_C18.json)')
            continue
        if known_c18(sh, 'dwdescr', '%s %s' % (table, label), bad[0][0], bad[0][1]):
            continue
        sh.violation('C18:dwdescr %s entry %s differs' % (table, label), gnu=bad[0][0][:300], clone=bad[0][1][:300])


def dw_tables():
    """[(label, option, builder() -> (image, n_entries), block-start predicate)]"""
    import elftools.dwarf.enums as DE
    import elftools.dwarf.dwarf_expr as DX
    import elftools.dwarf.descriptions as DD
    import elftools.dwarf.constants as DC
    from ..gen import dwtab
    from ..ref.expr import SPEC
    T = []
    is_die = lambda ln: bool(DIE_HDR.match(ln))

    def info_file(cu, machine=62, cls=64, extra=None):
        # a small leading unit puts the table unit at a non-zero offset (unit-relative operands must get it added)
        lead = dwtab.CU(version=cu.version, asz=cu.asz)
        lead.add(0x24, [(0x0b, 0x0b, b'\x04', None)], label='lead')
        if cu.fmt == 64:
            lead.add(0x34, [(0x02, 0x18, dwtab.expr_block(bytes([0x9a, 0x1d, 0, 0, 0])), None)], label='lead_call_ref')
        u0, ab0, _ = lead.build()
        cu.unit_offset = len(u0)
        unit, ab, offs = cu.build(abbrev_base=len(ab0))
        secs = {'.debug_info': u0 + unit, '.debug_abbrev': ab0 + ab}
        secs.update(extra or {})
        return oracles.wrap_debug(secs, cu.le, cls=cls, machine=machine)

    def op_table(machine, cls, asz, names, fmt=32):
        def b():
            cu = dwtab.CU(version=4, asz=asz, fmt=fmt)
            cu.scope = (0x2e, [(0x03, 0x08, b'fn\0', None), (0x40, 0x18, dwtab.expr_block(bytes([0x9c])), None)])
            n = 0
            for name in names:
                op = DX.DW_OP_name2opcode[name]
                if op not in SPEC:
                    continue
                for k, enc in enumerate(dwtab.op_variants(op, SPEC[op], True, asz, fmt // 8)):
                    if k and op in (0x98, 0x99):
                        continue        # GNU readelf sign-extends the 2/4-byte operand of DW_OP_call2/call4; only plain values
                    cu.add(0x34, [(0x02, 0x18, dwtab.expr_block(enc), None)], label='%s.%d' % (name[6:], k))
                    n += 1
            return info_file(cu, machine, cls), n + 2
        return b
    allops = sorted(DX.DW_OP_name2opcode, key=lambda n: DX.DW_OP_name2opcode[n])
    regops = [n for n in allops if re.match(r'DW_OP_b?reg\d+$', n)]
    T.append(('DW_OP/x86-64', '--debug-dump=info', op_table(62, 64, 8, allops), is_die))
    # the same table in a 64-bit-format unit behind a 32-bit-format one: offset-sized operands change width within one file
    offops = [n for n in allops if DX.DW_OP_name2opcode[n] in SPEC and 'off' in SPEC[DX.DW_OP_name2opcode[n]]] + ['DW_OP_addr', 'DW_OP_entry_value']
    T.append(('DW_OP/x86-64-dwarf64', '--debug-dump=info', op_table(62, 64, 8, offops, fmt=64), is_die))
    T.append(('DW_OP/i386-registers', '--debug-dump=info', op_table(3, 32, 4, regops), is_die))
    T.append(('DW_OP/aarch64-registers', '--debug-dump=info', op_table(183, 64, 8, regops), is_die))
    T.append(('DW_OP/arm-registers', '--debug-dump=info', op_table(40, 32, 4, regops), is_die))

    def regx_table(machine, cls, asz, nregs):
        def b():
            cu = dwtab.CU(version=4, asz=asz)
            for r in range(nregs):
                cu.add(0x34, [(0x02, 0x18, dwtab.expr_block(bytes([0x90]) + uleb(r)), None)], label='regx.%d' % r)
                cu.add(0x34, [(0x02, 0x18, dwtab.expr_block(bytes([0x92]) + uleb(r) + bytes([0x10])), None)], label='bregx.%d' % r)
            return info_file(cu, machine, cls), 2 * nregs + 2
        return b
    T.append(('DW_OP_regx/x86-64', '--debug-dump=info', regx_table(62, 64, 8, len(DD._REG_NAMES_x64)), is_die))
    T.append(('DW_OP_regx/i386', '--debug-dump=info', regx_table(3, 32, 4, len(DD._REG_NAMES_x86)), is_die))
    T.append(('DW_OP_regx/aarch64', '--debug-dump=info', regx_table(183, 64, 8, len(DD._REG_NAMES_AArch64)), is_die))

    def tag_table():
        cu = dwtab.CU(version=4)
        ents = sorted((v, k) for k, v in DE.ENUM_DW_TAG.items() if isinstance(v, int) and v > 0 and not k.endswith(('lo_user', 'hi_user')))
        ents = [e for i, e in enumerate(ents) if not i or ents[i - 1][0] != e[0]]      # one DIE per code
        for v, k in ents:
            cu.add(v, [], label='tag_%x' % v)
        return info_file(cu), len(ents) + 2
    T.append(('DW_TAG', '--debug-dump=info', tag_table, is_die))

    def at_table(natural):
        def b():
            cu = dwtab.CU(version=4)
            cu.add(0x24, [(0x0b, 0x0b, b'\x04', None), (0x3e, 0x0b, b'\x05', None)], label='int')      # reference target
            target = cu.header_size() + 1 + 4          # root: abbrev code + 'tab\0'
            n = 1
            ents = sorted((v, k) for k, v in DE.ENUM_DW_AT.items() if isinstance(v, int) and v > 0)
            for v, k in ents:
                classes = dwtab.AT_CLASSES.get(v)
                if natural and classes:
                    forms = []
                    for c in classes:
                        forms.append({'c': (0x0b, b'\x01'), 'f': (0x19, b''), 's': (0x08, b'str\0'),
                                      'r': (0x13, struct.pack('<I', target)), 'a': (0x01, struct.pack('<Q', 0x401000)),
                                      'e': (0x18, dwtab.expr_block(bytes([0x75, 0x70]))),
                                      'b': (0x0a, bytes([3, 1, 2, 3]))}[c] + (c,))
                elif not natural and not classes:
                    forms = [(0x19, b'', 'f')]
                else:
                    continue
                for form, data, c in forms:
                    cu.add(0x34, [(v, form, data, None)], label=None if v == 0x03 else '%s.%s' % (k[6:], c))
                    n += 1
            return info_file(cu), n + 2
        return b
    T.append(('DW_AT/standard', '--debug-dump=info', at_table(True), is_die))

    def at_block_table():
        # before DWARF 4 an expression is a block: every expression-class attribute in each of the four block forms
        cu = dwtab.CU(version=3)
        cu.scope = (0x2e, [(0x03, 0x08, b'fn\0', None), (0x40, 0x0a, bytes([1, 0x9c]), None)])
        ex = bytes([0x75, 0x70])
        n = 0
        for v, k in sorted((v, k) for k, v in DE.ENUM_DW_AT.items() if isinstance(v, int) and 'e' in (dwtab.AT_CLASSES.get(v) or '')):
            for fname, form, pre in (('block', 0x09, uleb(len(ex))), ('block1', 0x0a, bytes([len(ex)])), ('block2', 0x03, struct.pack('<H', len(ex))),
                                     ('block4', 0x04, struct.pack('<I', len(ex)))):
                cu.add(0x34, [(v, form, pre + ex, None)], label='%s.%s' % (k[6:], fname))
                n += 1
        return info_file(cu), n + 2
    T.append(('DW_AT/block-forms', '--debug-dump=info', at_block_table, is_die))

    def types_table():
        # three type units in .debug_types: signature and type offset are per unit
        units = abbrevs = b''
        for i in range(4):
            cu = dwtab.CU(version=4, root_tag=0x41)
            cu.root_name = 'tu%d' % i
            # the last unit repeats the first one's signature (a relocatable link keeps both copies)
            sig = 0x1111111111111111 * (i % 3 + 1)
            cu.header_extra = struct.pack('<QI', sig, 0)
            cu.add(0x13, [(0x0b, 0x0b, bytes([8 * (i + 1)]), None)], label='S%d' % i)
            # addresses inside a type unit (a static member's location): the unit's own address size applies
            cu.add(0x34, [(0x02, 0x18, dwtab.expr_block(bytes([0x03]) + struct.pack('<Q', 0x1122334455667700 + i)), None),
                          (0x11, 0x01, struct.pack('<Q', 0x8877665544332200 + i), None)], label='static%d' % i)
            # a structure with a child list and a sibling reference (relative to its own unit), then the sibling
            cu.add(0x13, [(0x0b, 0x0b, bytes([4]), None), (0x01, 0x13, lambda pos: struct.pack('<I', pos + 4 + 1), None)], label='N%d' % i, children=True)
            cu.add(0x24, [(0x0b, 0x0b, bytes([2]), None)], label='after_N%d' % i)
            cu.header_extra = struct.pack('<QI', sig, cu.header_size() + 1 + len(cu.root_name) + 1)
            u, ab, offs = cu.build(abbrev_base=len(abbrevs))
            units += u
            abbrevs += ab
        main = dwtab.CU(version=5)      # (GNU readelf 2.40 misreads a version 4 unit in front of a version 5 type unit)
        main.add(0x34, [(0x49, 0x20, struct.pack('<Q', 0x2222222222222222), None)], label='uses_sig8')
        mu, mab, _ = main.build(abbrev_base=len(abbrevs))
        abbrevs += mab
        # a version 5 type unit in .debug_info beside the version 4 ones in .debug_types (objects of both kinds linked together)
        t5 = dwtab.CU(version=5, unit_type=2, root_tag=0x41)
        t5.root_name = 'tu_v5'
        t5.header_extra = struct.pack('<QI', 0x7777777777777777, 0)
        t5.add(0x13, [(0x0b, 0x0b, bytes([12]), None)], label='S5')
        t5.header_extra = struct.pack('<QI', 0x7777777777777777, t5.header_size() + 1 + len(t5.root_name) + 1)
        tu5, tab5, _ = t5.build(abbrev_base=len(abbrevs))
        return oracles.wrap_debug({'.debug_info': mu + tu5, '.debug_abbrev': abbrevs + tab5, '.debug_types': units}, True), 6
    T.append(('debug_types', '--debug-dump=info', types_table, lambda ln: 'compilation unit @' in ln))
    T.append(('DW_AT/vendor', '--debug-dump=info', at_table(False), is_die))

    def enum_table(at, values, name):
        def b():
            cu = dwtab.CU(version=4)
            vals = sorted(set(values))
            for v in vals:
                if v < 256:
                    cu.add(0x34, [(at, 0x0b, bytes([v]), None)], label='%s.%x' % (name, v))
                else:
                    cu.add(0x34, [(at, 0x05, struct.pack('<H', v), None)], label='%s.%x' % (name, v))
            return info_file(cu), len(vals) + 2
        return b
    for at, tab, name in ((0x13, DD._DESCR_DW_LANG, 'DW_LANG'), (0x3e, DD._DESCR_DW_ATE, 'DW_ATE'), (0x32, DD._DESCR_DW_ACCESS, 'DW_ACCESS'),
                          (0x17, DD._DESCR_DW_VIS, 'DW_VIS'), (0x4c, DD._DESCR_DW_VIRTUALITY, 'DW_VIRTUALITY'),
                          (0x42, DD._DESCR_DW_ID_CASE, 'DW_ID'), (0x36, DD._DESCR_DW_CC, 'DW_CC'), (0x20, DD._DESCR_DW_INL, 'DW_INL'),
                          (0x09, DD._DESCR_DW_ORD, 'DW_ORD')):
        T.append((name, '--debug-dump=info', enum_table(at, list(tab), name), is_die))

    def form_table():
        from ..gen.leb import sleb
        cu = dwtab.CU(version=5)
        cu.root_attrs = [(0x72, 0x17, struct.pack('<I', 8), None), (0x73, 0x17, struct.pack('<I', 8), None)]   # str_offsets_base, addr_base
        dstr = b'\0first\0second\0'
        lstr = b'\0lfirst\0lsecond\0'
        stroffs = struct.pack('<IHH', 4 + 4 * 3, 5, 0) + struct.pack('<III', 1, 7, 1)
        addr = struct.pack('<IHBB', 4 + 8 * 3, 5, 8, 0) + struct.pack('<QQQ', 0x1000, 0x2000, 0x3000)
        target = 12 + 1 + 4 + 8
        LEAD = 12 + 5 + 7 + 1
        F = DE.ENUM_DW_FORM
        cases = [('addr', 0x11, struct.pack('<Q', 0x401000)), ('block2', 0x1c, struct.pack('<H', 3) + b'abc'),
                 ('block4', 0x1c, struct.pack('<I', 3) + b'abc'), ('data2', 0x1c, struct.pack('<H', 0x1234)),
                 ('data4', 0x1c, struct.pack('<I', 0x12345678)), ('data8', 0x1c, struct.pack('<Q', 0x123456789abcdef0)),
                 ('string', 0x25, b'inline\0'), ('block', 0x1c, uleb(3) + b'abc'), ('block1', 0x1c, b'\x03abc'),
                 ('data1', 0x1c, b'\x7f'), ('flag', 0x3f, b'\x01'), ('flag.false', 0x3f, b'\x00'), ('sdata', 0x1c, sleb(-300)), ('sdata.min', 0x1c, sleb(-2 ** 63)), ('sdata.tenbytes', 0x1c, sleb(-2 ** 62 - 5)),
                 ('sdata.max', 0x1c, sleb(2 ** 63 - 1)), ('udata.max', 0x1c, uleb(2 ** 64 - 1)), ('strp', 0x25, struct.pack('<I', 7)),
                 ('udata', 0x1c, uleb(300)), ('ref_addr', 0x49, struct.pack('<I', target + LEAD)), ('ref1', 0x49, bytes([target])),
                 ('ref2', 0x49, struct.pack('<H', target)), ('ref4', 0x49, struct.pack('<I', target)),
                 ('ref8', 0x49, struct.pack('<Q', target)), ('ref_udata', 0x49, uleb(target)),
                 ('sec_offset', 0x10, struct.pack('<I', 0)), ('exprloc', 0x02, dwtab.expr_block(bytes([0x75, 0x70]))),
                 ('flag_present', 0x3f, b''), ('strx', 0x03, uleb(1)), ('addrx', 0x11, uleb(1)),
                 ('ref_sig8', 0x49, struct.pack('<Q', 0x1122334455667788)), ('implicit_const', 0x1c, b''),
                 ('line_strp', 0x25, struct.pack('<I', 8)), ('data16', 0x1c, bytes(range(16))),
                 ('strx1', 0x03, b'\x01'), ('strx2', 0x03, struct.pack('<H', 1)), ('strx3', 0x03, b'\x01\0\0'),
                 ('strx4', 0x03, struct.pack('<I', 1)), ('addrx1', 0x11, b'\x02'), ('addrx2', 0x11, struct.pack('<H', 2)),
                 ('addrx3', 0x11, b'\x02\0\0'), ('addrx4', 0x11, struct.pack('<I', 2)),
                 # the real form follows in the entry: its value is described like that form's
                 ('indirect.strp', 0x25, uleb(0x0e) + struct.pack('<I', 7)), ('indirect.line_strp', 0x25, uleb(0x1f) + struct.pack('<I', 8)),
                 ('indirect.data2', 0x1c, uleb(0x05) + struct.pack('<H', 0x1234)), ('indirect.sdata', 0x1c, uleb(0x0d) + sleb(-300)),
                 ('indirect.ref4', 0x49, uleb(0x13) + struct.pack('<I', target)), ('indirect.string', 0x25, uleb(0x08) + b'inl\0'),
                 ('indirect.flag', 0x3f, uleb(0x0c) + b'\x01')]
        n = 0
        for name, at, data in cases:
            code = F.get('DW_FORM_' + name.split('.')[0])
            described = 'DW_FORM_' + (name.split('.')[1] if name.startswith('indirect.') else name.split('.')[0])
            if not isinstance(code, int) or described not in DD._ATTR_DESCRIPTION_MAP:
                continue            # only the forms the clone's description table has an entry for
            cu.add(0x34, [(at, code, data, -5 if name == 'implicit_const' else None)], label='form_' + name)
            n += 1
        # a minimal line table for DW_FORM_sec_offset/DW_AT_stmt_list is not needed: the dump prints the offset only
        return info_file(cu, extra={'.debug_str': dstr, '.debug_line_str': lstr, '.debug_str_offsets': stroffs, '.debug_addr': addr}), n + 2
    T.append(('DW_FORM', '--debug-dump=info', form_table, is_die))

    def ut_table():
        units = b''
        abbrevs = b''
        kinds = [(1, b''), (2, struct.pack('<QI', 0x1122334455667788, 0)), (3, b''), (4, struct.pack('<Q', 0xabcdef)),
                 (5, struct.pack('<Q', 0xabcdef))]       # DW_UT_split_type only occurs in .dwo sections (GNU readelf misreads it here)
        for ut, extra in kinds:
            cu = dwtab.CU(version=5, unit_type=ut, header_extra=extra,
                          root_tag={1: 0x11, 2: 0x41, 3: 0x3c, 4: 0x4a, 5: 0x11, 6: 0x41}[ut])
            if ut in (2, 6):
                cu.header_extra = extra[:8] + struct.pack('<I', cu.header_size())
            cu.add(0x24, [(0x0b, 0x0b, b'\x04', None)], label='ut%d' % ut)
            u, ab, offs = cu.build(abbrev_base=len(abbrevs))
            units += u
            abbrevs += ab
        return oracles.wrap_debug({'.debug_info': units, '.debug_abbrev': abbrevs}, True), 5
    T.append(('DW_UT', '--debug-dump=info', ut_table, lambda ln: 'compilation unit @' in ln))

    def ut64_table():
        # the same unit kinds in the 64-bit DWARF format: every offset-sized header field is 8 bytes wide
        units = b''
        abbrevs = b''
        for ut, extra in [(1, b''), (2, struct.pack('<QQ', 0x1122334455667788, 0)), (3, b''), (4, struct.pack('<Q', 0xabcdef))]:
            cu = dwtab.CU(version=5, unit_type=ut, header_extra=extra, fmt=64, root_tag={1: 0x11, 2: 0x41, 3: 0x3c, 4: 0x4a}[ut])
            if ut == 2:
                cu.header_extra = extra[:8] + struct.pack('<Q', cu.header_size())
            cu.add(0x24, [(0x0b, 0x0b, b'\x04', None)], label='ut%d' % ut)
            u, ab, offs = cu.build(abbrev_base=len(abbrevs))
            units += u
            abbrevs += ab
        return oracles.wrap_debug({'.debug_info': units, '.debug_abbrev': abbrevs}, True), 4
    T.append(('DW_UT/dwarf64', '--debug-dump=info', ut64_table, lambda ln: 'compilation unit @' in ln))

    def cfa_table(machine, eh, cls=64):
        def b():
            A = '<Q' if cls == 64 else '<I'
            from ..gen.leb import uleb as U, sleb as S
            names = sorted((v, k) for k, v in vars(DC).items() if k.startswith('DW_CFA_') and isinstance(v, int))
            ins = []
            e = bytes([0x77, 0x08])
            enc = {'DW_CFA_advance_loc': bytes([0x40 | 4]), 'DW_CFA_offset': bytes([0x80 | 6]) + U(2), 'DW_CFA_restore': bytes([0xc0 | 6]),
                   'DW_CFA_nop': b'\0', 'DW_CFA_set_loc': bytes([1]) + struct.pack(A, 0x401020), 'DW_CFA_advance_loc1': bytes([2, 9]),
                   'DW_CFA_advance_loc2': bytes([3]) + struct.pack('<H', 300), 'DW_CFA_advance_loc4': bytes([4]) + struct.pack('<I', 70000),
                   'DW_CFA_offset_extended': bytes([5]) + U(17) + U(3), 'DW_CFA_restore_extended': bytes([6]) + U(17),
                   'DW_CFA_undefined': bytes([7]) + U(3), 'DW_CFA_same_value': bytes([8]) + U(3), 'DW_CFA_register': bytes([9]) + U(3) + U(12),
                   'DW_CFA_remember_state': bytes([0x0a]), 'DW_CFA_restore_state': bytes([0x0b]), 'DW_CFA_def_cfa': bytes([0x0c]) + U(7) + U(16),
                   'DW_CFA_def_cfa_register': bytes([0x0d]) + U(6), 'DW_CFA_def_cfa_offset': bytes([0x0e]) + U(24),
                   'DW_CFA_def_cfa_expression': bytes([0x0f]) + U(len(e)) + e, 'DW_CFA_expression': bytes([0x10]) + U(3) + U(len(e)) + e,
                   'DW_CFA_offset_extended_sf': bytes([0x11]) + U(13) + S(-3), 'DW_CFA_def_cfa_sf': bytes([0x12]) + U(7) + S(-2),
                   'DW_CFA_def_cfa_offset_sf': bytes([0x13]) + S(-4), 'DW_CFA_val_offset': bytes([0x14]) + U(3) + U(2),
                   'DW_CFA_val_offset_sf': bytes([0x15]) + U(3) + S(-2), 'DW_CFA_val_expression': bytes([0x16]) + U(3) + U(len(e)) + e,
                   'DW_CFA_GNU_window_save': bytes([0x2d]), 'DW_CFA_AARCH64_negate_ra_state': bytes([0x2d]),
                   'DW_CFA_GNU_args_size': bytes([0x2e]) + U(32), 'DW_CFA_GNU_negative_offset_extended': bytes([0x2f]) + U(3) + U(2),
                   'DW_CFA_MIPS_advance_loc8': bytes([0x1d]) + struct.pack('<Q', 2 ** 33)}
            seen = set()
            order = [k for v, k in names if k in enc and k not in ('DW_CFA_restore_state',)] + ['DW_CFA_restore_state']
            body = b''
            n = 0
            for k in order:
                if enc[k] in seen or k not in vars(DC):
                    continue
                seen.add(enc[k])
                body += enc[k]
                n += 1
            if eh:
                cie_body = struct.pack('<IB', 0, 1) + b'zR\0' + U(1) + S(-8) + U(16) + U(1) + bytes([0x00]) + bytes([0x0c, 7, 8])
            else:
                cie_body = struct.pack('<IB', 0xffffffff, 1) + b'\0' + U(1) + S(-8) + U(16) + bytes([0x0c, 7, 8])
            cie_body += b'\0' * (-(len(cie_body) + 4) % (cls // 8))
            cie = struct.pack('<I', len(cie_body)) + cie_body
            if eh:
                fde_body = struct.pack('<I', len(cie) + 4) + struct.pack(A, 0x401000) + struct.pack(A, 0x100000) + U(0) + body
            else:
                fde_body = struct.pack('<I', 0) + struct.pack(A, 0x401000) + struct.pack(A, 0x100000) + body
            fde_body += b'\0' * (-(len(fde_body) + 4) % (cls // 8))
            fde = struct.pack('<I', len(fde_body)) + fde_body
            sec = cie + fde + (b'\0\0\0\0' if eh else b'')
            # the clone (ELFFile.has_dwarf_info) only looks for frames in files that also have .debug_info or .eh_frame
            tiny = dwtab.CU(version=4, asz=cls // 8)
            tiny.add(0x24, [(0x0b, 0x0b, b'\x04', None)], label='int')
            unit, ab, _ = tiny.build()
            return oracles.wrap_debug({'.eh_frame' if eh else '.debug_frame': sec, '.debug_info': unit, '.debug_abbrev': ab},
                                      True, cls=cls, machine=machine), n
        return b
    # build attributes: every (tag, value) the clone has a description for, all in one file-scope subsection
    import elftools.elf.descriptions as ED
    import elftools.elf.enums as EE

    def attr_table(arch, le=True):
        def b():
            if arch == 'arm':
                tags, vals, vendor, mach, secname, styp = EE.ENUM_ATTR_TAG_ARM, ED._DESCR_ATTR_VAL_ARM, b'aeabi', 40, '.ARM.attributes', 0x70000003
                ntbs = {4, 5, 67}
            else:
                tags, vals, vendor, mach, secname, styp = EE.ENUM_ATTR_TAG_RISCV, ED._DESCR_ATTR_VAL_RISCV, b'riscv', 243, '.riscv.attributes', 0x70000003
                ntbs = {5}
            body = b''
            n = 0
            for name, t in sorted(tags.items(), key=lambda kv: kv[1]):
                if t <= 3:
                    continue
                d = vals.get(t) if isinstance(vals, dict) else (vals[t - 1] if t - 1 < len(vals) else None)
                if t in ntbs:
                    body += uleb(t) + b'text%d\0' % t
                    n += 1
                elif isinstance(d, dict):
                    for v in sorted(d):
                        body += uleb(t) + uleb(v)
                        n += 1
                elif arch == 'arm' and t == 32:
                    body += uleb(t) + uleb(1) + b'vend\0'
                    n += 1
                elif arch == 'arm' and t == 65:
                    body += uleb(t) + uleb(6) + uleb(10) + b'\0'
                    n += 1
                elif arch == 'arm' and t == 64:
                    continue            # Tag_nodefaults changes the meaning of the rest
                else:
                    body += uleb(t) + uleb(1)
                    n += 1
            EE_ = '<I' if le else '>I'
            sub = bytes([1]) + struct.pack(EE_, 5 + len(body)) + body
            blk = vendor + b'\0' + sub
            sec = b'A' + struct.pack(EE_, 4 + len(blk)) + blk
            cls = 32 if arch == 'arm' else 64
            img = elfgen.build(cls=cls, le=le, machine=mach, etype=1, eflags=0x05000000 if arch == 'arm' else 0,
                               sections=[elfgen.Sec('.text', 1, flags=6, data=b'\0' * 4), elfgen.Sec(secname, styp, data=sec)])[0]
            return img, n
        return b
    is_tag = lambda ln: ln.strip().startswith('tag_')
    T.append(('attributes/arm', '-A', attr_table('arm'), is_tag))
    T.append(('attributes/riscv', '-A', attr_table('riscv'), is_tag))
    T.append(('attributes/arm-be', '-A', attr_table('arm', False), is_tag))
    T.append(('attributes/riscv-be', '-A', attr_table('riscv', False), is_tag))

    is_cfa = lambda ln: ln.strip().startswith('dw_cfa_') or 'cie' in ln or 'fde' in ln
    T.append(('DW_CFA/x86-64', '--debug-dump=frames', cfa_table(62, False), is_cfa))
    T.append(('DW_CFA/x86-64-eh', '--debug-dump=frames', cfa_table(62, True), is_cfa))
    T.append(('DW_CFA/aarch64', '--debug-dump=frames', cfa_table(183, False), is_cfa))
    T.append(('DW_CFA/i386', '--debug-dump=frames', cfa_table(3, False, 32), is_cfa))
    return T


def run_dwdescr(idx, rng, sh):
    tables = dw_tables()
    if idx >= len(tables):
        return
    label, option, build, is_start = tables[idx]
    with oracles.Scratch() as s:
        img, n = build()
        judge_blocks(sh, label, option, img, s, is_start, max(2, n // 2))


# ---------------------------------------------------------------- generated files (envelope generators)
def gen_families():
    from ..gen import dynobj, dwenv
    import elftools.elf.enums as E

    def relocs(rng):
        tabs = {m: sorted({v for v in getattr(E, spec[3]).values() if isinstance(v, int) and (v < 256 or spec[0] == 64)})
                for m, spec in dynobj.RELOC_MACH.items()}
        return dynobj.gen_reloc_file(rng, tabs)
    import elftools.elf.descriptions as D

    def headers(rng):
        machines = sorted({E.ENUM_E_MACHINE[k] for k in D._DESCR_E_MACHINE if isinstance(E.ENUM_E_MACHINE.get(k), int)})
        osabis = sorted({E.ENUM_EI_OSABI[k] for k in D._DESCR_EI_OSABI if isinstance(E.ENUM_EI_OSABI.get(k), int)})
        return dynobj.gen_header_file(rng, machines, [o for o in osabis if o <= 18 and o != 4])      # the generic OS ABIs readelf 2.40 names; the table itself is a descr table
    def attrs(rng):
        av = {}
        for name, t in E.ENUM_ATTR_TAG_ARM.items():
            if t > 3 and t != 64 and name in D._DESCR_ATTR_TAG_ARM:
                d = D._DESCR_ATTR_VAL_ARM[t - 1] if t - 1 < len(D._DESCR_ATTR_VAL_ARM) else None
                if name == 'TAG_FRAMEPOINTER_USE':
                    continue            # no name in readelf 2.40
                av[t] = sorted(d) if isinstance(d, dict) else []
        rv = {}
        for name, t in E.ENUM_ATTR_TAG_RISCV.items():
            if t > 3 and name in D._DESCR_ATTR_TAG_RISCV and t not in (14, 16):      # 14/16: no name in readelf 2.40
                d = D._DESCR_ATTR_VAL_RISCV.get(t)
                rv[t] = sorted(d) if isinstance(d, dict) else []
        return dynobj.gen_attrs_file(rng, av, rv)
    return [('versions', ['-V', '-s', '-d', '-e', '-r'], dynobj.gen_versions), ('notes', ['-n'], dynobj.gen_notes_file),
            ('attrs', ['-A'], attrs),
            ('headers', ['-h', '-e'], headers),
            ('symtab', ['-s', '-e'], dynobj.gen_symtab_file), ('relocs', ['-r'], relocs),
            ('layout', ['-e', '-l', '-S', '-h'], dynobj.gen_layout_file),
            ('sections', ['-S', '-e', '-s', '-r'], dynobj.gen_sections_file),
            ('dumps', ['-x.text', '-p.comment', '-x.comment', '-p.text', '-x.empty', '-x.bss', '-p.shstrtab', '-x1', '-x5', '-p2'], dynobj.gen_dump_file),
            ('lines', ['--debug-dump=decodedline'], dwenv.gen_lines_file),
            ('frames', ['--debug-dump=frames', '--debug-dump=frames-interp'], dwenv.gen_frames_file),
            ('names', ['--debug-dump=aranges', '--debug-dump=pubnames', '--debug-dump=pubtypes', '--debug-dump=info'], dwenv.gen_names_file),
            ('loclists', ['--debug-dump=loc', '--debug-dump=Ranges', '--debug-dump=info'], dwenv.gen_loc_file)]


def mask(line):
    return re.sub(r'0x[0-9a-f]+|\b[0-9a-f]{6,}\b|\d+', '#', ' '.join(line.split()))[:70]


def run_generated(idx, rng, sh):
    fams = gen_families()
    name, options, gen = fams[idx % len(fams)]
    rng.variant = idx // len(fams)          # generators may cycle their rare shapes deterministically
    img, desc = gen(rng)
    with oracles.Scratch() as s:
        p = s.write('g_%s_%d.elf' % (name, idx), img)
        for option in options:
            res, msg, n = run_pair(p, option)
            sh.count('pairs_run')
            sh.count('pairs_run:generated:' + name)
            if res == 'skip':
                sh.skip(msg)
            elif res == 'ok':
                sh.held(sig=('generated', name, option, idx) if min(n) >= 3 else None)
                sh.count('pairs_equal')
                sh.sample({'family': name, 'option': option, 'lines': n[0], 'shape': jsonable_small(desc)}, kind='generated:' + name)
            else:
                first = msg.splitlines()[1] if res == 'diff' and len(msg.splitlines()) > 1 else msg
                fid = 'name_tables_keyed_by_name'
                if res == 'diff' and name == 'names' and desc.get('dup_' + option.split('=')[-1]) and fid in sh.quirks:
                    sh.known_finding(fid)       # the same name occurs twice in the table: the open finding explains the difference
                    continue
                if res == 'diff' and any(ph in first for ph in ('unrecognized:', '<unknown>:', '<unknown:', '<processor specific>', '<os specific>')):
                    sh.count('pairs_unjudged_gnu_placeholder')
                    sh.skip('GNU readelf 2.40 has no name for a code in this file')
                    continue
                sh.violation('C18:generated %s %s: %s: %s' % (name, option, 'differs at' if res == 'diff' else 'fails', mask(first.strip('<>'))),
                             message=msg[:700], shape=jsonable_small(desc), image_hex=img.hex() if len(img) < 6000 else None)


def import_pair():
    """Two files of one layout whose DW_AT_import attributes hold the same offset but name different entries."""
    imgs = []
    for tags in ((0x39, 0x34), (0x34, 0x39)):
        cu = dwtab.CU(version=4)
        cu.add(tags[0], [], label='first')
        cu.add(tags[1], [], label='other')
        first_off = cu.header_size() + 1 + len(cu.root_name) + 1
        cu.add(0x3a, [(0x18, 0x13, struct.pack('<I', first_off), None)], label='imp')
        cu.add(0x08, [(0x18, 0x13, struct.pack('<I', first_off), None)], label='imp2')
        unit, ab, offs = cu.build()
        assert offs[0] == first_off
        imgs.append(oracles.wrap_debug({'.debug_info': unit, '.debug_abbrev': ab}, True))
    return imgs


def run_inprocess(idx, rng, sh):
    """One interpreter dumps a sequence of files through the clone's main(); every text must equal what a process of its
    own prints for that (file, option) - which the other kinds compare with GNU readelf."""
    fams = gen_families()
    with oracles.Scratch() as s:
        files = []          # (path, option)
        for k, img in enumerate(import_pair()):
            files.append((s.write('imp%d.elf' % k, img), '--debug-dump=info'))
        picks = [(idx + j * 5) % len(fams) for j in range(3)]
        for j, f in enumerate(picks):
            name, options, gen = fams[f]
            for v in (0, 1):            # two files of one family: alike in layout, different in content
                r2 = random.Random('%d:%s:%d:%d' % (sh.seed, name, idx, v))
                r2.variant = idx * 2 + v
                img, desc = gen(r2)
                files.append((s.write('f%d_%d_%s.elf' % (j, v, name), img), options[(idx + v) % len(options)] if len(options) > 1 and name != 'dumps' else options[0]))
        tabs = dw_tables()
        # the same frame instructions on two machines: register names belong to the file, not to the process
        cfa_pair = []
        for t in tabs:
            if t[0] in ('DW_CFA/x86-64', 'DW_CFA/aarch64'):
                img, _ = t[2]()
                cfa_pair.append((s.write('cfa_%s.elf' % t[0].split('/')[1], img), '--debug-dump=frames-interp'))
        files += cfa_pair
        for j in range(2):
            t = tabs[(idx * 2 + j) % len(tabs)]
            img, _ = t[2]()
            files.append((s.write('t%d.elf' % j, img), t[1]))
        single = {}
        for path, option in files:
            # (a process of its own, through the same driver so that both texts take the same way out)
            try:
                p1 = subprocess.run([sys.executable, os.path.join(VERIF_DIR, 'vf', 'inproc_driver.py'), REPO], input=json.dumps([[path, option]]).encode(),
                                    stdout=subprocess.PIPE, stderr=subprocess.PIPE, timeout=300)
                o1 = json.loads(p1.stdout.decode('utf-8', 'replace'))[0]
            except (subprocess.TimeoutExpired, ValueError, IndexError):
                o1 = {'out': '', 'err': 'no result'}
            single[(path, option)] = (1 if o1['err'] else 0, o1['out'])
        seq = []
        for rep in range(25):
            seq += [files[0], files[1]]
        rest = files[2:] * 2
        rng.shuffle(rest)
        seq += rest
        seq += [files[1], files[0]] * 4
        if len(cfa_pair) == 2:
            seq += (cfa_pair if idx % 2 else cfa_pair[::-1]) * 2
        try:
            p = subprocess.run([sys.executable, os.path.join(VERIF_DIR, 'vf', 'inproc_driver.py'), REPO], input=json.dumps(seq).encode(),
                               stdout=subprocess.PIPE, stderr=subprocess.PIPE, timeout=900)
            outs = json.loads(p.stdout.decode('utf-8', 'replace'))
        except (subprocess.TimeoutExpired, ValueError) as e:
            sh.skip('in-process driver gave no result (%s)' % type(e).__name__)
            return
        for step, ((path, option), o) in enumerate(zip(seq, outs)):
            rc, want = single[(path, option)]
            sh.count('inprocess_dumps_compared')
            got = o['out']
            if rc != 0:
                continue            # the single run failed: what it printed up to there is not a reference
            if got != want or o['err']:
                gl, wl = got.splitlines(), want.splitlines()
                k = next((i for i, (a, b) in enumerate(zip(gl, wl)) if a != b), min(len(gl), len(wl)))
                sh.violation('C18:in one process the dump of a file depends on the files dumped before it (%s): %s' % (
                    option, o['err'] or mask((gl[k] if k < len(gl) else '<end>'))),
                    step=step, file=os.path.basename(path), got=(gl[k] if k < len(gl) else None), single=(wl[k] if k < len(wl) else None),
                    before=[os.path.basename(x[0]) for x in seq[max(0, step - 4):step]])
                return
        sh.held(sig=('inprocess', idx), n=len(seq))
        sh.sample({'dumps_in_one_process': len(seq), 'distinct_files': len(files), 'options': sorted({o for _, o in files})}, kind='inprocess')


def jsonable_small(d):
    return json.loads(json.dumps(d, default=str))


def first_phdr_line(out):
    lines = out.splitlines()
    for i, ln in enumerate(lines):
        if ln.strip().lower().startswith('type') and 'offset' in ln.lower():
            j = i + 1
            while j < len(lines) and (not lines[j].strip() or lines[j].strip().lower().startswith('filesiz')):
                j += 1          # blank lines and the second heading line of the 64-bit layout
            if j < len(lines):
                nxt = lines[j + 1] if j + 1 < len(lines) and lines[j + 1].startswith('       ') else ''
                return ' '.join((lines[j] + ' ' + nxt).split()).lower()
    return None


def run_case(kind, idx, rng, sh):
    OPEN_NOW.clear()
    OPEN_NOW.update(sh.quirks)
    del APPLIED[:]
    try:
        run_case_inner(kind, idx, rng, sh)
    finally:
        for fid in APPLIED:
            sh.known_finding(fid)
        del APPLIED[:]


def run_case_inner(kind, idx, rng, sh):
    if not oracles.have('readelf'):
        sh.skip('GNU readelf missing')
        return
    if kind == 'corpus':
        pairs = corpus_pairs(extra=sh.tier != 'quick')
        if not pairs:
            sh.skip('no corpus')
            return
        if sh.tier == 'quick':
            # a seed-rotated third: pair i of every block of three
            k = idx * 3 + (sh.seed % 3)
        else:
            k = idx
        if k >= len(pairs):
            return
        path, option = pairs[k]
        if project_skips(path, option):
            sh.skip('skipped by the project\'s own runner')
            return
        judge(sh, 'corpus', path, option, os.path.basename(path), 'corpus')
    elif kind == 'system':
        pairs = system_pairs()
        k = (idx * 3 + sh.seed % 3) if sh.tier == 'quick' else idx
        if k >= len(pairs):
            return
        path, option = pairs[k]
        if not os.path.exists(path):
            sh.skip('no such file in this image')
            return
        why = system_skip(path, option)
        if why:
            sh.skip(why)
            return
        judge(sh, 'system', path, option, os.path.basename(path), 'system')
    elif kind == 'compiled':
        run_compiled(idx, rng, sh)
    elif kind == 'dwdescr':
        run_dwdescr(idx, rng, sh)
    elif kind == 'inprocess':
        run_inprocess(idx, rng, sh)
    elif kind == 'generated':
        run_generated(idx, rng, sh)
    else:
        run_descr(idx, rng, sh)


def zero_range_object():
    """A relocatable object whose location list starts with a range that relocates to (0, 0): what a compiler writes for a
    variable that is live in an empty range at the very start of a section. Only the relocations tell it from a terminator."""
    from ..gen import dwtab
    cu = dwtab.CU(version=4)
    cu.root_attrs = [(0x11, 0x01, struct.pack('<Q', 0), None)]                              # DW_AT_low_pc 0
    cu.add(0x34, [(0x02, 0x17, struct.pack('<I', 0), None)], label='v')                     # DW_AT_location -> list at 0
    u, ab, offs = cu.build()
    loc = struct.pack('<QQH', 0, 0, 1) + b'\x55' + struct.pack('<QQH', 0, 0, 1) + b'\x54' + struct.pack('<QQ', 0, 0)
    rel = b''.join(struct.pack('<QQq', off, (1 << 32) | 1, add) for off, add in ((0, 0), (8, 0), (19, 4), (27, 8)))
    sym = elfgen.sym_pack('<', True, 0, 0, 0, 0, 0, 0) + elfgen.sym_pack('<', True, 0, 0, 0, 3, 0, 1)       # section symbol of .text
    secs = [elfgen.Sec('.text', 1, flags=6, data=b'\x90' * 16, align=16),
            elfgen.Sec('.debug_info', 1, data=u), elfgen.Sec('.debug_abbrev', 1, data=ab), elfgen.Sec('.debug_loc', 1, data=loc),
            elfgen.Sec('.rela.debug_loc', 4, flags=0x40, data=rel, link='.symtab', info='.debug_loc', entsize=24, align=8),
            elfgen.Sec('.symtab', 2, data=sym, link='.strtab', info=2, entsize=24, align=8), elfgen.Sec('.strtab', 3, data=b'\0')]
    return elfgen.build(cls=64, le=True, machine=62, etype=1, sections=secs)[0]


ZERO_RANGE = re.compile(r'^\s+(?:[0-9a-f]{8} )?0{8,16} 0{8,16} \(DW_OP', re.M)


def witness(fid, sh):
    """Committed deterministic witnesses of the open findings that the generated families can hit."""
    if fid == 'zero_range_of_object_taken_for_terminator':
        with oracles.Scratch() as s:
            p = s.write('w.o', zero_range_object())
            r1 = oracles.run(['readelf', '--debug-dump=loc', p], cwd=REPO)
            r2 = oracles.run([sys.executable, 'scripts/readelf.py', '--debug-dump=loc', p], cwd=REPO)
        if not ZERO_RANGE.search(r1[1]) or '(DW_OP_reg4 (rsi))' not in r1[1]:
            sh.violation('C18:witness of %s: harness: GNU readelf does not print the two ranges' % fid, out=r1[1][-300:])
        elif r2[0] == 0 and compare_output(norm_base_lines(r1[1]), norm_base_lines(r2[1]))[0]:
            return                      # repaired: no KNOWN-FINDING line
        elif 'DW_OP_reg4' not in r2[1]:
            sh.known[fid] += 1          # the list is cut at its first entry (or the dump raises)
        else:
            sh.violation('C18:witness of %s fails differently' % fid, clone=r2[1][-300:], err=r2[2][-200:])
        return
    if fid == 'push_tls_address_hp_alias':
        from ..gen import dwtab
        cu = dwtab.CU(version=4)
        cu.add(0x34, [(0x02, 0x18, dwtab.expr_block(b'\x0e' + bytes(8) + b'\xe0'), None)], label='tls_var')
        u, ab, offs = cu.build()
        img = oracles.wrap_debug({'.debug_info': u, '.debug_abbrev': ab}, True)
        with oracles.Scratch() as s:
            p = s.write('w.elf', img)
            r1 = oracles.run(['readelf', '--debug-dump=info', p], cwd=REPO)
            r2 = oracles.run([sys.executable, 'scripts/readelf.py', '--debug-dump=info', p], cwd=REPO)
        gt, ct = TEXT_FINDINGS[0][1], TEXT_FINDINGS[0][2]
        if gt not in r1[1]:
            sh.violation('C18:witness of %s: harness: GNU readelf does not print the expected wording' % fid)
        elif gt in r2[1]:
            return                      # repaired: no KNOWN-FINDING line
        elif ct in r2[1]:
            sh.known[fid] += 1
        else:
            sh.violation('C18:witness of %s fails differently' % fid)
        return
    if fid != 'name_tables_keyed_by_name':
        return
    # two units, both with a type 'int' and a function 'f': GNU readelf prints 2+2 entries
    from ..gen import dwtab
    units = abbrevs = pubn = b''
    for i in range(2):
        cu = dwtab.CU(version=4)
        cu.root_name = 'u%d.c' % i
        cu.add(0x24, [(0x0b, 0x0b, b'\x04', None), (0x3e, 0x0b, b'\x05', None)], label='int')
        cu.add(0x2e, [(0x3f, 0x0c, b'\x01', None)], label='f')
        off = len(units)
        u, ab, offs = cu.build(abbrev_base=len(abbrevs))
        b = struct.pack('<HII', 2, off, len(u)) + struct.pack('<I', offs[1]) + b'f\0' + struct.pack('<I', 0)
        pubn += struct.pack('<I', len(b)) + b
        units += u
        abbrevs += ab
    img = oracles.wrap_debug({'.debug_info': units, '.debug_abbrev': abbrevs, '.debug_pubnames': pubn}, True)
    with oracles.Scratch() as s:
        p = s.write('w.elf', img)
        r1 = oracles.run(['readelf', '--debug-dump=pubnames', p], cwd=REPO)
        r2 = oracles.run([sys.executable, 'scripts/readelf.py', '--debug-dump=pubnames', p], cwd=REPO)
    g = sum(1 for ln in r1[1].splitlines() if ln.split()[-1:] == ['f'])
    c = sum(1 for ln in r2[1].splitlines() if ln.split()[-1:] == ['f'])
    if g != 2:
        sh.violation('C18:witness of %s: harness: GNU readelf printed %d entries' % (fid, g))
    elif c == 2:
        return                      # repaired: no KNOWN-FINDING line
    elif c == 1:
        sh.known[fid] += 1
    else:
        sh.violation('C18:witness of %s fails differently' % fid, clone_entries=c)


def finish(m, tier, seed):
    c = m['counters']
    n = c.get('pairs_run', 0) + c.get('descr_entries_run', 0)
    return {'programs': max(1, n), 'disagreements_checked': len(m['violations']) + c.get('pairs_unjudged_oracle_gap', 0) +
            c.get('descr_entries_unjudged_oracle_gap', 0),
            'oracle_gaps_listed': len(load_gaps())}
