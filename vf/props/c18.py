"""C18 - the readelf clone prints what GNU readelf prints."""
import glob
import json
import os
import platform
import struct
import sys
from difflib import SequenceMatcher

from .. import REPO, VERIF_DIR
from .. import oracles
from ..gen import elfgen
from ..gen.leb import uleb

PROP = 'C18'
LEVEL = 'translation_validation'
RULE = ('(file, option) pairs run through GNU readelf 2.40 and `python scripts/readelf.py` from the '
        'repository root, compared with a vendored frozen copy of the project\'s compare_output: (1) the '
        'regression corpus x the 18 options of the project\'s runner with its own skip rules (quick: a '
        'seed-rotated third covering every option; thorough: all); (2) gcc-compiled shared and '
        'relocatable objects of /verif/corpus/src at DWARF 2-5 x -O0/-O2 and clang objects for x86-64, '
        'i386, ARM, AArch64, MIPS32/64, PPC64, s390x at DWARF 2 and 4; (3) one synthesized file per '
        'entry of the clone\'s description tables (e_machine, OS ABI, e_type, sh_type, sh_flags bits, '
        'p_type, p_flags, symbol type/bind/visibility/shndx, dynamic tags, DT_FLAGS/DT_FLAGS_1 bits, '
        'relocation types per machine, version flags) printed with the option that shows it. '
        'A pair is non-trivial when both programs print at least 3 lines. programs = pairs compared.')
ASSUMPTIONS = [
    'oracle: GNU readelf 2.40 (the project pins >= 2.41); pairs where 2.40 is known to print an older layout '
    '(--debug-dump=loc/Ranges on .debug_loclists/.debug_rnglists) or not to relocate (LoongArch objects) are excluded',
    'for a description-table entry, if GNU readelf itself prints a placeholder (<unknown>, <processor specific>, a bare '
    'hex code) the oracle has no name and the entry is unjudged; differences recorded in oracle_gaps_C18.json '
    'could not be decided offline and are unjudged as well',
    'the tolerated differences are exactly those of the project\'s compare_output (vendored copy)',
]
KINDS = {'corpus': (288, 864, 0), 'compiled': (18, 44, 1), 'descr': (60, 60, 2)}
FLOOR = {'quick': 150, 'thorough': 600}
CASE_TIMEOUT = 1200
OPTIONS = ['-e', '-d', '-s', '-n', '-r', '-x.text', '-p.shstrtab', '-V', '--debug-dump=info', '--debug-dump=decodedline',
           '--debug-dump=frames', '--debug-dump=frames-interp', '--debug-dump=aranges', '--debug-dump=pubtypes',
           '--debug-dump=pubnames', '--debug-dump=loc', '--debug-dump=Ranges', '--arch-specific']


# ---------------------------------------------------------------- vendored compare_output (frozen copy of
# test/run_readelf_tests.py:compare_output at the pinned commit; the documented tolerated differences)
def compare_output(s1, s2):
    def prepare_lines(s):
        return [line for line in s.lower().splitlines() if line.strip()]
    lines1 = prepare_lines(s1)
    lines2 = prepare_lines(s2)
    flag_in_debug_line_section = False
    if len(lines1) != len(lines2):
        return False, 'Number of lines different: %s vs %s' % (len(lines1), len(lines2))
    view_col_position = -1
    for i in range(len(lines1)):
        if lines1[i].endswith('debug_line section:'):
            flag_in_debug_line_section = True
        lines1[i] = lines1[i].replace('procesor-specific type', 'processor-specific type')
        if view_col_position >= 0 and lines1[i].startswith('cu:'):
            view_col_position = -1
        if flag_in_debug_line_section and lines1[i].startswith('file name') and view_col_position < 0:
            view_col_position = lines1[i].find("view")
            stmt_col_position = lines1[i].find("stmt")
        if view_col_position >= 0 and not lines1[i].endswith(':'):
            lines1[i] = lines1[i][:view_col_position] + lines1[i][stmt_col_position:]
        lines1_parts = lines1[i].split()
        lines2_parts = lines2[i].split()
        if ''.join(lines1_parts) != ''.join(lines2_parts):
            ok = False
            try:
                if (''.join(lines1_parts[:-1]) == ''.join(lines2_parts[:-1]) and
                        int(lines1_parts[-1], 16) == int(lines2_parts[-1], 16)):
                    ok = True
            except (ValueError, IndexError):
                pass
            if '[...]' in lines1[i]:
                p1 = p2 = ''
                dots_start = -1
                for p1, p2 in zip(lines1_parts, lines2_parts):
                    dots_start = p1.find('[...]')
                    if dots_start != -1:
                        break
                ok = p1.endswith('[...]') and p1[:dots_start] == p2[:dots_start]
                if not ok:
                    dots_end = dots_start + 5
                    if len(p1) > dots_end and p1[dots_end] == '@':
                        ok = (p1[:dots_start] == p2[:dots_start] and p1[p1.rfind('@'):] == p2[p2.rfind('@'):])
            elif 'at_const_value' in lines1[i]:
                val = lines2_parts[-1]
                try:
                    num2 = int(val, 16 if val.startswith('0x') else 10)
                    if num2 <= -2 ** 31 and '32' in platform.architecture()[0]:
                        ok = True
                except ValueError:
                    pass
            elif 'os/abi' in lines1[i]:
                if 'unix - gnu' in lines1[i] and 'unix - linux' in lines2[i]:
                    ok = True
            elif len(lines1_parts) == 3 and lines1_parts[2] == 'nt_gnu_property_type_0':
                ok = lines1_parts == lines2_parts[:3]
            else:
                for s in ('t (tls)', 'l (large)', 'd (mbind)'):
                    if s in lines1[i] or s in lines2[i]:
                        ok = True
                        break
            if not ok:
                return False, 'Mismatch on line #%s:\n>>%s<<\n>>%s<<' % (i, lines1[i], lines2[i])
    return True, ''


def project_skips(filename, option):
    """The skip rules of the project's runner (same frozen copy)."""
    base = os.path.basename(filename)
    if base.endswith('dwarf_debug_types.elf') and option in ('--debug-dump=frames', '--debug-dump=frames-interp', '--debug-dump=aranges'):
        return True
    if 'core' in filename and option == '-n':
        return True
    if 'dwarf_v4cie' in filename and option in ('--debug-dump=frames-interp', '--debug-dump=aranges'):
        return True
    if option in ('-A', '--arch-specific') and '-eabi-' not in filename:
        return True
    return False


def section_names(path):
    try:
        with open(path, 'rb') as f:
            d = f.read()
        from .c11 import read_sections
        cls, le, mach, etype, secs = read_sections(d)
        return {s[0] for s in secs}, mach, etype
    except Exception:
        return set(), None, None


def oracle_age_skip(path, option):
    names, mach, etype = section_names(path)
    if option in ('--debug-dump=loc', '--debug-dump=Ranges') and (names & {'.debug_loclists', '.debug_rnglists'}):
        return 'readelf 2.40 prints v5 location/range lists in an older layout'
    if mach == 258 and etype == 1 and option.startswith('--debug-dump'):
        return 'readelf 2.40 does not apply LoongArch relocations to debug sections'
    return None


def run_pair(path, option, timeout=600):
    """-> ('ok' | 'diff' | 'rc' | 'skip', message, (n_lines_gnu, n_lines_clone))"""
    r1 = oracles.run(['readelf', option, path], timeout=timeout, cwd=REPO)
    r2 = oracles.run([sys.executable, 'scripts/readelf.py', option, path], timeout=timeout, cwd=REPO)
    if r1[0] == -999 or r2[0] == -999:
        return 'skip', 'timeout', (0, 0)
    n = (len(r1[1].splitlines()), len(r2[1].splitlines()))
    if 'Traceback (most recent call last)' in r2[2]:
        return 'rc', 'clone raised: ' + r2[2].strip().splitlines()[-1][:160], n
    if r1[0] != 0 and r2[0] != 0:
        return 'skip', 'both programs reject the file', n
    if r1[0] != 0 or r2[0] != 0:
        return 'rc', 'return codes differ: readelf %s, clone %s: %s' % (r1[0], r2[0], (r2[2] or r1[2]).strip()[-160:]), n
    ok, msg = compare_output(r1[1], r2[1])
    return ('ok' if ok else 'diff'), msg, n


def corpus_pairs():
    files = sorted(f for f in glob.glob(os.path.join(REPO, 'test', 'testfiles_for_readelf', '*.elf')))
    files = [f for f in files if os.path.getsize(f) > 0]
    return [(f, o) for f in files for o in OPTIONS]


def load_gaps():
    try:
        with open(os.path.join(VERIF_DIR, 'oracle_gaps_C18.json')) as f:
            return json.load(f)['gaps']
    except FileNotFoundError:
        return []


def gap_matches(kind, ident, msg):
    for g in load_gaps():
        if g['kind'] == kind and g['id'] == ident and g['gnu'].lower() in msg.lower() and g['clone'].lower() in msg.lower():
            return True
    return False


def judge(sh, what, path, option, ident, kind):
    why = oracle_age_skip(path, option)
    if why:
        sh.skip('oracle age: ' + why)
        return
    res, msg, n = run_pair(path, option)
    sh.count('pairs_run')
    if res == 'skip':
        sh.skip(msg)
        return
    if res == 'ok':
        sh.held(sig=(kind, ident, option) if min(n) >= 3 else None)
        sh.count('pairs_equal')
        sh.sample({'file': ident, 'option': option, 'lines': n[0]}, kind=kind)
        return
    if gap_matches(kind, '%s %s' % (ident, option), msg):
        sh.count('pairs_unjudged_oracle_gap')
        sh.skip('oracle gap (oracle_gaps_C18.json)')
        return
    sh.violation('C18:%s %s %s: %s' % (kind, ident, option, 'python traceback / return code' if res == 'rc' else 'output differs'),
                 message=msg[:600], lines=n)


# ---------------------------------------------------------------- compiled files
GCC_CFG = [(v, o, k) for v in (2, 3, 4, 5) for o in ('-O0', '-O2') for k in ('so', 'o')]
CLANG_TARGETS = [('x86_64-linux-gnu', True), ('i386-linux-gnu', True), ('arm-linux-gnueabi', True), ('aarch64-linux-gnu', True),
                 ('mips-linux-gnu', False), ('mips64-linux-gnuabi64', False), ('powerpc64le-linux-gnu', False), ('s390x-linux-gnu', False)]
CLANG_CFG = [(t, regs, v) for t, regs in CLANG_TARGETS for v in (2, 4)]
COMPILED_OPTS = ['-e', '-s', '-r', '-n', '--debug-dump=info', '--debug-dump=decodedline', '--debug-dump=frames',
                 '--debug-dump=frames-interp', '--debug-dump=aranges', '--debug-dump=loc', '--debug-dump=Ranges', '--debug-dump=pubnames']


def run_compiled(idx, rng, sh):
    src = [os.path.join(VERIF_DIR, 'corpus', 'src', f) for f in ('a.c', 'b.c')]
    cfgs = [('gcc',) + c for c in GCC_CFG] + [('clang',) + c for c in CLANG_CFG]
    cfg = cfgs[(idx + (sh.seed if sh.tier == 'quick' else 0)) % len(cfgs)]
    with oracles.Scratch() as s:
        if cfg[0] == 'gcc':
            _, ver, opt, kind = cfg
            out = os.path.join(s.d, 'g%d%s.%s' % (ver, opt, kind))
            cmd = ['gcc', '-gdwarf-%d' % ver, opt, '-fPIC']
            cmd += ['-shared', '-nostdlib', '-o', out] + src if kind == 'so' else ['-c', '-o', out, src[0]]
            ident = 'gcc-dwarf%d%s.%s' % (ver, opt, kind)
            regs = True
        else:
            _, target, regs, ver = cfg
            out = os.path.join(s.d, 'c_%s_%d.o' % (target.split('-')[0], ver))
            cmd = ['clang', '--target=' + target, '-gdwarf-%d' % ver, '-O1', '-c', '-o', out, src[0]]
            ident = 'clang-%s-dwarf%d.o' % (target.split('-')[0], ver)
        if not oracles.have(cmd[0]):
            sh.skip(cmd[0] + ' missing')
            return
        rc, o, e = oracles.run(cmd, timeout=180)
        if rc != 0 or not os.path.exists(out):
            sh.skip('%s cannot build %s' % (cmd[0], ident))
            return
        for option in COMPILED_OPTS:
            if not regs and option in ('--debug-dump=loc', '--debug-dump=frames', '--debug-dump=frames-interp'):
                sh.skip('register names of this machine are outside the clone\'s tables')
                continue
            judge(sh, 'compiled', out, option, ident, 'compiled')


# ---------------------------------------------------------------- description-table files
PLACEHOLDERS = ('<unknown', 'unrecognized', 'processor specific', 'os specific', 'operating system specific', '<corrupt', 'unknown:',
                '<other>', 'unknown')


def descr_jobs():
    """(table label, option, builder(code) -> image, extractor(stdout) -> text, codes)"""
    import elftools.elf.descriptions as D
    import elftools.elf.enums as E
    jobs = []

    def keys(tab, enum):
        out = []
        for k in tab:
            v = enum.get(k) if isinstance(k, str) else k
            if isinstance(v, int):
                out.append((k, v))
        return out
    jobs.append(('e_machine', '-h', keys(D._DESCR_E_MACHINE, E.ENUM_E_MACHINE), lambda c: dict(machine=c), 'machine:'))
    jobs.append(('e_type', '-h', keys(D._DESCR_E_TYPE, E.ENUM_E_TYPE), lambda c: dict(etype=c), 'type:'))
    jobs.append(('osabi', '-h', keys(D._DESCR_EI_OSABI, E.ENUM_EI_OSABI), lambda c: dict(osabi=c), 'os/abi:'))
    return jobs


def line_with(out, key):
    for ln in out.splitlines():
        if key in ln.lower():
            return ' '.join(ln.split()).lower()
    return None


def run_descr(idx, rng, sh):
    """One description table per index; every entry of the table in its own file."""
    import elftools.elf.descriptions as D
    import elftools.elf.enums as E
    tables = descr_tables()
    if idx >= len(tables):
        return
    label, option, entries, build, key = tables[idx]
    with oracles.Scratch() as s:
        for name, code in entries:
            try:
                img = build(code)
            except Exception as e:
                sh.skip('cannot build a file for %s' % label)
                continue
            p = s.write('d_%s_%x.elf' % (label.replace('/', '_'), code & 0xffffffff), img)
            r1 = oracles.run(['readelf', option, p], cwd=REPO)
            r2 = oracles.run([sys.executable, 'scripts/readelf.py', option, p], cwd=REPO)
            sh.count('descr_entries_run')
            if 'Traceback (most recent call last)' in r2[2]:
                sh.violation('C18:descr %s: clone raises on entry %s' % (label, name), message=r2[2].strip().splitlines()[-1][:200])
                continue
            g = extract(r1[1], key, code)
            c = extract(r2[1], key, code)
            if g is None or c is None:
                if g is None and c is None:
                    sh.skip('entry not shown by either program')
                else:
                    sh.violation('C18:descr %s: only one program prints the entry %s' % (label, name), gnu=g, clone=c)
                continue
            if any(ph in g for ph in PLACEHOLDERS) or g_is_bare_code(g, code):
                sh.count('descr_entries_unjudged_gnu_placeholder')
                sh.skip('GNU readelf 2.40 has no name for this code')
                continue
            ok, msg = compare_output(g, c)
            if ok:
                sh.held(sig=('descr', label, name))
                sh.count('descr_entries_equal')
                sh.sample({'table': label, 'entry': str(name), 'gnu': g, 'clone': c}, kind='descr:' + label)
            elif gap_matches('descr', '%s %s' % (label, name), 'gnu: %s clone: %s' % (g, c)):
                sh.count('descr_entries_unjudged_oracle_gap')
                sh.skip('oracle gap (oracle_gaps_C18.json)')
            else:
                sh.violation('C18:descr %s entry %s differs' % (label, name), gnu=g, clone=c)


def g_is_bare_code(text, code):
    t = text.split(':')[-1].strip()
    return t in ('%x' % code, '0x%x' % code, '%d' % code)


def extract(out, key, code):
    """The line(s) of the dump that carry the entry."""
    if callable(key):
        return key(out, code)
    return line_with(out, key)


def descr_tables():
    import elftools.elf.descriptions as D
    import elftools.elf.enums as E
    T = []

    def entries(tab, enum):
        out = []
        for k in tab:
            v = enum.get(k) if isinstance(k, str) else k
            if isinstance(v, int) and not isinstance(v, bool):
                out.append((k, v))
        return out

    def simple(**kw):
        def b(code):
            a = dict(cls=64, le=True, machine=62, etype=2, sections=[elfgen.Sec('.text', 1, flags=6, data=b'\x90' * 8, addr=0x1000)])
            for k, v in kw.items():
                a[k] = code if v is None else v
            return elfgen.build(**a)[0]
        return b
    T.append(('e_machine', '-h', entries(D._DESCR_E_MACHINE, E.ENUM_E_MACHINE), simple(machine=None), 'machine:'))
    T.append(('e_type', '-h', entries(D._DESCR_E_TYPE, E.ENUM_E_TYPE), simple(etype=None), ' type:'))
    T.append(('osabi', '-h', entries(D._DESCR_EI_OSABI, E.ENUM_EI_OSABI), simple(osabi=None), 'os/abi:'))

    def secline(out, code):
        for ln in out.splitlines():
            if '.probe' in ln:
                return ' '.join(ln.split()).lower()
        return None

    def sh_type_builder(machine):
        def b(code):
            return elfgen.build(cls=64, le=True, machine=machine, etype=1,
                                sections=[elfgen.Sec('.probe', code, data=b'\0' * 8, entsize=0)])[0]
        return b
    for mach, tab, label in ((62, E.ENUM_SH_TYPE_AMD64, 'x86-64'), (40, E.ENUM_SH_TYPE_ARM, 'arm'), (183, E.ENUM_SH_TYPE_AARCH64, 'aarch64'),
                             (8, E.ENUM_SH_TYPE_MIPS, 'mips'), (243, E.ENUM_SH_TYPE_RISCV, 'riscv')):
        ents = [(k, v) for k, v in entries(D._DESCR_SH_TYPE, tab) if v not in (2, 11, 18, 0x6ffffffc, 0x6ffffffd, 0x6ffffffe, 0x6fffffff, 5,
                                                                                0x6ffffff6, 6, 4, 9, 19, 0x70000003, 0x6ffffff3)]
        T.append(('sh_type/' + label, '-S', ents, sh_type_builder(mach), secline))

    def flag_builder(code):
        return elfgen.build(cls=64, le=True, machine=62, etype=1, sections=[elfgen.Sec('.probe', 1, flags=code, data=b'\0' * 8)])[0]
    bits = [(hex(1 << i), 1 << i) for i in range(0, 32) if (1 << i) != 0x800]
    T.append(('sh_flags', '-S', bits, flag_builder, secline))

    def segline(out, code):
        seen = False
        for ln in out.splitlines():
            if 'program headers' in ln.lower():
                seen = True
            if seen and '0x0000000000000040' in ln.lower() or (seen and '0x000040' in ln.lower()):
                return ' '.join(ln.split()).lower()
        return None

    def p_type_builder(machine):
        def b(code):
            return elfgen.build(cls=64, le=True, machine=machine, etype=2, sections=[elfgen.Sec('.text', 1, flags=6, data=b'\x90' * 8)],
                                segments=[elfgen.Seg(type=code, flags=4, offset=0, vaddr=0, filesz=8, memsz=8, align=1)])[0]
        return b
    for mach, tab, label in ((62, E.ENUM_P_TYPE_BASE, 'base'), (40, E.ENUM_P_TYPE_ARM, 'arm'), (183, E.ENUM_P_TYPE_AARCH64, 'aarch64'),
                             (8, E.ENUM_P_TYPE_MIPS, 'mips'), (243, E.ENUM_P_TYPE_RISCV, 'riscv')):
        ents = [(k, v) for k, v in entries(D._DESCR_P_TYPE, tab) if v not in (2, 3, 4)]
        T.append(('p_type/' + label, '-l', ents, p_type_builder(mach), lambda out, code: first_phdr_line(out)))

    def p_flags_builder(code):
        return elfgen.build(cls=64, le=True, machine=62, etype=2, sections=[elfgen.Sec('.text', 1, flags=6, data=b'\x90' * 8)],
                            segments=[elfgen.Seg(type=1, flags=code, offset=0, vaddr=0, filesz=8, memsz=8, align=1)])[0]
    T.append(('p_flags', '-l', [(str(i), i) for i in range(8)], p_flags_builder, lambda out, code: first_phdr_line(out)))

    def sym_builder(field):
        def b(code):
            E_ = '<'
            info, other, shndx = 0x12, 0, 1
            if field == 'type':
                info = 0x10 | code
            elif field == 'bind':
                info = (code << 4) | 2
            elif field == 'vis':
                other = code
            else:
                shndx = code
            syms = elfgen.sym_pack(E_, True, 0, 0, 0, 0, 0, 0) + elfgen.sym_pack(E_, True, 1, 0x1000, 4, info, other, shndx)
            return elfgen.build(cls=64, le=True, machine=62, etype=1,
                                sections=[elfgen.Sec('.text', 1, flags=6, data=b'\x90' * 8),
                                          elfgen.Sec('.symtab', 2, data=syms, link='.strtab', info=1, entsize=24, align=8),
                                          elfgen.Sec('.strtab', 3, data=b'\0probe\0')])[0]
        return b

    def symline(out, code):
        for ln in out.splitlines():
            if ln.rstrip().endswith('probe'):
                return ' '.join(ln.split()).lower()
        return None
    T.append(('st_type', '-s', entries(D._DESCR_ST_INFO_TYPE, E.ENUM_ST_INFO_TYPE), sym_builder('type'), symline))
    T.append(('st_bind', '-s', entries(D._DESCR_ST_INFO_BIND, E.ENUM_ST_INFO_BIND), sym_builder('bind'), symline))
    T.append(('st_visibility', '-s', entries(D._DESCR_ST_VISIBILITY, E.ENUM_ST_VISIBILITY), sym_builder('vis'), symline))
    T.append(('st_shndx', '-s', entries(D._DESCR_ST_SHNDX, E.ENUM_ST_SHNDX), sym_builder('shndx'), symline))

    def dyn_builder(machine, osabi=0):
        def b(code):
            tags = [(5, 0x2000), (6, 0x2100), (10, 8), (11, 24), (code, 1 if code not in (1, 14, 15, 29) else 1), (0, 0)]
            dyn = b''.join(struct.pack('<qQ', t if t < 2 ** 63 else t - 2 ** 64, v) for t, v in tags)
            secs = [elfgen.Sec('.dynstr', 3, flags=2, data=b'\0lib.so\0', addr=0x2000),
                    elfgen.Sec('.dynsym', 11, flags=2, data=bytes(24), link='.dynstr', info=1, entsize=24, addr=0x2100, align=8),
                    elfgen.Sec('.dynamic', 6, flags=3, data=dyn, link='.dynstr', entsize=16, addr=0x3000, align=8)]
            return elfgen.build(cls=64, le=True, machine=machine, osabi=osabi, etype=3, sections=secs,
                                segments=[elfgen.Seg(type=1, sec='.dynstr', vaddr=0x2000), elfgen.Seg(type=1, sec='.dynsym', vaddr=0x2100),
                                          elfgen.Seg(type=2, sec='.dynamic', vaddr=0x3000)])[0]
        return b

    def dynline(out, code):
        lines = [ln for ln in out.splitlines() if ln.strip().startswith('0x')]
        return ' '.join(lines[4].split()).lower() if len(lines) >= 6 else None
    # every tag in the context its table belongs to (the combined description table is keyed by number)
    def tagset(enum, skip=()):
        return [(k, v) for k, v in enum.items() if isinstance(v, int) and isinstance(k, str) and v not in (0, 5, 6, 10, 11) + tuple(skip)
                and not k.endswith(('LOOS', 'HIOS', 'LOPROC', 'HIPROC', 'VALRNGLO', 'VALRNGHI', 'ADDRRNGLO', 'ADDRRNGHI', 'NUM'))]
    T.append(('d_tag/common', '-d', tagset(E.ENUM_D_TAG_COMMON), dyn_builder(62), dynline))
    T.append(('d_tag/mips', '-d', tagset(E.ENUM_D_TAG_MIPS), dyn_builder(8), dynline))
    T.append(('d_tag/aarch64', '-d', tagset(E.ENUM_D_TAG_AARCH64), dyn_builder(183), dynline))
    T.append(('d_tag/solaris', '-d', tagset(E.ENUM_D_TAG_SOLARIS), dyn_builder(2, 6), dynline))

    def dflag_builder(tag):
        def b(code):
            tags = [(5, 0x2000), (6, 0x2100), (10, 8), (11, 24), (tag, code), (0, 0)]
            dyn = b''.join(struct.pack('<qQ', t, v) for t, v in tags)
            secs = [elfgen.Sec('.dynstr', 3, flags=2, data=b'\0lib.so\0', addr=0x2000),
                    elfgen.Sec('.dynsym', 11, flags=2, data=bytes(24), link='.dynstr', info=1, entsize=24, addr=0x2100, align=8),
                    elfgen.Sec('.dynamic', 6, flags=3, data=dyn, link='.dynstr', entsize=16, addr=0x3000, align=8)]
            return elfgen.build(cls=64, le=True, machine=62, etype=3, sections=secs,
                                segments=[elfgen.Seg(type=1, sec='.dynstr', vaddr=0x2000), elfgen.Seg(type=1, sec='.dynsym', vaddr=0x2100),
                                          elfgen.Seg(type=2, sec='.dynamic', vaddr=0x3000)])[0]
        return b
    T.append(('DT_FLAGS', '-d', [(k, v) for k, v in E.ENUM_DT_FLAGS.items() if isinstance(v, int)], dflag_builder(30), dynline))
    T.append(('DT_FLAGS_1', '-d', [(k, v) for k, v in E.ENUM_DT_FLAGS_1.items() if isinstance(v, int)], dflag_builder(0x6ffffffb), dynline))

    def reloc_builder(machine, cls, le, rela):
        def b(code):
            from .c08 import build_rel_image
            return build_rel_image(None, machine, cls, le, rela, [(0, 1, code, 0)], [0, 0x10], bytes(16), target='.data')[0]
        return b

    def relline(out, code):
        lines = [ln for ln in out.splitlines() if ln.strip() and ln.strip()[0] in '0123456789abcdef' and len(ln.split()) >= 3]
        return ' '.join(lines[0].split()).lower() if lines else None
    for label, enum, mach, cls, le, rela in (('i386', E.ENUM_RELOC_TYPE_i386, 3, 32, True, False), ('x86-64', E.ENUM_RELOC_TYPE_x64, 62, 64, True, True),
                                              ('arm', E.ENUM_RELOC_TYPE_ARM, 40, 32, True, False), ('aarch64', E.ENUM_RELOC_TYPE_AARCH64, 183, 64, True, True),
                                              ('mips', E.ENUM_RELOC_TYPE_MIPS, 8, 32, False, False), ('ppc64', E.ENUM_RELOC_TYPE_PPC64, 21, 64, True, True),
                                              ('s390x', E.ENUM_RELOC_TYPE_S390X, 22, 64, False, True), ('loongarch', E.ENUM_RELOC_TYPE_LOONGARCH, 258, 64, True, True),
                                              ('ppc', E.ENUM_RELOC_TYPE_PPC, 20, 32, False, True)):
        ents = [(k, v) for k, v in enum.items() if isinstance(v, int) and (v < 256 or cls == 64)]
        T.append(('reloc/' + label, '-r', ents, reloc_builder(mach, cls, le, rela), relline))
    return T


def first_phdr_line(out):
    lines = out.splitlines()
    for i, ln in enumerate(lines):
        if ln.strip().lower().startswith('type') and 'offset' in ln.lower():
            j = i + 1
            while j < len(lines) and not lines[j].strip():
                j += 1
            if j < len(lines):
                nxt = lines[j + 1] if j + 1 < len(lines) and lines[j + 1].startswith('       ') else ''
                return ' '.join((lines[j] + ' ' + nxt).split()).lower()
    return None


def run_case(kind, idx, rng, sh):
    if not oracles.have('readelf'):
        sh.skip('GNU readelf missing')
        return
    if kind == 'corpus':
        pairs = corpus_pairs()
        if not pairs:
            sh.skip('no corpus')
            return
        if sh.tier == 'quick':
            # a seed-rotated third: pair i of every block of three
            k = idx * 3 + (sh.seed % 3)
        else:
            k = idx
        if k >= len(pairs):
            return
        path, option = pairs[k]
        if project_skips(path, option):
            sh.skip('skipped by the project\'s own runner')
            return
        judge(sh, 'corpus', path, option, os.path.basename(path), 'corpus')
    elif kind == 'compiled':
        run_compiled(idx, rng, sh)
    else:
        run_descr(idx, rng, sh)


def finish(m, tier, seed):
    c = m['counters']
    n = c.get('pairs_run', 0) + c.get('descr_entries_run', 0)
    return {'programs': max(1, n), 'disagreements_checked': len(m['violations']) + c.get('pairs_unjudged_oracle_gap', 0) +
            c.get('descr_entries_unjudged_oracle_gap', 0),
            'oracle_gaps_listed': len(load_gaps())}
