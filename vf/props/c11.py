"""C11 - the DWARF view is invariant under container encoding of the same debug data."""
import binascii
import glob
import hashlib
import io
import os
import struct
import zlib

from .. import REPO, VERIF_DIR
from ..gen import elfgen, dwarfgen as G, linegen, cfigen
from ..gen.leb import uleb
from .. import oracles

PROP = 'C11'
LEVEL = 'exploration'
RULE = ('payloads: debug sections of the repository\'s non-relocatable test binaries (extracted with '
        'my own section reader), gcc-compiled shared objects of /verif/corpus/src at DWARF 2-5, and '
        'synthesized sets (units + line tables + .debug_frame/.eh_frame + aranges/pubnames, both byte '
        'orders and classes). Each payload is re-emitted by my own writer as: plain; SHF_COMPRESSED at '
        'zlib levels 0/1/6/9 with the class\'s compression header; legacy .zdebug (ZLIB + big-endian size) '
        'with all sections renamed or only the shrunk ones (as binutils does); debug sections moved to '
        'a separate file behind .gnu_debuglink with right and wrong CRC; with an added .gnu_debugaltlink '
        'or .debug_sup link to a supplementary file, with and without a stream loader; follow_links in '
        '{True, False}; and, for native payloads, by objcopy (zlib-gabi, zlib-gnu, only-keep-debug + '
        'add-gnu-debuglink). Oracle: the full dump (unit headers, every entry, line tables, frame '
        'tables with decoded rows, aranges, pubnames) must be identical across all containers of a '
        'payload; alt-form values must resolve into the supplementary file when a loader is present; '
        'has_dwarf_info(strict) and the three rejections are checked. distinct = (payload source, '
        'class, order, container kind, parameters).')
ASSUMPTIONS = [
    'a payload\'s containers keep the ELF class, byte order, machine and the address of .eh_frame (they are part of '
    'the logical content: default address size and pc-relative pointers depend on them)',
    '.zdebug framing errors are AssertionError as the property lists them (not run under python -O)',
    'dumps with and without a loader are compared only for payloads that import nothing',
    'behind a debug link the .eh_frame stays in the stripped file (as objcopy leaves it); its tables are part of the dump',
]
KINDS = {'synth': (160, 2400, 1), 'corpus': (40, 80, 1), 'compiled': (6, 48, 1), 'altlink': (60, 900, 2), 'reject': (60, 900, 4)}
FLOOR = {'quick': 500, 'thorough': 8000}
CASE_TIMEOUT = 900
REACH = ['elftools.elf.elffile:ELFFile.get_dwarf_info', 'elftools.elf.elffile:ELFFile._decompress_dwarf_section',
         'elftools.elf.elffile:ELFFile._read_dwarf_section', 'elftools.elf.elffile:ELFFile.has_dwarf_info',
         'elftools.elf.elffile:ELFFile.get_supplementary_dwarfinfo', 'elftools.dwarf.dwarfinfo:DWARFInfo.parse_debugsupinfo',
         'elftools.elf.sections:Section.data']


class Bad(Exception):
    def __init__(self, key, **d):
        Exception.__init__(self, key)
        self.key, self.d = key, d


# ------------------------------------------------------------------ my own section reader
def read_sections(data):
    """-> (cls, le, machine, etype, [(name, type, flags, addr, bytes)])"""
    cls = 64 if data[4] == 2 else 32
    le = data[5] == 1
    E = '<' if le else '>'
    if cls == 64:
        etype, mach = struct.unpack_from(E + 'HH', data, 16)
        shoff, = struct.unpack_from(E + 'Q', data, 40)
        shentsize, shnum, shstrndx = struct.unpack_from(E + 'HHH', data, 58)
    else:
        etype, mach = struct.unpack_from(E + 'HH', data, 16)
        shoff, = struct.unpack_from(E + 'I', data, 32)
        shentsize, shnum, shstrndx = struct.unpack_from(E + 'HHH', data, 46)
    hdrs = []
    for i in range(shnum):
        o = shoff + i * shentsize
        if cls == 64:
            n, t, f, a, off, sz = struct.unpack_from(E + 'IIQQQQ', data, o)
        else:
            n, t, f, a, off, sz = struct.unpack_from(E + 'IIIIII', data, o)
        hdrs.append((n, t, f, a, off, sz))
    strs = data[hdrs[shstrndx][4]:hdrs[shstrndx][4] + hdrs[shstrndx][5]]
    out = []
    for n, t, f, a, off, sz in hdrs:
        name = strs[n:strs.index(b'\0', n)].decode('latin-1')
        out.append((name, t, f, a, b'' if t == 8 else data[off:off + sz]))
    return cls, le, mach, etype, out


def read_sections_full(data):
    """-> (cls, le, machine, etype, [dict(name,type,flags,addr,data,link,info,align,entsize,size)]) incl. index 0"""
    cls = 64 if data[4] == 2 else 32
    le = data[5] == 1
    E = '<' if le else '>'
    etype, mach = struct.unpack_from(E + 'HH', data, 16)
    if cls == 64:
        shoff, = struct.unpack_from(E + 'Q', data, 40)
        shentsize, shnum, shstrndx = struct.unpack_from(E + 'HHH', data, 58)
    else:
        shoff, = struct.unpack_from(E + 'I', data, 32)
        shentsize, shnum, shstrndx = struct.unpack_from(E + 'HHH', data, 46)
    hdrs = []
    for i in range(shnum):
        o = shoff + i * shentsize
        hdrs.append(struct.unpack_from(E + ('IIQQQQIIQQ' if cls == 64 else 'IIIIIIIIII'), data, o))
    strs = data[hdrs[shstrndx][4]:hdrs[shstrndx][4] + hdrs[shstrndx][5]]
    out = []
    for n, t, f, a, off, sz, link, info, align, ent in hdrs:
        name = strs[n:strs.index(b'\0', n)].decode('latin-1')
        out.append(dict(name=name, type=t, flags=f, addr=a, data=b'' if t == 8 else data[off:off + sz], link=link, info=info,
                        align=align, entsize=ent, size=sz))
    return cls, le, mach, etype, out


def reemit_object(data, kind, rng, level=6):
    """Re-emit a relocatable object keeping every section at its index; debug sections are stored
    plain / SHF_COMPRESSED / as .zdebug (with their relocation sections renamed like binutils does)."""
    cls, le, mach, etype, secs = read_sections_full(data)
    out = []
    for sc in secs[1:]:
        name, d, flags = sc['name'], sc['data'], sc['flags']
        isdbg = name.startswith('.debug_') and sc['type'] == 1
        if isdbg and kind == 'gabi':
            d = chdr(cls, le, len(d), max(sc['align'], 1)) + zlib.compress(d, level)
            flags |= 0x800
        elif kind == 'zdebug':
            if isdbg:
                d = b'ZLIB' + struct.pack('>Q', len(d)) + zlib.compress(d, level)
                name = '.z' + name[1:]
            elif name.startswith('.rela.debug_') or name.startswith('.rel.debug_'):
                name = name.replace('.debug_', '.zdebug_')
        out.append(elfgen.Sec(name, sc['type'], flags=flags, addr=sc['addr'], data=d, link=sc['link'], info=sc['info'],
                              align=sc['align'], entsize=sc['entsize'], size=sc['size'] if sc['type'] == 8 else None))
    img, info = elfgen.build(cls=cls, le=le, machine=mach, etype=etype, sections=out, shstr_name='.shstrtab.new')
    return img


DEBUG_NAMES = ['.debug_info', '.debug_aranges', '.debug_abbrev', '.debug_str', '.debug_line', '.debug_frame', '.debug_loc',
               '.debug_ranges', '.debug_pubtypes', '.debug_pubnames', '.debug_addr', '.debug_str_offsets', '.debug_line_str',
               '.debug_loclists', '.debug_rnglists', '.debug_types']


# ------------------------------------------------------------------ the dump
def hh(x):
    return hashlib.sha1(repr(x).encode()).hexdigest()[:16]


def dump(di, deep=True):
    """Component digests of everything the statement names."""
    out = {}
    units = []
    nd = 0
    lines = []
    for cu in di.iter_CUs():
        h = cu.header
        units.append((cu.cu_offset, cu.cu_die_offset, cu.size, cu.structs.dwarf_format, tuple(sorted((k, repr(v)) for k, v in h.items()))))
        dies = []
        for d in cu.iter_DIEs():
            dies.append((d.offset, d.size, d.tag, d.abbrev_code, d.has_children,
                         tuple((a.name, a.form, repr(a.raw_value), repr(a.value), a.offset) for a in d.attributes.values())))
            nd += 1
        units.append(hh(dies))
        if di.debug_line_sec is not None:
            lp = di.line_program_for_CU(cu)
            if lp is not None:
                hd = lp.header
                fe = hd['file_entry'] or ()
                rows = []
                for e in lp.get_entries():
                    s = e.state
                    if s is not None:
                        rows.append((s.address, s.op_index, s.file, s.line, s.column, bool(s.is_stmt), bool(s.basic_block),
                                     bool(s.end_sequence), bool(s.prologue_end), bool(s.epilogue_begin), s.isa, s.discriminator))
                lines.append((hd['unit_length'], hd['version'], tuple(hd['include_directory'] or ()),
                              tuple((f.name, f.dir_index, f.mtime, f.length) for f in fe), hh(rows), len(rows)))
    out['units'] = hh(units)
    out['n_entries'] = nd
    out['lines'] = hh(lines)
    out['n_line_programs'] = len(lines)
    if di.has_debug_types():
        out['types'] = hh([(t.tu_offset, t['signature'], [(d.offset, d.tag, d.size) for d in t.iter_DIEs()]) for t in di.iter_TUs()])

    def cfi(entries):
        from elftools.dwarf.callframe import ZERO
        res = []
        for e in entries:
            if isinstance(e, ZERO):
                res.append(('zero', e.offset))
                continue
            dec = e.get_decoded()
            tab = [(ln['pc'], repr(ln['cfa']), tuple(sorted((k, repr(v)) for k, v in ln.items() if k not in ('pc', 'cfa')))) for ln in dec.table]
            res.append((type(e).__name__, e.offset, tuple(sorted((k, repr(v)) for k, v in e.header.items())),
                        tuple((i.opcode, repr(i.args)) for i in e.instructions), hh(tab), tuple(dec.reg_order),
                        e.cie.offset if e.cie is not None else None, getattr(e, 'lsda_pointer', None), bytes(e.augmentation_bytes or b'')))
        return res
    if di.has_CFI():
        c = cfi(di.CFI_entries())
        out['debug_frame'] = hh(c)
        out['n_cfi'] = len(c)
    if di.has_EH_CFI():
        try:
            c = cfi(di.EH_CFI_entries())
            out['eh_frame'] = hh(c)
            out['n_eh_cfi'] = len(c)
        except Exception as e:
            out['eh_frame'] = 'EXC ' + type(e).__name__
    ar = di.get_aranges()
    if ar is not None:
        out['aranges'] = hh([tuple(e) for e in ar.entries])
    for nm, t in (('pubnames', di.get_pubnames()), ('pubtypes', di.get_pubtypes())):
        if t is not None:
            out[nm] = hh([(n, e.cu_ofs, e.die_ofs) for n, e in t.items()])
    return out


# ------------------------------------------------------------------ containers
def chdr(cls, le, size, align=1, ctype=1):
    E = '<' if le else '>'
    return struct.pack(E + ('IIQQ' if cls == 64 else 'III'), *((ctype, 0, size, align) if cls == 64 else (ctype, size, align)))


def other_sections(P):
    """Non-debug context every container keeps (a little text, .eh_frame at its address)."""
    secs = [elfgen.Sec('.text', 1, flags=6, data=b'\x90' * 16, addr=0x1000, align=16)]
    if P.get('eh_frame') is not None:
        secs.append(elfgen.Sec('.eh_frame', 1, flags=2, data=P['eh_frame'], addr=P['eh_addr'], align=8))
    return secs


def emit(P, kind, rng, level=6, rename='all', link=None, drop_debug=False, eh_nobits=False):
    """Build one container of payload P. kind: plain | gabi | zdebug."""
    secs = other_sections(P)
    if eh_nobits:
        for s in secs:
            if s.name == '.eh_frame':
                s.type, s.size, s.data = 8, len(s.data), b''
    if not drop_debug:
        dtype = 0x7000001e if P['machine'] == 8 else 1
        for name, data in P['debug'].items():
            if kind == 'plain':
                secs.append(elfgen.Sec(name, dtype, data=data))
            elif kind == 'gabi':
                comp = zlib.compress(data, level)
                secs.append(elfgen.Sec(name, dtype, flags=0x800, data=chdr(P['cls'], P['le'], len(data), rng.choice([1, 4, 8])) + comp,
                                       align=rng.choice([1, 8])))
            else:
                framed = b'ZLIB' + struct.pack('>Q', len(data)) + zlib.compress(data, level)
                if rename == 'all' or len(framed) < len(data) or name == '.debug_info':
                    secs.append(elfgen.Sec('.z' + name[1:], dtype, data=framed))
                else:
                    secs.append(elfgen.Sec(name, dtype, data=data))       # binutils leaves a section that would not shrink alone
    if link:
        secs.append(link() if callable(link) else link)
    rng.shuffle(secs)
    img, info = elfgen.build(cls=P['cls'], le=P['le'], machine=P['machine'], etype=P.get('etype', 3), sections=secs)
    return img


def debuglink_section(le, filename, crc):
    E = '<' if le else '>'
    name = filename + b'\0'
    name += b'\0' * ((-len(name)) % 4)
    return elfgen.Sec('.gnu_debuglink', 1, data=name + struct.pack(E + 'I', crc))


def altlink_section(filename):
    return elfgen.Sec('.gnu_debugaltlink', 1, data=filename + b'\0' + bytes(range(20)))


def debugsup_section(le, filename, is_sup):
    E = '<' if le else '>'
    return elfgen.Sec('.debug_sup', 1, data=struct.pack(E + 'HB', 5, is_sup) + filename + b'\0' + uleb(4) + b'\1\2\3\4')


def open_dump(img, loader=None, follow=True, relocate=True):
    from elftools.elf.elffile import ELFFile
    ef = ELFFile(io.BytesIO(img), stream_loader=loader)
    return ef, dump(ef.get_dwarf_info(relocate_dwarf_sections=relocate, follow_links=follow))


def cmp_dumps(ref, got, what, ignore=()):
    keys = sorted(set(ref) | set(got))
    diff = [k for k in keys if k not in ignore and ref.get(k) != got.get(k)]
    if diff:
        raise Bad('dump differs from the plain container: %s (component %s)' % (what, diff[0]), ref={k: ref.get(k) for k in diff},
                  got={k: got.get(k) for k in diff})


def check_containers(P, rng, sh, tag):
    from elftools.elf.elffile import ELFFile
    from elftools.common.exceptions import ELFError
    plain = emit(P, 'plain', rng)
    ef, ref = open_dump(plain)
    if not ef.has_dwarf_info() or not ef.has_dwarf_info(strict=True):
        raise Bad('has_dwarf_info false on a plain container')
    n = 1
    levels = [0, 1, 6, 9] if sh.tier == 'thorough' else [rng.choice([0, 1]), rng.choice([6, 9])]
    for lv in levels:
        _, d = open_dump(emit(P, 'gabi', rng, level=lv))
        cmp_dumps(ref, d, 'SHF_COMPRESSED level %d' % lv)
        n += 1
        sh.sig((tag, 'gabi', lv, P['cls'], P['le']))
    for rename in ('all', 'shrunk'):
        img = emit(P, 'zdebug', rng, level=rng.choice([1, 6, 9]), rename=rename)
        e2 = ELFFile(io.BytesIO(img))
        if not e2.has_dwarf_info(strict=True):
            raise Bad('has_dwarf_info(strict) false on a .zdebug container')
        _, d = open_dump(img)
        cmp_dumps(ref, d, '.zdebug framing (%s sections renamed)' % rename)
        n += 1
        sh.sig((tag, 'zdebug', rename, P['cls'], P['le']))
    # separate debug file behind a checksum-verified link
    dbg = emit(P, rng.choice(['plain', 'gabi']), rng, eh_nobits=P.get('eh_frame') is not None and rng.random() < 0.5)
    crc = binascii.crc32(dbg) & 0xffffffff
    fname = rng.choice([b'x.debug', b'prog.debug', b'ls.debug', b'a', b'libfoo.so.1.debug', b'debuglink.debug'])
    calls = []

    def loader(name):
        calls.append(bytes(name))
        return io.BytesIO(dbg)
    stripped = emit(P, 'plain', rng, drop_debug=True, link=debuglink_section(P['le'], fname, crc))
    es = ELFFile(io.BytesIO(stripped), stream_loader=loader)
    if es.has_dwarf_info(strict=True) or es.has_dwarf_info() != (P.get('eh_frame') is not None):
        raise Bad('has_dwarf_info on a stripped file (strict must be False; non-strict follows .eh_frame)')
    lk = es.get_dwarf_link()
    if not es.has_dwarf_link() or lk is None or lk.filename != fname or lk.checksum != crc:
        raise Bad('get_dwarf_link fields (file name length %d mod 4)' % (len(fname) % 4), got=(lk.filename, lk.checksum) if lk else None, want=(fname, crc))
    d = dump(es.get_dwarf_info())
    if calls != [fname]:
        raise Bad('stream loader not called with the link file name', calls=calls)
    cmp_dumps(ref, d, 'separate debug file behind .gnu_debuglink')
    n += 1
    sh.sig((tag, 'debuglink', len(fname) % 4, P['cls'], P['le']))
    bad = emit(P, 'plain', rng, drop_debug=True, link=debuglink_section(P['le'], fname, crc ^ rng.choice([1, 0x80000000, 0xffffffff])))
    try:
        ELFFile(io.BytesIO(bad), stream_loader=loader).get_dwarf_info()
        raise Bad('debug link with a wrong checksum accepted')
    except ELFError:
        n += 1
    # the same pair as files on disk, opened by path; then the debug file is changed in place (same path, same size) and
    # the link followed again in this process: the checksum is a statement about the bytes that are there now
    if rng.random() < 0.5:
        with oracles.Scratch() as sc:
            mp = sc.write('main.elf', stripped)
            dp = sc.write(fname.decode(), dbg)
            e1 = ELFFile.load_from_path(mp)
            try:
                d = dump(e1.get_dwarf_info())
            finally:
                e1.stream.close()
            cmp_dumps(ref, d, 'separate debug file on disk, opened by path')
            changed = bytearray(dbg)
            changed[rng.randrange(len(changed))] ^= rng.choice([1, 0x40, 0xff])
            sc.write(fname.decode(), bytes(changed))
            e2 = ELFFile.load_from_path(mp)
            try:
                e2.get_dwarf_info()
                raise Bad('a debug file changed in place (same path, same size) is accepted under the checksum of its old contents')
            except ELFError:
                n += 1
            finally:
                e2.stream.close()
            sc.write(fname.decode(), dbg)
            e3 = ELFFile.load_from_path(mp)
            try:
                cmp_dumps(ref, dump(e3.get_dwarf_info()), 'separate debug file on disk, restored after a change')
            finally:
                e3.stream.close()
            n += 2
            sh.count('debuglink_pairs_on_disk_changed_in_place')
    # follow_links=False on the stripped file: no debug data, whatever the loader
    d0 = ELFFile(io.BytesIO(stripped), stream_loader=loader).get_dwarf_info(follow_links=False)
    if d0.has_debug_info:
        raise Bad('follow_links=False still followed the debug link')
    # supplementary link on a payload without alt forms changes nothing
    if not P.get('has_alt'):
        sup = emit(dict(P, debug={'.debug_info': P['debug']['.debug_info'], '.debug_abbrev': P['debug']['.debug_abbrev'],
                                  '.debug_str': P['debug'].get('.debug_str', b'\0')}, eh_frame=None), 'plain', rng,
                   link=debugsup_section(P['le'], b'main', 1))
        for how in ('altlink', 'debug_sup'):
            link = (lambda: altlink_section(b'sup.dwz')) if how == 'altlink' else (lambda: debugsup_section(P['le'], b'sup.dwz', 0))
            img = emit(P, rng.choice(['plain', 'gabi']), rng, link=link)
            for ld in (None, lambda name: io.BytesIO(sup)):
                for follow in (True, False):
                    _, d = open_dump(img, loader=ld, follow=follow)
                    if not P.get('imports') or ld is None or not follow:
                        cmp_dumps(ref, d, 'added %s link (loader %s, follow_links=%s)' % (how, 'present' if ld else 'absent', follow))
                    n += 1
            sh.sig((tag, how, P['cls'], P['le']))
    return n, ref


# ------------------------------------------------------------------ payload sources
def synth_payload(rng):
    le = rng.random() < 0.5
    cls = rng.choice([32, 64])
    asz = cls // 8
    strtab, lstrtab, line, lunits = bytearray(b'\0'), bytearray(b'\0'), bytearray(), []
    n = rng.choice([1, 2, 4])
    for i in range(n):
        u = linegen.gen_unit(rng, le, strtab, lstrtab, asz=asz, allow_unk_std=False, nops=rng.choice([0, 5, 40]))
        u.off = len(line)
        line += u.data
        lunits.append(u)

    def top_extra(ui, ver, fmt, asz_):
        return [(0x10, 'sec_offset' if ver >= 4 else ('data4' if fmt == 32 else 'data8'), lunits[ui].off)]
    B = G.gen_info_retry(rng, le, nunits=n, force=[dict(fmt=u.fmt, asz=asz) for u in lunits], top_extra=top_extra,
                         shared_abbrev=False, allow_big=False, types_section=rng.random() < 0.3, init_str=bytes(strtab),
                         init_lstr=bytes(lstrtab), exclude=('GNU_ref_alt', 'GNU_strp_alt', 'ref_sup4', 'ref_sup8', 'strp_sup'))
    debug = dict(B.sec)
    debug['.debug_line'] = bytes(line)
    if rng.random() < 0.7:
        sec, items, _ = cfigen.gen_section(rng, le, asz, False)
        debug['.debug_frame'] = sec
    P = dict(cls=cls, le=le, machine=62 if (le and cls == 64) else 3 if (le and cls == 32) else 21 if cls == 64 else 20, debug=debug, etype=3)
    if rng.random() < 0.15:
        P['machine'] = 8        # MIPS: the assembler gives debug sections the type SHT_MIPS_DWARF, compressed or not
    if rng.random() < 0.6:
        sec, items, addr = cfigen.gen_section(rng, le, asz, True)
        P['eh_frame'], P['eh_addr'] = sec, addr
    # aranges / pubnames over the real units
    E = '<' if le else '>'
    ar = b''
    pn = b''
    for U in B.units:
        if U.off < 2 ** 32:
            f = E + ('QQ' if asz == 8 else 'II')
            body = struct.pack(E + 'HIBB', 2, U.off, asz, 0)
            body += b'\0' * ((-(len(ar) + 4 + len(body))) % (2 * asz))
            body += struct.pack(f, 0x1000 + U.off, 0x10) + struct.pack(f, 0, 0)
            if (len(body) + 4) % (2 * asz):
                body += b'\0' * ((-(len(body) + 4)) % (2 * asz))
            ar += struct.pack(E + 'I', len(body)) + body
            b2 = struct.pack(E + 'HII', 2, U.off, min(U.size, 2 ** 32 - 1)) + struct.pack(E + 'I', U.hdrlen) + b'u%d\0' % U.off + struct.pack(E + 'I', 0)
            pn += struct.pack(E + 'I', len(b2)) + b2
    if ar and rng.random() < 0.7:
        debug['.debug_aranges'] = ar
        debug['.debug_pubnames'] = pn
    return P


def corpus_payloads():
    out = []
    for f in sorted(glob.glob(os.path.join(REPO, 'test', 'testfiles_for_*', '*'))):
        if not os.path.isfile(f) or os.path.getsize(f) > 600000:
            continue
        with open(f, 'rb') as fh:
            d = fh.read()
        if d[:4] != b'\x7fELF' or len(d) < 64:
            continue
        try:
            cls, le, mach, etype, secs = read_sections(d)
        except Exception:
            continue
        names = {s[0] for s in secs}
        if etype == 1 or '.debug_info' not in names or any(n.startswith('.zdebug') for n in names):
            continue
        if any(s[2] & 0x800 for s in secs) or '.gnu_debuglink' in names or '.gnu_debugaltlink' in names or '.debug_sup' in names:
            continue
        out.append((os.path.basename(f), d))
    return out


def payload_from_file(data, keep_eh=True):
    cls, le, mach, etype, secs = read_sections(data)
    debug = {}
    P = dict(cls=cls, le=le, machine=mach, etype=etype if etype in (2, 3) else 3, debug=debug)
    for name, t, f, a, b in secs:
        if name in DEBUG_NAMES and t != 8 and name not in debug:
            debug[name] = b
        if name == '.eh_frame' and t == 1 and keep_eh and b:
            P['eh_frame'], P['eh_addr'] = b, a
    return P


# ------------------------------------------------------------------ cases
def run_synth(idx, rng, sh):
    P = synth_payload(rng)
    n, ref = check_containers(P, rng, sh, 'synth')
    sh.held(n=n)
    sh.count('containers_compared', n)
    sh.sample({'source': 'synthesized', 'class': P['cls'], 'little_endian': P['le'], 'sections': sorted(P['debug']),
               'containers': n, 'dump': ref}, kind='synth')


def run_corpus(idx, rng, sh):
    files = corpus_payloads()
    if not files:
        sh.skip('no corpus payload')
        return
    name, data = files[(idx + sh.seed) % len(files)] if sh.tier == 'quick' else files[idx % len(files)]
    P = payload_from_file(data)
    if P['machine'] in (0x42, 0x76):     # phantom-byte (dsPIC) payloads decode through another path; keep them
        pass
    try:
        from elftools.elf.elffile import ELFFile
        base = dump(ELFFile(io.BytesIO(data)).get_dwarf_info())
    except Exception as e:
        sh.skip('corpus file does not dump as shipped (%s)' % type(e).__name__)
        return
    if data[18:20] in (b'\x76\x00',) or P['machine'] == 118:
        sh.skip('phantom-byte payload')
        return
    n, ref = check_containers(P, rng, sh, 'corpus')
    # my re-emission of the plain container must itself equal the shipped file's dump
    # (a shipped .eh_frame that is NOBITS or of a machine-specific type is not part of the re-emitted payload)
    cmp_dumps(base, ref, 're-emitted plain container vs the shipped file (%s)' % name,
              ignore=() if P.get('eh_frame') is not None else ('eh_frame', 'n_eh_cfi'))
    sh.held(n=n + 1)
    sh.count('containers_compared', n + 1)
    sh.sig(('corpus-file', name))
    sh.sample({'source': 'corpus', 'file': name, 'containers': n, 'dump': ref}, kind='corpus')


def run_compiled(idx, rng, sh):
    from elftools.elf.elffile import ELFFile
    if not oracles.have('gcc') or not oracles.have('objcopy'):
        sh.skip('gcc/objcopy missing')
        return
    if sh.tier == 'quick':
        idx += 4 * sh.seed              # rotate languages and optimisation levels with the seed
    ver = [2, 3, 4, 5][idx % 4]
    # C, C++ (COMDAT groups, many debug sections per object) and Fortran payloads
    cc, files = [('gcc', ('a.c', 'b.c')), ('g++', ('c.cpp',)), ('gcc', ('a.c', 'b.c')), ('gfortran', ('d.f90',))][(idx // 4) % 4]
    opt = ['-O0', '-O1', '-O2'][(idx // 16) % 3]
    if not oracles.have(cc):
        cc, files = 'gcc', ('a.c', 'b.c')
    src = [os.path.join(VERIF_DIR, 'corpus', 'src', f) for f in files]
    with oracles.Scratch() as s:
        so = os.path.join(s.d, 't.so')
        extra = ['-J', s.d] if cc == 'gfortran' else []
        rc, out, err = oracles.run([cc, '-gdwarf-%d' % ver, opt, '-shared', '-nostdlib', '-fPIC', '-o', so] + src + extra, timeout=120)
        if rc != 0:
            sh.skip('%s failed' % cc)
            return
        with open(so, 'rb') as f:
            data = f.read()
        ref = dump(ELFFile(io.BytesIO(data)).get_dwarf_info())
        n = 0
        # (1) binutils as a second producer of the same containers
        for flag in ('zlib-gabi', 'zlib-gnu'):
            dst = os.path.join(s.d, 't_%s.so' % flag)
            rc, out, err = oracles.run(['objcopy', '--compress-debug-sections=' + flag, so, dst])
            if rc != 0:
                sh.skip('objcopy failed')
                continue
            with open(dst, 'rb') as f:
                d2 = f.read()
            names = {x[0] for x in read_sections(d2)[4]}
            mixed = flag == 'zlib-gnu' and any(n_.startswith('.debug_') for n_ in names) and any(n_.startswith('.zdebug_') for n_ in names)
            cmp_dumps(ref, dump(ELFFile(io.BytesIO(d2)).get_dwarf_info()),
                      'objcopy --compress-debug-sections=%s (DWARF %d%s)' % (flag, ver, ', some sections left plain' if mixed else ''))
            n += 1
            sh.sig(('objcopy', flag, ver, opt, mixed, cc))
        dbg = os.path.join(s.d, 't.debug')
        st = os.path.join(s.d, 't.stripped')
        ok = oracles.run(['objcopy', '--only-keep-debug', so, dbg])[0] == 0 and \
            oracles.run(['objcopy', '--strip-debug', '--add-gnu-debuglink=' + dbg, so, st], cwd=s.d)[0] == 0
        if ok:
            with open(st, 'rb') as f:
                ds = f.read()
            with open(dbg, 'rb') as f:
                dd = f.read()
            es = ELFFile(io.BytesIO(ds), stream_loader=lambda name: io.BytesIO(dd))
            cmp_dumps(ref, dump(es.get_dwarf_info()), 'objcopy --only-keep-debug + --add-gnu-debuglink (DWARF %d)' % ver)
            n += 1
            sh.sig(('objcopy', 'debuglink', ver, opt))
        # (1b) relocatable objects: relocations must reach compressed sections as well
        obj = os.path.join(s.d, 't.o')
        if oracles.run([cc, '-gdwarf-%d' % ver, opt, '-c', '-o', obj, src[0]] + extra, timeout=120)[0] == 0:
            with open(obj, 'rb') as f:
                od = f.read()
            oref = dump(ELFFile(io.BytesIO(od)).get_dwarf_info())
            raw = dump(ELFFile(io.BytesIO(od)).get_dwarf_info(relocate_dwarf_sections=False))
            sh.count('objects_whose_dump_depends_on_relocation', int(raw != oref))
            for flag in ('zlib-gabi', 'zlib-gnu'):
                dst = os.path.join(s.d, 'o_%s.o' % flag)
                if oracles.run(['objcopy', '--compress-debug-sections=' + flag, obj, dst])[0] == 0:
                    with open(dst, 'rb') as f:
                        cmp_dumps(oref, dump(ELFFile(io.BytesIO(f.read())).get_dwarf_info()),
                                  'relocatable object, objcopy --compress-debug-sections=%s (DWARF %d)' % (flag, ver))
                    n += 1
                    sh.sig(('objcopy-object', flag, ver, opt))
            for kind in ('plain', 'gabi', 'zdebug'):
                cmp_dumps(oref, dump(ELFFile(io.BytesIO(reemit_object(od, kind, rng, level=rng.choice([1, 6, 9])))).get_dwarf_info()),
                          'relocatable object re-emitted %s (DWARF %d)' % (kind, ver))
                n += 1
                sh.sig(('reemit-object', kind, ver, opt))
        # (2) my own containers of the compiler-made payload
        P = payload_from_file(data)
        m, ref2 = check_containers(P, rng, sh, 'compiled')
        cmp_dumps(ref, ref2, 're-emitted plain container vs the compiler output')
    sh.held(n=n + m)
    sh.count('containers_compared', n + m)
    sh.sample({'source': '%s -gdwarf-%d %s' % (cc, ver, opt), 'containers': n + m, 'dump': ref}, kind='compiled')


def run_altlink(idx, rng, sh):
    """Alt forms resolve into the supplementary file when a loader is present."""
    from elftools.elf.elffile import ELFFile
    le = rng.random() < 0.5
    cls = rng.choice([32, 64])
    order = 'little' if le else 'big'

    def I(v, w):
        return v.to_bytes(w, order)
    # supplementary file: one unit with a few named entries, and a string table
    sstr = b'\0' + b''.join(('supstr%d' % i).encode() + b'\0' for i in range(5))
    soffs = [sstr.index(('supstr%d' % i).encode()) for i in range(5)]
    sab = uleb(1) + uleb(0x3c) + b'\x01' + b'\0\0' + uleb(2) + uleb(0x24) + b'\0' + uleb(0x0b) + uleb(0x0b) + b'\0\0' + b'\0'
    sbody = uleb(1)
    sdies = []
    for i in range(4):
        sdies.append(11 + len(sbody))
        sbody += uleb(2) + bytes([i + 1])
    sbody += b'\0'
    shdr = I(4, 2) + I(0, 4) + bytes([cls // 8])
    sinfo = I(len(shdr) + len(sbody), 4) + shdr + sbody
    fmtsel = rng.choice(['gnu', 'v5'])
    supP = dict(cls=cls, le=le, machine=62 if le else 21, debug={'.debug_info': sinfo, '.debug_abbrev': sab, '.debug_str': sstr})
    sup = emit(supP, rng.choice(['plain', 'gabi']), rng, link=debugsup_section(le, b'main', 1) if fmtsel == 'v5' else None)
    # main file: attributes in the alt forms
    if fmtsel == 'gnu':
        fs, fr, ver = 0x1f21, 0x1f20, 4
    else:
        fs, fr, ver = 0x1d, rng.choice([0x1c, 0x24]), 5
    rw = {0x1f20: 4, 0x1c: 4, 0x24: 8}[fr]
    # beside the alt forms a plain DW_FORM_strp holding the SAME number: one offset, two string tables
    ab = uleb(1) + uleb(0x11) + b'\x01' + b'\0\0' + uleb(2) + uleb(0x34) + b'\0' + uleb(0x03) + uleb(fs) + uleb(0x49) + uleb(fr) + \
        uleb(0x25) + uleb(0x0e) + b'\0\0' + b'\0'
    mstr = b'\0' + b''.join(('mainst%d' % i).encode() + b'\0' for i in range(5))       # the layout of the supplementary table, other strings
    body = uleb(1)
    picks = []
    for i in range(3):
        a, b = rng.randrange(5), rng.randrange(4)
        picks.append((a, b))
        body += uleb(2) + I(soffs[a], 4) + I(sdies[b], rw) + I(soffs[a], 4)
    body += b'\0'
    hdr = (I(ver, 2) + bytes([1, cls // 8]) + I(0, 4)) if ver == 5 else (I(ver, 2) + I(0, 4) + bytes([cls // 8]))
    info = I(len(hdr) + len(body), 4) + hdr + body
    P = dict(cls=cls, le=le, machine=62 if le else 21, debug={'.debug_info': info, '.debug_abbrev': ab, '.debug_str': mstr}, has_alt=True)
    link = (lambda: altlink_section(b'sup.dwz')) if fmtsel == 'gnu' else (lambda: debugsup_section(le, b'sup.dwz', 0))
    seen = []
    for kind in ('plain', 'gabi', 'zdebug'):
        img = emit(P, kind, rng, link=link)
        calls = []

        def loader(name, calls=calls):
            calls.append(bytes(name))
            return io.BytesIO(sup)
        ef = ELFFile(io.BytesIO(img), stream_loader=loader)
        di = ef.get_dwarf_info()
        if calls != [b'sup.dwz'] or di.supplementary_dwarfinfo is None:
            raise Bad('supplementary file not loaded through the %s link (%s container)' % ('.gnu_debugaltlink' if fmtsel == 'gnu' else '.debug_sup', kind), calls=calls)
        cu = next(di.iter_CUs())
        got = []
        for d in cu.iter_DIEs():
            if d.tag == 'DW_TAG_variable':
                t = d.get_DIE_from_attribute('DW_AT_type')
                got.append((d.attributes['DW_AT_name'].value, t.offset, t.attributes['DW_AT_byte_size'].value, d.attributes['DW_AT_producer'].value))
        want = [(('supstr%d' % a).encode(), sdies[b], b + 1, ('mainst%d' % a).encode()) for a, b in picks]
        if got != want:
            raise Bad('alt-form values do not resolve into the supplementary file (%s forms, %s container)' % (fmtsel, kind), got=got, want=want)
        seen.append(got)
        # without a loader, or without following links, the raw offsets stay
        for ld, follow in ((None, True), (loader, False)):
            di2 = ELFFile(io.BytesIO(img), stream_loader=ld).get_dwarf_info(follow_links=follow)
            if di2.supplementary_dwarfinfo is not None:
                raise Bad('supplementary info present without loader / with follow_links=False')
            vals = [d.attributes['DW_AT_name'].value for d in next(di2.iter_CUs()).iter_DIEs() if d.tag == 'DW_TAG_variable']
            if vals != [soffs[a] for a, b in picks]:
                raise Bad('alt string form without supplementary file is not the raw offset', got=vals)
        sh.sig(('altlink', fmtsel, kind, cls, le, fr))
    # a chain of links: stripped file -> (checksum-verified) debug file -> supplementary file
    dbg = emit(P, rng.choice(['plain', 'gabi']), rng, link=link)
    crc = binascii.crc32(dbg) & 0xffffffff
    stripped = emit(P, 'plain', rng, drop_debug=True, link=debuglink_section(le, b'main.debug', crc))
    calls = []

    def chain_loader(name):
        calls.append(bytes(name))
        return io.BytesIO(dbg if bytes(name) == b'main.debug' else sup)
    di = ELFFile(io.BytesIO(stripped), stream_loader=chain_loader).get_dwarf_info()
    got = []
    for d in next(di.iter_CUs()).iter_DIEs():
        if d.tag == 'DW_TAG_variable':
            t = d.get_DIE_from_attribute('DW_AT_type') if di.supplementary_dwarfinfo is not None else None
            got.append((d.attributes['DW_AT_name'].value, t.offset if t is not None else None))
    want = [(('supstr%d' % a).encode(), sdies[b]) for a, b in picks]
    if calls != [b'main.debug', b'sup.dwz'] or got != want:
        raise Bad('a debug file reached through .gnu_debuglink does not get its own supplementary file (%s forms)' % fmtsel,
                  calls=calls, got=got[:2], want=want[:2])
    sh.sig(('link-chain', fmtsel, cls, le))
    sh.held(n=10)
    sh.sample({'forms': fmtsel, 'class': cls, 'little_endian': le, 'resolved': [(a.decode(), b, c, e.decode()) for a, b, c, e in seen[0]]}, kind='altlink')


def run_reject(idx, rng, sh):
    from elftools.elf.elffile import ELFFile
    from elftools.common.exceptions import ELFCompressionError
    P = synth_payload(rng)
    name = rng.choice(sorted(P['debug']))
    data = P['debug'][name]
    mode = rng.choice(['gabi-smaller', 'gabi-larger', 'gabi-type', 'z-magic', 'z-size-smaller', 'z-size-larger'])
    secs = other_sections(P)
    for n_, d in P['debug'].items():
        if n_ != name:
            secs.append(elfgen.Sec(n_, 1, data=d) if not mode.startswith('z-') else
                        elfgen.Sec('.z' + n_[1:], 1, data=b'ZLIB' + struct.pack('>Q', len(d)) + zlib.compress(d)))
    if len(data) < 2:
        sh.skip('section too small to mis-declare')
        return
    if mode.startswith('gabi'):
        decl = {'gabi-smaller': len(data) - rng.choice([1, len(data) // 2, len(data)]), 'gabi-larger': len(data) + rng.choice([1, 50])}.get(mode, len(data))
        secs.append(elfgen.Sec(name, 1, flags=0x800, data=chdr(P['cls'], P['le'], decl, 1, 1 if mode != 'gabi-type' else rng.choice([2, 5, 0x70000000])) + zlib.compress(data)))
        exc = ELFCompressionError
    else:
        magic = b'ZLIB' if mode != 'z-magic' else rng.choice([b'ZLIC', b'zlib', b'\0\0\0\0'])
        decl = {'z-size-smaller': len(data) - 1, 'z-size-larger': len(data) + 1}.get(mode, len(data))
        secs.append(elfgen.Sec('.z' + name[1:], 1, data=magic + struct.pack('>Q', decl) + zlib.compress(data)))
        exc = AssertionError
        if '.zdebug_info' not in [s.name for s in secs]:
            sh.skip('legacy path needs .zdebug_info')
            return
    img, _ = elfgen.build(cls=P['cls'], le=P['le'], machine=P['machine'], etype=3, sections=secs)
    try:
        ELFFile(io.BytesIO(img)).get_dwarf_info()
    except exc:
        sh.held(('reject', mode, P['cls'], P['le']))
        sh.sample({'mode': mode, 'section': name, 'declared': decl, 'true_size': len(data)}, kind='reject')
        return
    except Exception as e:
        raise Bad('bad framing (%s) raises %s instead of %s' % (mode, type(e).__name__, exc.__name__))
    raise Bad('bad framing accepted (%s)' % mode, section=name, declared=decl, size=len(data))


def run_case(kind, idx, rng, sh):
    try:
        {'synth': run_synth, 'corpus': run_corpus, 'compiled': run_compiled, 'altlink': run_altlink, 'reject': run_reject}[kind](idx, rng, sh)
    except Bad as b:
        sh.violation('C11:' + b.key, **b.d)
