"""C09 - dynamic linking information is exact, with or without section headers."""
import io
import struct

from ..gen import elfgen, hashgen as H
from ..ref.names import elf_name_ok
from ..monitor import TracedBytesIO, PoisonedIter, poison

PROP = 'C09'
LEVEL = 'exploration'
RULE = ('one logical dynamic image (tags incl. MIPS/AArch64/Solaris-specific sets, duplicates, entries '
        'after DT_NULL, NEEDED/SONAME/RPATH/RUNPATH/FILTER/AUXILIARY/AUDIT/DEPAUDIT/CONFIG strings incl. non-ASCII, dynamic symbols, SysV and/or '
        'GNU hash (occupied, empty in both spellings), REL/RELA/RELR/JMPREL tables, 1-3 PT_LOAD segments '
        'with address != offset) emitted three ways: with section headers, with e_shoff/e_shnum/'
        'e_shstrndx zeroed, and with a .dynamic section at another offset than PT_DYNAMIC (forcing the '
        'DT_STRTAB path); ground truth for the tag sequence and strings, and equivalence of the section '
        'view and every segment view for tags, strings, symbols, relocation tables, table offsets and '
        'the recovered symbol count; every third image is also written to disk, read by path, rewritten in place with other '
        'strings at the same offsets, read again in the same process and restored. Second workload: every corpus file with a dynamic section is '
        're-opened with its section-header fields zeroed and the views compared. distinct = (class, '
        'order, machine class, hash kinds, tables present, container).')
ASSUMPTIONS = [
    'the section link and DT_STRTAB designate the same string table (the two lib_with_two_dynstr files '
    'of the corpus break this on purpose and are negative controls)',
    'strings are valid UTF-8 (the two string-table front ends differ on invalid UTF-8 by design)',
    'the recovered symbol count is judged only when a hash table is present',
]
KINDS = {'gen': (1200, 30000, 0), 'corpus': (1, 1, 1)}
FLOOR = {'quick': 1000, 'thorough': 25000}
REACH = ['elftools.elf.dynamic:Dynamic._iter_tags', 'elftools.elf.dynamic:Dynamic._get_stringtable',
         'elftools.elf.dynamic:Dynamic.get_table_offset', 'elftools.elf.dynamic:Dynamic.num_tags',
         'elftools.elf.dynamic:Dynamic.get_relocation_tables', 'elftools.elf.dynamic:DynamicSegment.num_symbols',
         'elftools.elf.dynamic:DynamicSegment.get_symbol', 'elftools.elf.dynamic:DynamicSegment.__init__']
DT = dict(NULL=0, NEEDED=1, PLTRELSZ=2, PLTGOT=3, HASH=4, STRTAB=5, SYMTAB=6, RELA=7, RELASZ=8, RELAENT=9, STRSZ=10, SYMENT=11,
          INIT=12, FINI=13, SONAME=14, RPATH=15, SYMBOLIC=16, REL=17, RELSZ=18, RELENT=19, PLTREL=20, DEBUG=21, TEXTREL=22,
          JMPREL=23, BIND_NOW=24, RUNPATH=29, FLAGS=30, RELRSZ=35, RELR=36, RELRENT=37, GNU_HASH=0x6ffffef5,
          FLAGS_1=0x6ffffffb, VERNEED=0x6ffffffe, VERNEEDNUM=0x6fffffff, RELACOUNT=0x6ffffff9)
STR_TAGS = {1: 'needed', 14: 'soname', 15: 'rpath', 29: 'runpath', 0x7ffffffd: 'auxiliary', 0x7fffffff: 'filter',
            0x6ffffefa: 'config', 0x6ffffefb: 'depaudit', 0x6ffffefc: 'audit'}
_T = {}


class Bad(Exception):
    def __init__(self, key, **d):
        Exception.__init__(self, key)
        self.key, self.d = key, d


def libtabs():
    if 'DT_' not in _T:
        import elftools.elf.enums as E
        _T['DT_'] = [v for k, v in vars(E).items() if isinstance(v, dict) and k.startswith('ENUM_D_TAG')]
    return _T['DT_']


def gen(rng):
    cls = rng.choice([32, 64])
    le = rng.random() < 0.5
    E = '<' if le else '>'
    is64 = cls == 64
    r = rng.random()
    machine = rng.choice([62, 3, 40, 21]) if r < 0.5 else rng.choice([8, 183, 243, 2])
    osabi = 6 if rng.random() < 0.15 else 0
    nsym = rng.choice([1, 2, 4, 9, 30])
    names = [b''] + sorted({('sym%d' % rng.randint(0, 999)).encode() for _ in range(nsym * 2)} | {'fö'.encode('utf-8')})[:nsym - 1]
    nsym = len(names)
    if nsym >= 4 and rng.random() < 0.3:
        # two versions of one function: the same name twice in the dynamic symbol table
        j, k = rng.sample(range(1, nsym), 2)
        names[k] = names[j]
    hashkind = rng.choice(['gnu', 'sysv', 'both', 'both', 'none'])
    gnu_mode = rng.choice(['occupied', 'occupied', 'empty-consistent', 'empty-ld'])
    if nsym == 1 and gnu_mode == 'occupied':
        gnu_mode = 'empty-consistent'
    if gnu_mode == 'occupied':
        symoffset = rng.randint(1, nsym - 1)
        nb = rng.choice([1, 2, 3, nsym])
        names = names[:symoffset] + sorted(names[symoffset:], key=lambda x: H.gnu_hash(x) % nb)
        gdata, _ = H.gnu_table(E, cls, names, symoffset, nb, rng.choice([1, 2]), rng.choice([5, 6]))
    elif gnu_mode == 'empty-consistent':
        gdata, _ = H.gnu_table(E, cls, names, nsym, 1, 1, 0)
    else:
        gdata = struct.pack(E + 'IIII', 1, 1, 1, 0) + struct.pack(E + ('Q' if is64 else 'I'), 0) + struct.pack(E + 'I', 0)
    strs = [b'libc.so.6', 'libü.so'.encode('utf-8'), b'libm.so.6', b'/opt/lib:$ORIGIN', b'mysoname.so.1', b'']
    tab = bytearray(b'\0')
    so = {}
    for x in names[1:] + strs:
        so[x] = len(tab) if x else 0
        if x:
            tab += x + b'\0'
    symtab = b''.join(elfgen.sym_pack(E, is64, so[n] if n else 0, 0x1000 + i, i, 0x12 if i else 0, 0, 1 if i else 0) for i, n in enumerate(names))
    symsz = 24 if is64 else 16
    W = 8 if is64 else 4
    base = rng.choice([0x400000, 0x10000, 0x7f000000])
    secs = []
    addr = [base]

    def add(name, typ, data, **kw):
        a = addr[0]
        addr[0] += (len(data) + 15) & ~15
        s = elfgen.Sec(name, typ, flags=2, data=data, addr=a, align=8, **kw)
        secs.append(s)
        return a
    # the dynamic string table is whatever the section link / DT_STRTAB designate: it need not be
    # called .dynstr, and another string table may carry that name
    strname = rng.choice(['.dynstr', '.dynstr', '.dynstr', '.strs'])
    a_sym = add('.dynsym', 11, symtab, link=strname, info=1, entsize=symsz)
    a_str = add(strname, 3, bytes(tab))
    if rng.random() < 0.3:
        add('.dynstr', 3, b'\0' + b'decoy-string-table\0' * 20)
    tags = []
    for _ in range(rng.choice([0, 1, 3])):
        tags.append((1, so[rng.choice(strs[:3])]))
    if rng.random() < 0.5:
        tags.append((14, so[b'mysoname.so.1']))
    if rng.random() < 0.4:
        tags.append((rng.choice([15, 29]), so[b'/opt/lib:$ORIGIN']))
    if rng.random() < 0.2:
        tags.append((1, so[b'']))
    tags += [(5, a_str), (6, a_sym), (10, len(tab)), (11, symsz)]
    if hashkind in ('sysv', 'both'):
        tags.append((4, add('.hash', 5, H.sysv_table(E, names, rng.choice([1, 2, nsym])), link='.dynsym', entsize=4)))
    if hashkind in ('gnu', 'both'):
        tags.append((0x6ffffef5, add('.gnu.hash', 0x6ffffff6, gdata, link='.dynsym')))
    rel_tables = {}
    relsz, relasz = (16 if is64 else 8), (24 if is64 else 12)

    def rels(n, rela):
        out = b''
        for i in range(n):
            info = ((rng.randrange(nsym) << 32) | rng.randrange(40)) if is64 else ((rng.randrange(nsym) << 8) | rng.randrange(40))
            if machine == 8 and is64:
                out += struct.pack(E + 'Q', 0x2000 + 8 * i) + struct.pack(E + 'IBBBB', rng.randrange(nsym), 0, 0, 0, rng.randrange(40))
                out += struct.pack(E + 'q', -i) if rela else b''
            else:
                out += struct.pack(E + ('QQ' if is64 else 'II'), 0x2000 + 8 * i, info) + (struct.pack(E + ('q' if is64 else 'i'), -i) if rela else b'')
        return out
    if rng.random() < 0.5:
        d = rels(rng.choice([0, 1, 5]), False)
        a = add('.rel.dyn', 9, d, link='.dynsym', entsize=relsz)
        tags += [(17, a), (18, len(d)), (19, relsz)]
        rel_tables['REL'] = (len(d) // relsz, False)
    if rng.random() < 0.5:
        d = rels(rng.choice([1, 4]), True)
        a = add('.rela.dyn', 4, d, link='.dynsym', entsize=relasz)
        tags += [(7, a), (8, len(d)), (9, relasz)]
        rel_tables['RELA'] = (len(d) // relasz, True)
    if rng.random() < 0.3:
        from .c08 import relr_expand
        # an address word followed by one or two bitmap words (consecutive bitmaps continue where the first ended)
        words = [0x3000] + [rng.getrandbits(cls - 1) << 1 | 1 for _ in range(rng.choice([1, 2, 2]))]
        d = struct.pack(E + ('Q' if is64 else 'I') * len(words), *words)
        a = add('.relr.dyn', 19, d, entsize=W)
        tags += [(36, a), (35, len(d)), (37, W)]
        rel_tables['RELR'] = (len(relr_expand(words, cls)), None, relr_expand(words, cls))
    if rng.random() < 0.4:
        prela = rng.random() < 0.5
        d = rels(rng.choice([1, 3]), prela)
        a = add('.rela.plt' if prela else '.rel.plt', 4 if prela else 9, d, link='.dynsym', entsize=relasz if prela else relsz)
        tags += [(23, a), (2, len(d)), (20, 7 if prela else 17)]
        rel_tables['JMPREL'] = (len(d) // (relasz if prela else relsz), prela)
    extra = [(30, rng.getrandbits(5)), (0x6ffffffb, rng.getrandbits(28)), (21, 0), (24, 0), (0x6ffffff9, 3), (12, base + 0x10)]
    if machine == 8:
        extra += [(0x70000001, 1), (0x70000005, 2), (0x70000006, base), (0x70000035, 9)]
    if machine == 183:
        extra += [(0x70000001, 0), (0x70000003, 0), (0x70000005, 0)]
    if machine in (62, 3):
        extra += [(0x70000001, 7)]          # processor-specific code without a name for this machine
    if osabi == 6:
        extra += [(0x6000000d, 0), (0x6000000e, 1), (0x60000011, 5), (0x6000001a, 1)]
    extra += [(rng.choice([0x6fffff00, 0x6ffffefe, 0x6ffffef8]), 77), (rng.choice([0x12345678, 0x60000fff, 38]), 5)]
    # the other string-valued tags (filter and auxiliary libraries, audit libraries, configuration file)
    extra += [(t, so[rng.choice(strs[:3])]) for t in (0x7ffffffd, 0x7fffffff, 0x6ffffefa, 0x6ffffefb, 0x6ffffefc) if rng.random() < 0.4]
    rng.shuffle(extra)
    tags += extra[:rng.randint(0, len(extra))]
    rng.shuffle(tags)
    if rng.random() < 0.3 and tags:
        tags.append(rng.choice(tags))          # a duplicate tag
    visible = tags + [(0, 0)]
    after = [(1, so[b'libm.so.6']), (0, 0), (14, 1)][:rng.choice([0, 0, 1, 3])]     # entries after the terminator
    fmt = E + ('qQ' if is64 else 'iI')

    def packtag(t, v):
        st = t if t < 2 ** (cls - 1) else t - 2 ** cls
        return struct.pack(fmt, st, v)
    dyn = b''.join(packtag(t, v) for t, v in visible + after)
    a_dyn = add('.dynamic', 6, dyn, link=strname, entsize=2 * W)
    secs[-1].flags = 3
    return dict(cls=cls, le=le, machine=machine, osabi=osabi, secs=secs, visible=visible, dyn=dyn, names=names, so=so, strs=strs,
                hashkind=hashkind, gnu_mode=gnu_mode, rel_tables=rel_tables, base=base, a_dyn=a_dyn, tab=bytes(tab), nsym=nsym,
                a_sym=a_sym, a_str=a_str)


def containers(rng, g):
    """-> {'sections': bytes, 'stripped': bytes, 'moved': bytes}"""
    out = {}
    nload = rng.choice([1, 2, 3])

    def mk(strip, moved):
        secs = [elfgen.Sec(s.name, s.type, flags=s.flags, addr=s.addr, data=s.data, link=s.link, info=s.info, align=s.align,
                           entsize=s.entsize) for s in g['secs']]
        # PT_LOAD segments: cover consecutive groups of sections (address - offset constant per group)
        segs = []
        if moved:
            # a second copy of the dynamic table; PT_DYNAMIC designates the copy, the section keeps the original
            cp = elfgen.Sec('.dyncopy', 1, flags=3, data=g['dyn'], addr=secs[-1].addr + 0x1000, align=8)
            secs.append(cp)
        img, info = elfgen.build(cls=g['cls'], le=g['le'], machine=g['machine'], osabi=g['osabi'], etype=3, sections=secs,
                                 gap=0, order=('ph', 'data', 'sh'), segments=[elfgen.Seg(type=1, sec=s.name, vaddr=s.addr, flags=4)
                                                                              for s in secs] +
                                 [elfgen.Seg(type=2, sec='.dyncopy' if moved else '.dynamic', vaddr=secs[-1].addr, flags=6)],
                                 strip_sh=strip)
        return img, info
    out['sections'] = mk(False, False)
    out['stripped'] = mk(True, False)
    out['moved'] = mk(False, True)
    return out


def tag_digest(dyn, st, rng, sh, poisoned=True):
    out = []
    it = PoisonedIter(dyn.iter_tags(), [st], rng, sh.counters) if poisoned else dyn.iter_tags()
    for t in it:
        e = t.entry
        s = None
        for tagnum, a in STR_TAGS.items():
            if hasattr(t, a):
                s = (a, getattr(t, a))
        out.append((e.d_tag, e.d_val, e.d_ptr, s))
    return out


def check_view(dyn, g, st, rng, sh, what):
    got = tag_digest(dyn, st, rng, sh)
    vis = g['visible']
    if len(got) != len(vis):
        raise Bad('%s: tag count (iteration must stop at DT_NULL)' % what, got=len(got), want=len(vis))
    inv = {v: k for k, v in g['so'].items()}
    for (tn, val, ptr, s), (t, v) in zip(got, vis):
        t_signed = t
        if not elf_name_ok('DT_', t, tn if isinstance(tn, str) else (tn if tn >= 0 else tn + 2 ** g['cls']), libtabs(), g['machine']):
            raise Bad('%s: tag code reported wrongly' % what, code=hex(t), observed=tn, machine=g['machine'])
        if val != v or ptr != v:
            raise Bad('%s: tag value' % what, tag=tn, got=val, want=v)
        if t in STR_TAGS:
            w = (STR_TAGS[t], inv.get(v, b'').decode('utf-8') if v else '')
            if s != w:
                raise Bad('%s: string of %s resolved through the wrong table or offset' % (what, tn), got=s, want=w)
        elif s is not None:
            raise Bad('%s: string attribute on a non-string tag' % what)
    poison([st], rng)
    if dyn.num_tags() != len(vis):
        raise Bad('%s: num_tags' % what, got=dyn.num_tags(), want=len(vis))
    k = rng.randrange(len(vis))
    poison([st], rng)
    t = dyn.get_tag(k)
    if t.entry.d_val != vis[k][1]:
        raise Bad('%s: get_tag(i)' % what)
    first = {}
    for t_, v in vis:
        first.setdefault(t_, v)
    for name, code in (('DT_STRTAB', 5), ('DT_SYMTAB', 6), ('DT_HASH', 4), ('DT_GNU_HASH', 0x6ffffef5), ('DT_INIT', 12)):
        poison([st], rng)
        ptr, off = dyn.get_table_offset(name)
        wptr = first.get(code)
        if ptr != wptr:
            raise Bad('%s: get_table_offset pointer' % what, tag=name, got=ptr, want=wptr)
        if wptr:
            hit = [(a, n, o) for a, n, o in g['_layout'] if a and a <= wptr and wptr + 1 <= a + n]
            woff = (hit[0][2] + wptr - hit[0][0]) if hit else None
            if off != woff:
                raise Bad('%s: get_table_offset file offset' % what, tag=name, got=off, want=woff)
    return got


def check_symbols(seg, g, st, rng, sh, what):
    names = [n.decode('utf-8') for n in g['names']]
    hashed = g['hashkind'] != 'none'
    poison([st], rng)
    try:
        n = seg.num_symbols()
    except Exception as e:
        if hashed:
            raise
        return
    if hashed:
        exact = g['hashkind'] in ('sysv', 'both') or g['gnu_mode'] != 'empty-ld'
        if n != g['nsym']:
            fid = 'gnu_hash_empty_ld_convention_no_sysv'
            if not exact and n == 1 and fid in sh.quirks:
                sh.known[fid] += 1
                return
            raise Bad('%s: recovered dynamic symbol count (hash: %s, GNU table %s)' % (what, g['hashkind'], g['gnu_mode'] if g['hashkind'] != 'sysv' else '-'),
                      got=n, want=g['nsym'])
        got = [(s.name, s['st_value'], s['st_size']) for s in PoisonedIter(seg.iter_symbols(), [st], rng, sh.counters)]
        want = [(names[i], 0x1000 + i, i) for i in range(g['nsym'])]
        if got != want:
            raise Bad('%s: dynamic symbols through the segment differ' % what, got=got[:3], want=want[:3])
        for q in names[1:4] + ['absent']:
            poison([st], rng)
            r = seg.get_symbol_by_name(q)
            w = [i for i, x in enumerate(names) if x == q]
            if (r is None) != (not w) or (r and [s['st_value'] for s in r] != [0x1000 + i for i in w]):
                raise Bad('%s: get_symbol_by_name through the segment' % what, name=q)


def check_relocs(dyn, g, st, rng, what):
    poison([st], rng)
    tabs = dyn.get_relocation_tables()
    if set(tabs) != set(g['rel_tables']):
        raise Bad('%s: relocation tables found' % what, got=sorted(tabs), want=sorted(g['rel_tables']))
    dig = {}
    for k, t in tabs.items():
        n, rela = g['rel_tables'][k][:2]
        if t.num_relocations() != n or (rela is not None and t.is_RELA() != rela):
            raise Bad('%s: %s table size/flavour' % (what, k), got=t.num_relocations(), want=n)
        dig[k] = [(r['r_offset'], r.entry.get('r_info'), r.entry.get('r_addend')) for r in t.iter_relocations()]
        if len(g['rel_tables'][k]) > 2 and [x[0] for x in dig[k]] != g['rel_tables'][k][2]:
            raise Bad('%s: RELR table expands to other addresses' % what, got=[x[0] for x in dig[k]][:5], want=g['rel_tables'][k][2][:5])
    return dig


def disk_phase(cont, g, sh):
    """The image as a file on disk, read by path; then the same path rewritten with other strings at the same offsets and read
    again in this process, then restored: the strings of the tags are those of the bytes that are in the file now."""
    from elftools.elf.elffile import ELFFile
    from elftools.elf.dynamic import DynamicSegment
    from .. import oracles
    cname, (img, info) = next(iter(cont.items()))
    tab = g['tab']
    k = img.find(tab)
    if len(tab) < 8 or k < 0 or img.count(tab) != 1 or tab.swapcase() == tab:
        sh.count('disk_phase_not_applicable')
        return
    img2 = img[:k] + tab.swapcase() + img[k + len(tab):]
    inv = {v: n for n, v in g['so'].items()}
    with oracles.Scratch() as sc:
        for im, swap, label in ((img, False, 'first contents'), (img2, True, 'the same path rewritten with other strings at the same offsets'),
                                (img, False, 'the first contents restored')):
            path = sc.write('libgen.so', im)
            with open(path, 'rb') as f:
                ef = ELFFile(f)
                seg = [x for x in ef.iter_segments() if isinstance(x, DynamicSegment)][0]
                got = []
                for t in seg.iter_tags():
                    for code, a in STR_TAGS.items():
                        if hasattr(t, a):
                            got.append((t.entry.d_val, getattr(t, a)))
            want = []
            for t, v in g['visible']:
                if t in STR_TAGS:
                    n = inv.get(v, b'') if v else b''
                    want.append((v, (n.swapcase() if swap else n).decode('utf-8')))
            if got != want:
                raise Bad('file on disk read by path: strings of the dynamic tags differ from the bytes in the file (%s)' % label,
                          got=got[:4], want=want[:4])
    sh.count('images_read_from_disk_rewritten_in_place')


def run_gen(idx, rng, sh):
    from elftools.elf.elffile import ELFFile
    from elftools.elf.dynamic import DynamicSection, DynamicSegment
    g = gen(rng)
    cont = containers(rng, g)
    ref = None
    for cname, (img, info) in cont.items():
        g['_layout'] = [(s.addr, len(s.data), s.offset) for s in info['secs']]
        st = TracedBytesIO(img)
        ef = ELFFile(st)
        segs = [s for s in ef.iter_segments() if isinstance(s, DynamicSegment)]
        if len(segs) != 1:
            raise Bad('PT_DYNAMIC not found as DynamicSegment (%s)' % cname)
        views = [('segment/%s' % cname, segs[0])]
        if cname != 'stripped':
            ds = [s for s in ef.iter_sections() if isinstance(s, DynamicSection)]
            if len(ds) != 1:
                raise Bad('.dynamic not found as DynamicSection')
            views.append(('section/%s' % cname, ds[0]))
        elif ef.num_sections() != 0:
            raise Bad('stripped image reports sections')
        for what, dv in views:
            d = (check_view(dv, g, st, rng, sh, what), check_relocs(dv, g, st, rng, what))
            if ref is None:
                ref = d
            elif d != ref:
                raise Bad('%s differs from the first view' % what)
        check_symbols(segs[0], g, st, rng, sh, 'segment/%s' % cname)
        if cname != 'stripped':
            sy = ef.get_section_by_name('.dynsym')
            if [s.name for s in sy.iter_symbols()] != [n.decode('utf-8') for n in g['names']]:
                raise Bad('section .dynsym enumeration')
    if idx % 3 == 0:
        disk_phase(cont, g, sh)
    sh.held((g['cls'], g['le'], g['machine'], g['osabi'], g['hashkind'], g['gnu_mode'] if g['hashkind'] in ('gnu', 'both') else '-',
             tuple(sorted(g['rel_tables']))), n=3)
    sh.sample({'class': g['cls'], 'machine': g['machine'], 'hash': g['hashkind'], 'gnu_table': g['gnu_mode'], 'tags': len(g['visible']),
               'tables': sorted(g['rel_tables']), 'symbols': g['nsym']}, kind='gen')


def strip_sh(data):
    d = bytearray(data)
    if d[4] == 2:
        d[0x28:0x30] = bytes(8)
        d[0x3a:0x40] = bytes(6)
    else:
        d[0x20:0x24] = bytes(4)
        d[0x2e:0x34] = bytes(6)
    return bytes(d)


def run_corpus(idx, rng, sh):
    """Metamorphic: corpus files with a dynamic section, re-opened without section headers."""
    import glob
    import os
    from .. import REPO
    from elftools.elf.elffile import ELFFile
    from elftools.elf.dynamic import DynamicSection, DynamicSegment
    files = sorted(f for f in glob.glob(os.path.join(REPO, 'test', 'testfiles_for_*', '*')) if os.path.isfile(f))
    n = 0
    for f in files:
        data = open(f, 'rb').read()
        if data[:4] != b'\x7fELF':
            continue
        base = os.path.basename(f)
        try:
            ef = ELFFile(io.BytesIO(data))
            dsec = [s for s in ef.iter_sections() if isinstance(s, DynamicSection)]
            dseg = [s for s in ef.iter_segments() if isinstance(s, DynamicSegment)]
        except Exception:
            continue
        if not dsec or not dseg or dsec[0]['sh_type'] == 'SHT_NOBITS':
            continue
        st = io.BytesIO()
        a = tag_digest(dsec[0], st, rng, sh, poisoned=False)
        b = tag_digest(dseg[0], st, rng, sh, poisoned=False)
        ef2 = ELFFile(io.BytesIO(strip_sh(data)))
        seg2 = [s for s in ef2.iter_segments() if isinstance(s, DynamicSegment)][0]
        c = tag_digest(seg2, st, rng, sh, poisoned=False)
        control = base.startswith('lib_with_two_dynstr')
        if control:
            sh.count('corpus_negative_controls')
            continue
        if a != b or a != c:
            sh.note_violation('C09:corpus file: section view and %s segment view differ' % ('plain' if a != b else 'header-less'), file=base)
            continue
        symsec = ef.get_section_by_name('.dynsym')
        hashed = any(t[0] in ('DT_HASH', 'DT_GNU_HASH') for t in a)
        if symsec is not None and hashed:
            true_n = symsec.num_symbols()
            rec = seg2.num_symbols()
            only_gnu = not any(t[0] == 'DT_HASH' for t in a)
            if rec != true_n:
                fid = 'gnu_hash_empty_ld_convention_no_sysv'
                if only_gnu and rec == 1 and fid in sh.quirks:
                    sh.known[fid] += 1
                else:
                    sh.note_violation('C09:corpus file: recovered symbol count %s (DT_HASH %s)' % ('wrong', 'absent' if only_gnu else 'present'),
                                      file=base, got=rec, want=true_n)
                continue
            if [s.name for s in symsec.iter_symbols()] != [s.name for s in seg2.iter_symbols()]:
                sh.note_violation('C09:corpus file: symbols differ between views', file=base)
                continue
        n += 1
        sh.sig(('corpus', base))
    sh.held(n=n)
    sh.count('corpus_files_with_both_views', n)
    sh.sample({'corpus_files_compared': n}, kind='corpus')


def run_case(kind, idx, rng, sh):
    try:
        (run_gen if kind == 'gen' else run_corpus)(idx, rng, sh)
    except Bad as b:
        sh.violation('C09:' + b.key, **b.d)


def witness(fid, sh):
    import json
    import os
    from elftools.elf.elffile import ELFFile
    from elftools.elf.dynamic import DynamicSegment
    from .. import VERIF_DIR
    if fid != 'gnu_hash_empty_ld_convention_no_sysv':
        return
    with open(os.path.join(VERIF_DIR, 'findings', 'C09', 'gnu_hash_empty_ld_no_sysv.json')) as f:
        w = json.load(f)
    ef = ELFFile(io.BytesIO(bytes.fromhex(w['image_hex'])))
    seg = [s for s in ef.iter_segments() if isinstance(s, DynamicSegment)][0]
    got = seg.num_symbols()
    if got == w['true_symbol_count']:
        return
    if got == 1:
        sh.known[fid] += 1
    else:
        sh.violation('C09:witness of %s fails differently' % fid, got=got)
