"""C06 - call-frame information is parsed and interpreted per DWARF/.eh_frame rules."""
from ..gen import dwarfgen as G, cfigen
from ..ref import cfi as M
from ..monitor import TracedBytesIO, poison

PROP = 'C06'
LEVEL = 'exploration'
RULE = ('generated .debug_frame (CIE versions 1/3/4, DWARF32/64, address size 4/8, both orders, CIEs '
        'and FDEs in any order incl. FDE before its CIE) and .eh_frame sections (augmentations \'\', z, '
        'zR, zL, zP, zS and combinations in any order; pointer encodings absptr/uleb/sleb/udata2,4,8/'
        'sdata2,4,8 x none/pcrel; any section address; optional zero terminator), instruction streams '
        'of 0-25 operations over all DWARF 2-5 DW_CFA opcodes plus GNU_args_size and 0x2d with operands '
        'at LEB/width boundaries, alignment factors caf 1-8 and daf in {-8..8}, balanced remember/'
        'restore nesting to depth 6, restore of registers with and without initial rule. Compared: '
        'entry order/kind/offset/header fields/CIE link/augmentation bytes and fields/pcrel initial '
        'location/range/LSDA pointer/instruction list (ground truth) and the decoded table against a '
        'reference interpreter. distinct = (section kind, order, address size, format, CIE version, '
        'augmentation, pointer encodings, opcode kinds present).')
ASSUMPTIONS = [
    'def_cfa_register/def_cfa_offset(_sf) only while the CFA rule is register+offset; restore_state '
    'only with a non-empty stack; location-advancing and restore instructions only in FDEs (6.4.2)',
    'in .eh_frame every FDE follows its CIE (the CIE pointer is a backward distance)',
    'tables are compared after canonicalisation: rows with one pc collapse to the last; a row with '
    'neither CFA nor register rule may be absent (and when the final state is such a row, its location is not '
    'judged at all, because an earlier row of the same location then stays visible); reg_order = order of first mention',
    'for .debug_frame the address size is the container default (the library documents this)',
    'personality pointers are compared as encoded (no pcrel/indirect adjustment)',
]
KINDS = {'debug_frame': (1500, 40000, 0), 'eh_frame': (1500, 40000, 0)}
FLOOR = {'quick': 2000, 'thorough': 50000}
REACH = ['elftools.dwarf.callframe:CallFrameInfo._parse_entry_at', 'elftools.dwarf.callframe:CallFrameInfo._parse_instructions',
         'elftools.dwarf.callframe:CallFrameInfo._parse_cie_for_fde', 'elftools.dwarf.callframe:CallFrameInfo._parse_cie_augmentation',
         'elftools.dwarf.callframe:CallFrameInfo._parse_lsda_pointer', 'elftools.dwarf.callframe:CallFrameInfo._parse_fde_header',
         'elftools.dwarf.callframe:CFIEntry._decode_CFI_table']


class Bad(Exception):
    def __init__(self, key, **d):
        Exception.__init__(self, key)
        self.key, self.d = key, d


def impl_rows(entry):
    dec = entry.get_decoded()
    rows = []
    for line in dec.table:
        c = line['cfa']
        if c.expr is not None:
            cfa = ('expr', list(c.expr))
        elif c.reg is None and c.offset in (0, None):
            cfa = None
        else:
            cfa = ('ro', c.reg, c.offset)
        rules = {}
        for k, v in line.items():
            if k in ('pc', 'cfa'):
                continue
            arg = v.arg
            if isinstance(arg, (list, tuple)):
                arg = list(arg)
            rules[k] = (v.type, arg)
        rows.append((line['pc'], cfa, rules))
    return rows, list(dec.reg_order)


def trivial(v):
    return v[0] is None and not v[1]


def cmp_tables(got_rows, want_rows, what):
    g, w = M.canon(got_rows), M.canon(want_rows)
    skip = None
    if trivial(want_rows[-1][1:]):
        # the final state has neither CFA nor rules: the library omits such a row, which leaves an
        # earlier row of the same location (zero advance) visible - not judged (see ASSUMPTIONS)
        skip = want_rows[-1][0]
    for pc in sorted(set(g) | set(w)):
        if pc == skip:
            continue
        if pc not in g:
            if trivial(w[pc]):
                continue
            raise Bad('%s table: missing row (cfa kind %s, %d rules, last row=%s)' % (
                what, w[pc][0] and w[pc][0][0], len(w[pc][1]), pc == want_rows[-1][0]), pc=pc, want=w[pc])
        if pc not in w:
            if trivial(g[pc]):
                continue
            raise Bad('%s table: extra row' % what, pc=pc, got=g[pc])
        if g[pc] != w[pc]:
            if g[pc][0] != w[pc][0]:
                raise Bad('%s table: CFA rule differs' % what, pc=pc, got=g[pc][0], want=w[pc][0])
            d = [r for r in set(g[pc][1]) | set(w[pc][1]) if g[pc][1].get(r) != w[pc][1].get(r)]
            raise Bad('%s table: register rule differs (%s)' % (what, (w[pc][1].get(d[0]) or g[pc][1].get(d[0]))[0]),
                      pc=pc, reg=d[0], got=g[pc][1].get(d[0]), want=w[pc][1].get(d[0]))


def run_case(kind, idx, rng, sh):
    from elftools.dwarf.callframe import CIE, FDE, ZERO
    eh = kind == 'eh_frame'
    le = rng.random() < 0.5
    asz = rng.choice([4, 8])
    sec, items, secaddr = cfigen.gen_section(rng, le, asz, eh)
    name = '.eh_frame' if eh else '.debug_frame'
    secs = {name: sec, '.debug_info': b'\0' * 16, '.debug_abbrev': b'\0'}
    di, streams = G.make_dwarfinfo(secs, le, TracedBytesIO, default_address_size=asz, addresses={name: secaddr})
    st = list(streams.values())
    try:
        poison(st, rng)
        ents = di.EH_CFI_entries() if eh else di.CFI_entries()
        if len(ents) != len(items):
            raise Bad('entry count', got=len(ents), want=len(items), kinds=[i.kind for i in items])
        for e, it in zip(ents, items):
            if e.offset != it.off:
                raise Bad('entry offset', got=e.offset, want=it.off)
            if it.kind == 'zero':
                if not isinstance(e, ZERO):
                    raise Bad('zero terminator kind')
                continue
            tag = '%s %s fmt%d' % (kind, it.kind, it.fmt)
            if not isinstance(e, CIE if it.kind == 'cie' else FDE):
                raise Bad('%s recognised as %s' % (tag, type(e).__name__))
            if e.structs.dwarf_format != it.fmt:
                raise Bad('%s: format' % tag)
            h = e.header
            if h['length'] != it.length:
                raise Bad('%s: length' % tag, got=h['length'], want=it.length)
            gi = [(i.opcode, [list(a) if isinstance(a, (list, tuple)) else a for a in i.args]) for i in e.instructions]
            if it.kind == 'cie':
                want = (it.ver, it.aug.encode(), it.caf, it.daf, it.ra)
                got = (h['version'], h['augmentation'], h['code_alignment_factor'], h['data_alignment_factor'],
                       h['return_address_register'])
                if got != want:
                    raise Bad('%s: header fields' % tag, got=got, want=want)
                if h['CIE_id'] != (0 if eh else (1 << it.fmt) - 1):
                    raise Bad('%s: CIE_id' % tag)
                if it.ver >= 4 and (h['address_size'], h['segment_size']) != (asz, 0):
                    raise Bad('%s: v4 address/segment size' % tag)
                if eh:
                    d = e.augmentation_dict
                    if e.augmentation_bytes != it.augdata:
                        raise Bad('%s: augmentation bytes (aug %r)' % (tag, it.aug), got=e.augmentation_bytes, want=it.augdata)
                    if 'R' in it.aug and d.get('FDE_encoding') != it.fde_enc:
                        raise Bad('%s: FDE_encoding' % tag)
                    if 'L' in it.aug and d.get('LSDA_encoding') != it.lsda_enc:
                        raise Bad('%s: LSDA_encoding' % tag)
                    if 'P' in it.aug and (d['personality'].encoding, d['personality'].function) != (it.p_enc, it.pval):
                        raise Bad('%s: personality (enc %#x)' % (tag, it.p_enc),
                                  got=(d['personality'].encoding, d['personality'].function), want=(it.p_enc, it.pval))
                    if ('S' in it.aug) != any(k is True or k in ('S', b'S') for k in d):
                        raise Bad('%s: signal-frame flag' % tag)
                    if it.aug.startswith('z') and d.get('length') != len(it.augdata):
                        raise Bad('%s: augmentation length' % tag)
            else:
                if e.cie is None or e.cie.offset != it.cie.off:
                    raise Bad('%s: linked to the wrong CIE (%s)' % (tag, 'FDE before its CIE' if it.off < it.cie.off else 'CIE first'),
                              got=e.cie.offset if e.cie else None, want=it.cie.off)
                if h['CIE_pointer'] != it.cie_pointer:
                    raise Bad('%s: CIE_pointer' % tag)
                if h['initial_location'] != it.loc:
                    raise Bad('%s: initial_location (enc %#x)' % (tag, it.cie.fde_enc if eh else 0),
                              got=h['initial_location'], want=it.loc)
                if h['address_range'] != it.range:
                    raise Bad('%s: address_range (enc %#x)' % (tag, it.cie.fde_enc if eh else 0), got=h['address_range'], want=it.range)
                if eh:
                    if e.lsda_pointer != it.lsda:
                        raise Bad('%s: LSDA pointer (enc %s)' % (tag, it.cie.lsda_enc), got=e.lsda_pointer, want=it.lsda)
                    if e.augmentation_bytes != it.augdata:
                        raise Bad('%s: augmentation bytes (CIE aug %r)' % (tag, it.cie.aug), got=e.augmentation_bytes, want=it.augdata)
            if gi != it.iexp_all:
                k = next((i for i, (a, b) in enumerate(zip(gi, it.iexp_all)) if a != b), min(len(gi), len(it.iexp_all)))
                op = it.iexp_all[k][0] if k < len(it.iexp_all) else None
                raise Bad('%s: instruction list differs at opcode %s%s' % (
                    tag, hex(op) if op is not None else 'end', ' (CIE aug %r)' % it.cie.aug if eh and it.kind == 'fde' else ''),
                    got=gi[k:k + 2], want=it.iexp_all[k:k + 2])
        # semantics, in arbitrary order (FDE tables pull in their CIE's)
        order = list(range(len(items)))
        rng.shuffle(order)
        for i in order:
            it, e = items[i], ents[i]
            if it.kind == 'zero':
                continue
            poison(st, rng)
            c = it if it.kind == 'cie' else it.cie
            crow = M.interp(c.ins, c.caf, c.daf, {}, None, 0)
            corder = M.first_mentions(c.ins, [])
            if it.kind == 'cie':
                want, worder = crow, corder
            else:
                want = M.interp(it.ins, c.caf, c.daf, crow[-1][2], crow[-1][1], it.loc)
                worder = M.first_mentions(it.ins, corder)
            got, gorder = impl_rows(e)
            cmp_tables(got, want, '%s %s' % (kind, it.kind))
            if gorder != worder:
                raise Bad('%s %s: reg_order' % (kind, it.kind), got=gorder, want=worder)
            if e.get_decoded() is not e.get_decoded():
                raise Bad('get_decoded not memoised consistently')
            ops = sorted({x[0] for x in it.ins})
            sh.sig((kind, it.kind, le, asz, it.fmt, c.ver, c.aug, tuple(ops[:4])))
            for x in ops:
                sh.sig(('op', x, it.kind, c.daf < 0, c.caf > 1))
            if eh and it.kind == 'fde':
                sh.sig(('enc', c.fde_enc, c.lsda_enc, asz, le))
    except Bad as b:
        sh.violation('C06:' + b.key, le=le, asz=asz, **b.d)
        return
    sh.held()
    sh.count('entries_compared', len(items))
    sh.sample({'section': name, 'little_endian': le, 'address_size': asz, 'section_address': secaddr,
               'entries': [(i.kind, i.off, getattr(i, 'aug', None) if i.kind == 'cie' else None) for i in items][:8]})
