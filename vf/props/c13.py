"""C13 - address-range and name lookup tables resolve to the right compilation unit."""
import bisect
import struct

from ..gen import dwarfgen as G
from ..monitor import TracedBytesIO, poison

PROP = 'C13'
LEVEL = 'exploration'
RULE = ('(a) generated .debug_aranges: 1-8 sets, address size 4/8 mixed across sets (every set '
        'starts tuple-aligned), header padding, empty sets, sets in any order, unsorted/adjacent/disjoint '
        'non-overlapping ranges incl. a range starting at address 0; queries: first/last byte, one '
        'past, one before, in every gap, below and above all; (b) .debug_pubnames/.debug_pubtypes: '
        'several sets, empty sets, non-ASCII unique names; mapping interface, order, set headers, '
        'get_DIE_from_lut_entry; (c) get_CU_containing at every offset 0..size-1 of generated '
        'multi-unit .debug_info sections in ascending, descending and random order on fresh objects, '
        'get_CU_at at every unit start, out-of-range offsets. distinct = (table kind, byte order, '
        'set/unit structure class, query class).')
ASSUMPTIONS = [
    'ranges within one table do not overlap (the lookup result is then unique)',
    'names within one table are unique (a mapping cannot hold duplicates)',
    'every set starts at a tuple-aligned section offset: for a set that starts unaligned DWARF 6.1.2 is '
    'ambiguous (the library pads the header relative to the section start, GNU readelf 2.40 and LLVM 14 '
    'relative to the set), so such tables are not generated',
]
KINDS = {'aranges': (1500, 40000, 0), 'pubnames': (1000, 25000, 0), 'culookup': (150, 4000, 0)}
FLOOR = {'quick': 2000, 'thorough': 50000}
REACH = ['elftools.dwarf.aranges:ARanges._get_entries', 'elftools.dwarf.aranges:ARanges.cu_offset_at_addr',
         'elftools.dwarf.namelut:NameLUT._get_entries', 'elftools.dwarf.dwarfinfo:DWARFInfo.get_CU_containing',
         'elftools.dwarf.dwarfinfo:DWARFInfo.get_CU_at', 'elftools.dwarf.dwarfinfo:DWARFInfo._cached_CU_at_offset',
         'elftools.dwarf.dwarfinfo:DWARFInfo.get_DIE_from_lut_entry']


def gen_aranges(rng, le):
    E = '<' if le else '>'
    nsets = rng.choice([1, 1, 2, 3, 5, 8])
    # carve non-overlapping ranges out of the address space first
    cursor = rng.choice([0, 0, 1, 0x1000, 0x7fff0000])
    sets = []
    for s in range(nsets):
        asz = rng.choice([4, 8])
        lim = 2 ** (8 * asz)
        tup = []
        for _ in range(rng.choice([0, 0, 1, 2, 3, 6])):
            gap = rng.choice([0, 0, 1, 0x100, 0x10000])
            ln = rng.choice([1, 2, 0x10, 0x1000])
            if cursor == 0 and not tup and not sets:
                gap = 0 if rng.random() < 0.5 else gap
            cursor += gap
            if cursor + ln < min(lim, 2 ** 32) - 1:
                tup.append((cursor, ln))
                cursor += ln
        if asz == 4 and len(tup) % 2 == 0:
            # keep every set a multiple of 16 bytes long, so that every set starts tuple-aligned
            # for either address size (see ASSUMPTIONS: unaligned set starts are ambiguous)
            if cursor + 1 < 2 ** 32 - 1:
                cursor += rng.choice([0, 5])
                tup.append((cursor, 1))
                cursor += 1
            elif tup:
                tup.pop()
        rng.shuffle(tup)
        sets.append(dict(asz=asz, info=rng.getrandbits(31), tup=tup))
    rng.shuffle(sets)
    sec = bytearray()
    exp = []
    for s in sets:
        asz = s['asz']
        # no padding between sets; every set is a multiple of 16 bytes long, so each starts
        # tuple-aligned and section-relative and set-relative header padding coincide
        start = len(sec)
        body = struct.pack(E + 'HIBB', 2, s['info'], asz, 0)
        body += b'\0' * ((-(start + 4 + len(body))) % (2 * asz))
        f = E + ('QQ' if asz == 8 else 'II')
        for a, l in s['tup']:
            body += struct.pack(f, a, l)
        body += struct.pack(f, 0, 0)
        sec += struct.pack(E + 'I', len(body)) + body
        for a, l in s['tup']:
            exp.append(dict(begin=a, length=l, info=s['info'], unit_length=len(body), asz=asz, lenpos=start,
                            unaligned=start % (2 * asz) != 0))
    return bytes(sec), exp, sets


def run_aranges(idx, rng, sh):
    from elftools.dwarf.aranges import ARanges
    le = rng.random() < 0.5
    sec, exp, sets = gen_aranges(rng, le)
    B = {'.debug_aranges': sec, '.debug_info': b'\0' * 16, '.debug_abbrev': b'\0'}
    di, streams = G.make_dwarfinfo(B, le, TracedBytesIO, default_address_size=rng.choice([4, 8]))
    st = list(streams.values())
    poison(st, rng)
    ar = di.get_aranges()
    got = sorted((e.begin_addr, e.length, e.info_offset, e.unit_length, e.version, e.address_size, e.segment_size)
                 for e in ar.entries)
    want = sorted((e['begin'], e['length'], e['info'], e['unit_length'], 2, e['asz'], 0) for e in exp)
    shape = (le, min(len(sets), 3), len({s['asz'] for s in sets}) > 1, any(not s['tup'] for s in sets), not exp,
             any(e['unaligned'] for e in exp))
    if got != want:
        sh.violation('C13:aranges entries differ (mixed address sizes=%s)' % shape[2], got=got[:4], want=want[:4], section=sec)
        return
    if [e.begin_addr for e in ar.entries] != sorted(e['begin'] for e in exp):
        sh.violation('C13:aranges entries not sorted by address')
        return
    qs = {0, 1, 2 ** 32 - 1, 2 ** 64 - 1}
    for e in exp:
        qs |= {e['begin'], e['begin'] + e['length'] - 1, e['begin'] + e['length'], max(0, e['begin'] - 1),
               e['begin'] + e['length'] // 2}
    qs = list(qs)
    rng.shuffle(qs)
    for q in qs:
        cont = [e['info'] for e in exp if e['begin'] <= q < e['begin'] + e['length']]
        w = cont[0] if cont else None
        poison(st, rng)
        g = ar.cu_offset_at_addr(q)
        if g != w:
            sh.violation('C13:cu_offset_at_addr wrong (%s)' % ('no ranges at all' if not exp else 'inside' if cont else 'outside'),
                         addr=q, got=g, want=w)
            return
    sh.held(('aranges',) + shape)
    sh.count('aranges_queries', len(qs))
    sh.sample({'sets': [(s['asz'], s['tup'][:3]) for s in sets][:3]}, kind='aranges')


NAMES = ['main', 'foo', 'ns::bar', 'é中', 'x' * 70, 'operator<<', 'a', 'T<int>', 'v%d']


def run_pubnames(idx, rng, sh):
    le = rng.random() < 0.5
    E = '<' if le else '>'
    which = rng.choice(['.debug_pubnames', '.debug_pubtypes'])
    sec = b''
    exp = []
    hdrs = []
    used = set()
    for s in range(rng.choice([1, 1, 2, 3, 6])):
        cu = rng.getrandbits(30)
        ln = rng.randint(1, 2 ** 31)
        body = struct.pack(E + 'HII', 2, cu, ln)
        for _ in range(rng.choice([0, 0, 1, 3, 12])):
            name = rng.choice(NAMES)
            name = name % len(used) if '%d' in name else name + str(len(used)) * (name in used)
            if name in used:
                continue
            used.add(name)
            do = rng.choice([1, 0xb, 2 ** 20, 2 ** 32 - 1, rng.getrandbits(24) + 1])
            body += struct.pack(E + 'I', do) + name.encode('utf-8') + b'\0'
            exp.append((name, cu, cu + do))
        body += struct.pack(E + 'I', 0)
        if rng.random() < 0.2:
            body += b'\0' * rng.choice([1, 4])       # padding inside unit_length after the terminator
        sec += struct.pack(E + 'I', len(body)) + body
        hdrs.append((len(body), 2, cu, ln))
    B = {which: sec, '.debug_info': b'\0' * 16, '.debug_abbrev': b'\0'}
    di, streams = G.make_dwarfinfo(B, le, TracedBytesIO)
    st = list(streams.values())
    poison(st, rng)
    nl = di.get_pubnames() if which == '.debug_pubnames' else di.get_pubtypes()
    other = di.get_pubtypes() if which == '.debug_pubnames' else di.get_pubnames()
    if other is not None or nl is None:
        sh.violation('C13:presence of name tables')
        return
    first = rng.choice(['items', 'len', 'headers', 'get', 'iter'])
    if first == 'headers':
        nl.get_cu_headers()
    elif first == 'len':
        len(nl)
    elif first == 'get':
        nl.get('zzz')
    poison(st, rng)
    got = [(n, e.cu_ofs, e.die_ofs) for n, e in nl.items()]
    gh = [(h.unit_length, h.version, h.debug_info_offset, h.debug_info_length) for h in nl.get_cu_headers()]
    ok = got == exp and gh == hdrs and len(nl) == len(exp) and list(nl) == [e[0] for e in exp] \
        and nl.get('absent-name') is None and 'absent-name' not in nl
    if ok:
        for n, c, d in exp:
            e = nl[n]
            if (e.cu_ofs, e.die_ofs) != (c, d) or nl.get(n) != e:
                ok = False
    if not ok:
        sh.violation('C13:%s table differs' % which[7:], got=got[:4], want=exp[:4], gh=gh[:3], hdrs=hdrs[:3])
        return
    sh.held(('names', which, le, min(len(hdrs), 3), min(len(exp), 4), first))
    sh.sample({'table': which, 'entries': exp[:3], 'headers': hdrs[:2]}, kind='pubnames')


def run_culookup(idx, rng, sh):
    from elftools.common.exceptions import DWARFError
    le = rng.random() < 0.5
    B = G.gen_info_retry(rng, le, nunits=rng.choice([1, 2, 3, 5, 8]), small=True, allow_big=False)
    size = len(B.sec['.debug_info'])
    starts = [U.off for U in B.units]
    # a pubnames table over real entries for get_DIE_from_lut_entry
    E = '<' if le else '>'
    pn = b''
    lut = []
    for U in B.units:
        if U.off >= 2 ** 32:
            continue
        body = struct.pack(E + 'HII', 2, U.off, min(U.size, 2 ** 32 - 1))
        for d in [x for x in U.dies if not x.null][:4]:
            nm = 'e%d' % d.off
            body += struct.pack(E + 'I', d.off - U.off) + nm.encode() + b'\0'
            lut.append((nm, U.off, d.off, d))
        body += struct.pack(E + 'I', 0)
        pn += struct.pack(E + 'I', len(body)) + body
    secs = dict(B.sec)
    secs['.debug_pubnames'] = pn
    orders = ['asc', 'desc', 'rand'] if size <= 4096 else [rng.choice(['asc', 'desc', 'rand'])]
    n = 0
    for order in orders:
        di, streams = G.make_dwarfinfo(secs, le, TracedBytesIO)
        st = list(streams.values())
        offs = list(range(size)) if size <= 4096 else sorted(rng.sample(range(size), 3000) + starts + [s - 1 for s in starts if s] + [size - 1])
        if order == 'desc':
            offs.reverse()
        elif order == 'rand':
            rng.shuffle(offs)
        for k, o in enumerate(offs):
            w = starts[bisect.bisect_right(starts, o) - 1]
            if k % 17 == 0:
                poison(st, rng)
            g = di.get_CU_containing(o).cu_offset
            if g != w:
                sh.violation('C13:get_CU_containing wrong unit (%s order)' % order, offset=o, got=g, want=w, starts=starts)
                return
            n += 1
        for o in (size, size + 5, -1, 2 ** 40):
            try:
                di.get_CU_containing(o)
                sh.violation('C13:get_CU_containing(out of range) returned', offset=o)
                return
            except DWARFError:
                pass
            try:
                di.get_CU_at(o)
                sh.violation('C13:get_CU_at(out of range) returned', offset=o)
                return
            except DWARFError:
                pass
        ss = list(starts)
        rng.shuffle(ss)
        for s in ss:
            poison(st, rng)
            cu = di.get_CU_at(s)
            U = B.units[starts.index(s)]
            if cu.cu_offset != s or cu['unit_length'] != U.ulen or cu['version'] != U.ver:
                sh.violation('C13:get_CU_at wrong unit', offset=s)
                return
        if [c.cu_offset for c in di.iter_CUs()] != starts:
            sh.violation('C13:iter_CUs after lookups differs (%s order)' % order)
            return
        names = di.get_pubnames()
        for nm, cu_off, die_off, d in (lut if len(lut) < 30 else rng.sample(lut, 30)):
            poison(st, rng)
            e = names[nm]
            die = di.get_DIE_from_lut_entry(e)
            if (e.cu_ofs, e.die_ofs) != (cu_off, die_off) or die.offset != die_off or die.cu.cu_offset != cu_off \
                    or die.size != d.size or die.abbrev_code != d.code:
                sh.violation('C13:get_DIE_from_lut_entry wrong entry', name=nm)
                return
        sh.held(('culookup', le, min(len(starts), 4), order, size <= 4096))
    # offset-exact lookups FIRST on a fresh object, in arbitrary order, then everything else
    for rep in range(2):
        di, streams = G.make_dwarfinfo(secs, le, TracedBytesIO)
        st = list(streams.values())
        ss = list(starts)
        rng.shuffle(ss)
        seen = {}
        for s in ss[:rng.randint(1, len(ss))]:
            poison(st, rng)
            cu = di.get_CU_at(s)
            U = B.units[starts.index(s)]
            if (cu.cu_offset, cu['unit_length'], cu['version'], cu['address_size']) != (s, U.ulen, U.ver, U.asz):
                sh.violation('C13:get_CU_at wrong unit (exact lookups first)', offset=s)
                return
            seen[s] = cu
        qs = [rng.randrange(size) for _ in range(12)] + ss
        for o in qs:
            w = starts[bisect.bisect_right(starts, o) - 1]
            cu = di.get_CU_containing(o)
            U = B.units[starts.index(w)]
            if (cu.cu_offset, cu['unit_length'], cu['version']) != (w, U.ulen, U.ver) or not (cu.cu_offset <= o < cu.cu_offset + cu.size):
                sh.violation('C13:get_CU_containing wrong unit after out-of-order exact lookups', offset=o, got=cu.cu_offset, want=w)
                return
            if w in seen and seen[w] is not cu and (seen[w].cu_offset, seen[w].header) != (cu.cu_offset, cu.header):
                sh.violation('C13:two lookups of one unit disagree')
                return
        for s in starts:
            if di.get_CU_at(s).cu_offset != s:
                sh.violation('C13:get_CU_at wrong unit after mixed lookups', offset=s)
                return
        got = [(c.cu_offset, c['unit_length']) for c in di.iter_CUs()]
        if got != [(U.off, U.ulen) for U in B.units]:
            sh.violation('C13:iter_CUs differs after out-of-order exact lookups', got=got)
            return
        sh.held(('exact-first', le, min(len(starts), 4)))
    sh.count('cu_containing_lookups', n)
    if size <= 4096:
        sh.count('sections_with_every_offset_queried')
    sh.sample({'unit_starts': starts, 'section_size': size, 'orders': orders}, kind='culookup')


def run_case(kind, idx, rng, sh):
    {'aranges': run_aranges, 'pubnames': run_pubnames, 'culookup': run_culookup}[kind](idx, rng, sh)


# ---- cross-validation of the aranges generator against llvm-dwarfdump
import re
from .. import oracles
KINDS['xval'] = (24, 240, 3)
_base_run_case = run_case


def run_case(kind, idx, rng, sh):
    if kind != 'xval':
        return _base_run_case(kind, idx, rng, sh)
    if not oracles.have('llvm-dwarfdump'):
        sh.skip('llvm-dwarfdump missing')
        return
    le = rng.random() < 0.5
    sec, exp, sets = gen_aranges(rng, le)
    img = oracles.wrap_debug({'.debug_aranges': sec, '.debug_info': b'\0' * 16}, le)
    with oracles.Scratch() as s:
        p = s.write('a.o', img)
        rc, out, err = oracles.run(['llvm-dwarfdump', '--debug-aranges', p])
    if rc != 0 or 'error' in err:
        sh.skip('llvm-dwarfdump declined')
        return
    got = sorted((int(a, 16), int(b, 16) - int(a, 16)) for a, b in re.findall(r'^\[0x([0-9a-f]+),\s+0x([0-9a-f]+)\)', out, re.M))
    want = sorted((e['begin'], e['length']) for e in exp)
    if got != want:
        sh.dispute('aranges generator vs llvm-dwarfdump')
        return
    sh.count('xval_aranges_tables_agreeing_with_llvm_dwarfdump')
    sh.held(('xval', le, min(len(sets), 3)))
