"""C17 - symbolic names and numeric codes follow the ELF and DWARF registries.

Monitor 1 walks every exported (name, value) table of the live modules and compares
with the vendored registries. Monitor 2 observes the translation on the parse path:
records carrying each judged code are parsed by the real reader (structs selected by
the real ELF header parse) and the reported name must be one the registry assigns to
that code in the table applicable to the field and machine.
"""
import io
import json
import os
import struct

from .. import VERIF_DIR
from ..gen import elfgen

PROP = 'C17'
LEVEL = 'exploration'
RULE = ('every (table, name, value) exported by elf/enums, elf/constants, dwarf/enums, '
        'dwarf/constants, DW_OP_name2opcode, _OPCODE_NAME_MAP, DW_FORM_raw2name whose name a '
        'vendored registry (glibc elf.h, LLVM 14 BinaryFormat) defines is compared with the '
        'registry value (exhaustive over the live tables); then each judged code of the '
        'parse-time tables is put into a real record and parsed back under every machine/OS '
        'context. distinct_nontrivial counts distinct judged (table, name) pairs plus distinct '
        '(context, field, code) translations observed.')
ASSUMPTIONS = [
    'registries: glibc elf.h and LLVM 14 headers as vendored under /verif/registry; a value is '
    'accepted if at least one registry that defines the name agrees',
    'names no registry defines are counted as unjudged, not judged',
]
KINDS = {'tables': (1, 1, 1), 'parse': (40, 40, 4)}
FLOOR = {'quick': 1500, 'thorough': 1500}

_REG = None


def registries():
    global _REG
    if _REG is None:
        regs = []
        for fn in ('glibc_elf_h.json', 'llvm14_binaryformat.json'):
            with open(os.path.join(VERIF_DIR, 'registry', fn)) as f:
                regs.append(json.load(f)['names'])
        _REG = regs
    return _REG


# Corrections to the extracted registries (each justified): names whose registry meaning
# is not the library table's meaning, so a comparison would judge apples against pears.
NOT_COMPARABLE = {
    # glibc: '#define DT_PROCNUM DT_MIPS_NUM' etc. are counts, never appear in library tables
}


def reg_values(name):
    return [r[name] for r in registries() if name in r]


def live_tables():
    """(table label, name, value) for every exported constant table."""
    import elftools.elf.enums as E
    import elftools.elf.constants as C
    import elftools.dwarf.enums as DE
    import elftools.dwarf.constants as DC
    from elftools.dwarf.dwarf_expr import DW_OP_name2opcode, DW_OP_opcode2name
    import elftools.dwarf.callframe as CF
    out = []
    for modname, mod in (('elf.enums', E), ('dwarf.enums', DE)):
        for k, v in sorted(vars(mod).items()):
            if isinstance(v, dict) and (k.startswith('ENUM') or k.startswith('DW_EH')):
                for n, val in v.items():
                    if isinstance(val, int) and not isinstance(val, bool) and isinstance(n, str):
                        out.append((modname + '.' + k, n, val))
                    elif isinstance(val, dict):
                        for n2, val2 in val.items():
                            if isinstance(val2, int) and isinstance(n2, str):
                                out.append((modname + '.' + k + '.' + n, n2, val2))
    for k, v in sorted(vars(C).items()):
        if isinstance(v, type):
            for n, val in vars(v).items():
                if isinstance(val, int) and not n.startswith('_'):
                    out.append(('elf.constants.' + k, n, val))
    for n, val in sorted(vars(DC).items()):
        if isinstance(val, int) and n.startswith('DW_'):
            out.append(('dwarf.constants', n, val))
    for n, val in DW_OP_name2opcode.items():
        out.append(('dwarf_expr.DW_OP_name2opcode', n, val))
    for val, n in DW_OP_opcode2name.items():
        out.append(('dwarf_expr.DW_OP_opcode2name', n, val))
    for val, n in CF._OPCODE_NAME_MAP.items():
        out.append(('callframe._OPCODE_NAME_MAP', n, val))
    for val, n in DE.DW_FORM_raw2name.items():
        out.append(('dwarf.enums.DW_FORM_raw2name', n, val))
    return out


# ---------------------------------------------------------------- monitor 2
from ..ref.names import MACH, RANGE_MARK, applicable as _applicable
VENDORS = set(MACH) | {'SUNW', 'GNU', 'ANDROID', 'HP', 'IA', 'VERSYM', 'VERDEF', 'VERNEED'}
CONTEXTS = [  # (label, e_machine, osabi)
    ('i386', 3, 0), ('x86-64', 62, 0), ('arm', 40, 0), ('aarch64', 183, 0), ('mips', 8, 0),
    ('riscv', 243, 0), ('ppc64', 21, 0), ('sparc-solaris', 2, 6),
    ('x86-64-solaris', 62, 6),
]

def applicable(name, prefix, machine, osabi):
    return _applicable(name, prefix, machine)


def lib_names_with_prefix(prefix):
    """name -> value over every library ELF enum table (union), for 'does the library know
    a name for this code' without using its dispatch."""
    import elftools.elf.enums as E
    out = {}
    for k, v in vars(E).items():
        if isinstance(v, dict) and k.startswith('ENUM'):
            for n, val in v.items():
                if isinstance(n, str) and n.startswith(prefix) and isinstance(val, int):
                    out.setdefault(n, val)
    return out


def judge(sh, field, prefix, label, machine, osabi, code, observed):
    """Returns True when judged."""
    libnames = lib_names_with_prefix(prefix)
    if isinstance(observed, str):
        vals = reg_values(observed)
        if not vals:
            # a name only the library has; fine unless its own tables also hold the registries' name for this code
            better = [n for n, v in libnames.items() if v == code and code in reg_values(n) and applicable(n, prefix, machine, osabi)
                      and not RANGE_MARK.search(n) and n.split('_')[1] not in VENDORS]       # (what an OS-range code means depends on the OS)
            if better and not (machine is not None and applicable(observed, prefix, machine, osabi) and any(
                    observed.split('_')[1] == b.split('_')[1] for b in better)):
                raise_m(sh, 'C17-parse:%s code %#x decoded as %s although the tables hold the registry name %s' % (
                    field, code, observed, sorted(better)[0]), ctx=label)
                return True
            sh.count('parse_unjudged_libonly_name')
            return False
        if prefix == 'DT_' and RANGE_MARK.search(observed):
            proper = [n for n, v in libnames.items() if v == code and code in reg_values(n) and not RANGE_MARK.search(n)
                      and n.split('_')[1] not in VENDORS and applicable(n, prefix, machine, osabi)]
            if proper:
                raise_m(sh, 'C17-parse:%s code %#x decoded as the range limit %s although it is %s' % (field, code, observed, sorted(proper)[0]), ctx=label)
                return True
        if code not in vals:
            raise_m(sh, 'C17-parse:%s:%s reported for code %#x, registry says %s' % (
                field, observed, code, [hex(v) for v in vals]), ctx=label)
            return True
        if not applicable(observed, prefix, machine, osabi):
            raise_m(sh, 'C17-parse:%s:%s (table of another machine/OS) reported under %s' % (
                field, observed, label), ctx=label, code=code)
            return True
        return True
    # raw integer: fine unless the library has, in some table, a registry-confirmed name
    # for this code that applies to this machine
    cands = [n for n, v in libnames.items() if v == code and code in reg_values(n)
             and applicable(n, prefix, machine, osabi)]
    if cands:
        raise_m(sh, 'C17-parse:%s code %#x reported raw under %s although the library defines %s' % (
            field, code, label, sorted(cands)[:3]), ctx=label)
    return True


def raise_m(sh, key, **d):
    sh.note_violation(key, **d)


def codes_for(prefix, machine, osabi):
    """Judged codes worth probing in this context: every code of a library name with the
    prefix that a registry confirms (applicable or not - the inapplicable ones must come back
    raw or under an applicable alias)."""
    libnames = lib_names_with_prefix(prefix)
    return sorted({v for n, v in libnames.items() if reg_values(n)})


def parse_context(sh, ci):
    from elftools.elf.elffile import ELFFile
    from elftools.common.utils import struct_parse
    label, machine, osabi = CONTEXTS[ci % len(CONTEXTS)]
    variant = ci // len(CONTEXTS)
    cls = 64 if variant % 2 == 0 else 32
    le = (variant // 2) % 2 == 0
    if machine in (2,) and cls == 64:
        machine = 43
    E = '<' if le else '>'
    is64 = cls == 64
    img, info = elfgen.build(cls=cls, le=le, machine=machine, osabi=osabi, etype=3,
                             sections=[elfgen.Sec('.text', 1, data=b'\0' * 8)])
    ef = ELFFile(io.BytesIO(img))
    st = ef.structs
    n = 0
    bad0 = len(sh.violations)

    def obs(field, prefix, code, value):
        nonlocal n
        if judge(sh, field, prefix, label, machine, osabi, code, value):
            n += 1
            sh.sig((label, cls, le, field, code))

    for code in codes_for('SHT_', machine, osabi):
        b = elfgen.shdr_pack(E, is64, 0, code, 0, 0, 0, 0, 0, 0, 0, 0)
        obs('sh_type', 'SHT_', code, struct_parse(st.Elf_Shdr, io.BytesIO(b))['sh_type'])
    for code in codes_for('PT_', machine, osabi):
        g = elfgen.Seg(type=code)
        obs('p_type', 'PT_', code, struct_parse(st.Elf_Phdr, io.BytesIO(elfgen.phdr_pack(E, is64, g)))['p_type'])
    for code in codes_for('DT_', machine, osabi):
        sc = code if code < 2 ** 31 or is64 else code - 2 ** 32
        b = struct.pack(E + ('qQ' if is64 else 'iI'), sc, 0)
        obs('d_tag', 'DT_', sc if sc >= 0 else code, struct_parse(st.Elf_Dyn, io.BytesIO(b))['d_tag'])
    for code in codes_for('STB_', machine, osabi):
        for typ in codes_for('STT_', machine, osabi):
            if code > 15 or typ > 15:
                continue
            b = elfgen.sym_pack(E, is64, 0, 0, 0, (code << 4) | typ, 0, 0)
            s = struct_parse(st.Elf_Sym, io.BytesIO(b))
            obs('st_bind', 'STB_', code, s['st_info']['bind'])
            obs('st_type', 'STT_', typ, s['st_info']['type'])
    for code in codes_for('STV_', machine, osabi):
        b = elfgen.sym_pack(E, is64, 0, 0, 0, 0, code & 7, 0)
        obs('st_visibility', 'STV_', code, struct_parse(st.Elf_Sym, io.BytesIO(b))['st_other']['visibility'])
    for code in codes_for('SHN_', machine, osabi):
        b = elfgen.sym_pack(E, is64, 0, 0, 0, 0, 0, code)
        obs('st_shndx', 'SHN_', code, struct_parse(st.Elf_Sym, io.BytesIO(b))['st_shndx'])
    for code in codes_for('ELFCOMPRESS_', machine, osabi):
        b = struct.pack(E + ('IIQQ' if is64 else 'III'), *((code, 0, 0, 0) if is64 else (code, 0, 0)))
        obs('ch_type', 'ELFCOMPRESS_', code, struct_parse(st.Elf_Chdr, io.BytesIO(b))['ch_type'])
    for code in codes_for('NT_GNU_', machine, osabi):
        b = struct.pack(E + 'III', 0, 0, code)
        obs('n_type', 'NT_GNU_', code, struct_parse(st.Elf_Nhdr, io.BytesIO(b))['n_type'])
    for code in codes_for('GNU_PROPERTY_', machine, osabi):
        b = struct.pack(E + 'III', code, 4, 0) + b'\0' * 4
        obs('pr_type', 'GNU_PROPERTY_', code, struct_parse(st.Elf_Prop, io.BytesIO(b))['pr_type'])
    # header-level codes go through the whole constructor
    for prefix, fld, codes in (('EM_', 'e_machine', codes_for('EM_', 0, 0)),
                               ('ET_', 'e_type', codes_for('ET_', 0, 0)),
                               ('ELFOSABI_', 'EI_OSABI', codes_for('ELFOSABI_', 0, 0))):
        step = len(CONTEXTS) * 4
        for code in codes[ci % step::step] if prefix == 'EM_' else codes:
            kw = dict(cls=cls, le=le, machine=machine, osabi=osabi, etype=3)
            if prefix == 'EM_':
                kw['machine'] = code
            elif prefix == 'ET_':
                kw['etype'] = code
            else:
                if code > 255:
                    continue
                kw['osabi'] = code
            im, _ = elfgen.build(sections=[elfgen.Sec('.text', 1, data=b'\0')], **kw)
            h = ELFFile(io.BytesIO(im)).header
            v = h['e_ident']['EI_OSABI'] if prefix == 'ELFOSABI_' else h[fld]
            obs(fld, prefix, code, v)
    # core-file note types: same Nhdr field, table switched by e_type
    im, _ = elfgen.build(cls=cls, le=le, machine=machine, etype=4,
                         sections=[elfgen.Sec('.text', 1, data=b'\0')])
    stc = ELFFile(io.BytesIO(im)).structs
    import elftools.elf.enums as EN
    for name, code in EN.ENUM_CORE_NOTE_N_TYPE.items():
        if not isinstance(code, int) or not reg_values(name):
            continue
        v = struct_parse(stc.Elf_Nhdr, io.BytesIO(struct.pack(E + 'III', 0, 0, code)))['n_type']
        if isinstance(v, str) and reg_values(v) and code not in reg_values(v):
            raise_m(sh, 'C17-parse:core n_type %s for %#x' % (v, code))
        elif not isinstance(v, str):
            raise_m(sh, 'C17-parse:core n_type %#x reported raw' % code)
        n += 1
        sh.sig((label, 'core', code))
    sh.held(n=n)
    if ci == 0:
        sh.sample({'context': label, 'class': cls, 'little_endian': le,
                   'translations_observed': n}, kind='parse')
    # DWARF codes through the abbreviation/unit-header structs
    if ci < 4:
        dwarf_parse(sh, le, ci)


def dwarf_parse(sh, le, ci):
    from elftools.dwarf.structs import DWARFStructs
    from elftools.common.utils import struct_parse
    import elftools.dwarf.enums as DE
    from ..gen.leb import uleb
    st = DWARFStructs(little_endian=le, dwarf_format=32 if ci % 2 == 0 else 64,
                      address_size=8 if ci < 2 else 4, dwarf_version=5)
    n = 0

    def chk(what, observed, code):
        nonlocal n
        if isinstance(observed, str):
            vals = reg_values(observed)
            if not vals:
                table = {'DW_TAG': DE.ENUM_DW_TAG, 'DW_AT': DE.ENUM_DW_AT, 'DW_FORM': DE.ENUM_DW_FORM}[what]
                better = [k for k, v in table.items() if v == code and code in reg_values(k)]
                if better:
                    raise_m(sh, 'C17-parse:%s code %#x decoded as %s although the table holds the registry name %s' % (what, code, observed, better[0]))
                return
            if vals and code not in vals:
                raise_m(sh, 'C17-parse:%s %s reported for %#x, registry %s' % (what, observed, code, vals))
            elif vals:
                n += 1
                sh.sig(('dw', what, code))
        else:
            raise_m(sh, 'C17-parse:%s code %#x reported raw although in the table' % (what, code))

    for name, code in DE.ENUM_DW_TAG.items():
        if not isinstance(code, int) or not reg_values(name):
            continue
        b = uleb(code) + b'\x01' + uleb(3) + uleb(8) + b'\0\0'
        d = struct_parse(st.Dwarf_abbrev_declaration, io.BytesIO(b))
        chk('DW_TAG', d['tag'], code)
    for name, code in DE.ENUM_DW_AT.items():
        if not isinstance(code, int) or not reg_values(name):
            continue
        for fname, fcode in DE.ENUM_DW_FORM.items():
            if not isinstance(fcode, int) or not reg_values(fname) or fcode == 0x21:
                continue
            if (code + fcode) % 7 != ci:
                continue
            b = uleb(0x11) + b'\x00' + uleb(code) + uleb(fcode) + b'\0\0'
            d = struct_parse(st.Dwarf_abbrev_declaration, io.BytesIO(b))
            chk('DW_AT', d['attr_spec'][0]['name'], code)
            chk('DW_FORM', d['attr_spec'][0]['form'], fcode)
    for tab, strct, fld in (('ENUM_DW_UT', None, None),):
        pass
    sh.held(n=n)


RELOC_MACHINES = {3: 'R_386_', 62: 'R_X86_64_', 40: 'R_ARM_', 183: 'R_AARCH64_', 21: 'R_PPC64_', 20: 'R_PPC_', 22: 'R_390_', 8: 'R_MIPS_',
                  258: 'R_LARCH_'}


def reloc_names(sh):
    """The code-to-name direction of the relocation tables, as a file of each machine sees it: for every code the registries
    name with the machine's own prefix, describe_reloc_type on a file of that machine gives one of those names."""
    from elftools.elf.elffile import ELFFile
    from elftools.elf.descriptions import describe_reloc_type
    n = 0
    regs = registries()
    for mach, prefix in RELOC_MACHINES.items():
        byval = {}
        for r in regs:
            for k, v in r.items():
                if k.startswith(prefix) and isinstance(v, int) and not (prefix == 'R_PPC_' and k.startswith('R_PPC64_')):
                    byval.setdefault(v, set()).add(k)
        for cls, le in ((32, True), (64, True), (64, False), (32, False)):
            img, _ = elfgen.build(cls=cls, le=le, machine=mach, etype=1, sections=[elfgen.Sec('.text', 1, data=b'\0' * 4)])
            ef = ELFFile(io.BytesIO(img))
            for code, names in sorted(byval.items()):
                got = describe_reloc_type(code, ef)
                if not isinstance(got, str) or not got.startswith('R_'):
                    continue            # no name in the library's table: unjudged here (a missing entry is not a wrong one)
                if not reg_values(got):
                    sh.count('relocation_names_only_the_library_has')       # another spelling (R_ARM_ALU_PCREL7_0): unjudged
                    continue
                n += 1
                sh.sig(('reloc-name', mach, code))
                if got not in names:
                    sh.note_violation('C17-reloc:machine %d code %d described as %s, registry %s' % (mach, code, got, '/'.join(sorted(names))[:80]),
                                      cls=cls, le=le)
    sh.count('relocation_codes_described_per_machine', n)
    return n


def run_case(kind, idx, rng, sh):
    if kind == 'tables':
        pairs = live_tables()
        judged = unjudged = 0
        for tab, n, val in pairs:
            vals = reg_values(n)
            if not vals:
                unjudged += 1
                continue
            judged += 1
            sh.sig((tab, n))
            if val not in vals:
                sh.note_violation('C17-table:%s %s=%#x registry=%s' % (
                    tab, n, val, '/'.join(hex(v) for v in vals)))
            elif tab.endswith('opcode2name') and n.endswith(('_lo_user', '_hi_user')):
                # a code-to-name table reports a code found in a file: the marker of a vendor range is not the name of an
                # operation when a registry names one for that code (0xe0: DW_OP_GNU_push_tls_address)
                real = sorted(k for r in registries() for k, v in r.items()
                              if v == val and k.startswith('DW_OP_') and not k.endswith(('_lo_user', '_hi_user')))
                if real:
                    sh.note_violation('C17-table:%s reports %#x as the range marker %s, registry operation %s' % (tab, val, n, '/'.join(real)))
        judged += reloc_names(sh)
        sh.held(n=judged)
        sh.count('table_pairs', len(pairs))
        sh.count('table_pairs_judged', judged)
        sh.count('table_pairs_unjudged_no_registry_name', unjudged)
        sh.extra['exhaustive_tables'] = True
        sh.sample({'table_pairs': len(pairs), 'judged': judged,
                   'first': [list(p) for p in pairs[:5]]}, kind='tables')
    else:
        parse_context(sh, idx)


def finish(m, tier, seed):
    return {'exhaustive': True,
            'explanation': 'monitor 1 is exhaustive over the live tables; monitor 2 covers every '
                           'judged code of the parse-time tables in %d machine/OS contexts x '
                           'class x byte order' % len(CONTEXTS)}
