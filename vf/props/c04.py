"""C04 - debugging-information entries are decoded into exactly the encoded tree."""
import io

from ..gen import dwarfgen as G
from ..ref.names import name_ok
from ..monitor import TracedBytesIO, poison

PROP = 'C04'
LEVEL = 'exploration'
RULE = ('generated .debug_info/.debug_abbrev(/.debug_types) sets: 1-6 units of mixed version 2-5 x '
        'DWARF32/64 x address size 4/8 x v5 unit kinds, one byte order per set; abbreviation tables '
        'shared or per unit at arbitrary offsets with multi-byte codes and unknown tag/attribute '
        'numbers; random trees (depth <= 5, occasional 400 flat children) with DW_AT_sibling absent or '
        'in each reference form; every attribute form incl. indirect (chained), implicit_const, the '
        'string/address/list index forms with base attributes before or after first use, reference '
        'attributes (unit-relative, ref_addr across units, ref_sig8 into .debug_types). Compared: unit '
        'headers, the full iter_DIEs sequence with offsets/sizes/codes/tags/attribute tuples, tiling, '
        'children/parent/terminator relations, reference resolution. distinct = (version, format, '
        'address size, order, unit kind, sibling mode) plus (form, version, format) of every attribute.')
ASSUMPTIONS = [
    'tag/attribute/form names are expected from the vendored registries; names only the library '
    'knows are accepted unjudged (C17 judges values)',
    'DW_FORM_ref_udata operands are written padded to 4 bytes so that layout is fixed before '
    'references are resolved (padded LEB128 is valid)',
    'index forms (strx*, addrx*, loclistx, rnglistx) are generated in version 5 units only',
]
KINDS = {'info': (1500, 40000, 0), 'types': (300, 8000, 0)}
FLOOR = {'quick': 1200, 'thorough': 30000}
CASE_TIMEOUT = 120
REACH = ['elftools.dwarf.die:DIE._parse_DIE', 'elftools.dwarf.die:DIE._resolve_indirect',
         'elftools.dwarf.die:DIE._translate_attr_value', 'elftools.dwarf.die:DIE._translate_indirect_attributes',
         'elftools.dwarf.die:DIE.get_DIE_from_attribute', 'elftools.dwarf.die:DIE._search_ancestor_offspring',
         'elftools.dwarf.compileunit:CompileUnit.iter_DIE_children', 'elftools.dwarf.compileunit:CompileUnit._get_cached_DIE',
         'elftools.dwarf.typeunit:TypeUnit.iter_DIE_children', 'elftools.dwarf.dwarfinfo:DWARFInfo._parse_CU_at_offset',
         'elftools.dwarf.dwarfinfo:DWARFInfo._parse_TU_at_offset', 'elftools.dwarf.dwarfinfo:DWARFInfo.get_DIE_by_sig8',
         'elftools.dwarf.abbrevtable:AbbrevTable._parse_abbrev_table']
UTN = {'compile': 'DW_UT_compile', 'type': 'DW_UT_type', 'partial': 'DW_UT_partial', 'skeleton': 'DW_UT_skeleton',
       'split_compile': 'DW_UT_split_compile', 'split_type': 'DW_UT_split_type'}
_T = {}


def tabs():
    if not _T:
        import elftools.dwarf.enums as E
        _T.update(tag=E.ENUM_DW_TAG, at=E.ENUM_DW_AT, form=E.ENUM_DW_FORM)
    return _T


class Bad(Exception):
    def __init__(self, key, **d):
        Exception.__init__(self, key)
        self.key, self.d = key, d


def check_unit_header(cu, U, is_tu):
    h = cu.header
    want = dict(unit_length=U.ulen, version=U.ver, debug_abbrev_offset=U.abbrev_off, address_size=U.asz)
    if is_tu:
        want.update(signature=U.signature, type_offset=U.type_die.off - U.off)
    elif U.ver >= 5:
        want['unit_type'] = UTN[U.ut]
        if U.ut in ('skeleton', 'split_compile'):
            want['dwo_id'] = U.dwo_id
        if U.ut in ('type', 'split_type'):
            want.update(type_signature=U.signature, type_offset=U.type_die.off - U.off)
    got = {k: h.get(k) for k in want}
    if got != want:
        raise Bad('unit header fields (v%d %s)' % (U.ver, U.ut), got=got, want=want)
    if (cu.cu_offset, cu.cu_die_offset, cu.size, cu.structs.dwarf_format, cu.dwarf_format(),
            cu.structs.address_size, cu.structs.little_endian) != \
            (U.off, U.off + U.hdrlen, U.size, U.fmt, U.fmt, U.asz, U.le):
        raise Bad('unit offsets/size/format (v%d fmt%d)' % (U.ver, U.fmt),
                  got=(cu.cu_offset, cu.cu_die_offset, cu.size, cu.structs.dwarf_format))


def check_die(d, e, U, sh):
    T = tabs()
    if e.null:
        if not d.is_null() or d.size != e.size or d.abbrev_code != 0 or d.attributes:
            raise Bad('null entry%s' % (' (non-minimal LEB128 zero)' if e.size > 1 else ''), off=e.off, got=d.size, want=e.size)
        return
    if d.size != e.size:
        forms = sorted({a.final for a in e.attrs})
        raise Bad('entry size', off=e.off, got=d.size, want=e.size, forms=forms)
    if d.abbrev_code != e.code or d.has_children != e.ch or not name_ok('DW_TAG', e.tag, d.tag, T['tag']):
        raise Bad('abbrev code/tag/children flag', got=(d.abbrev_code, d.tag, d.has_children),
                  want=(e.code, hex(e.tag), e.ch))
    ga = list(d.attributes.values())
    if len(ga) != len(e.attrs):
        raise Bad('attribute count', got=len(ga), want=len(e.attrs))
    for g, a in zip(ga, e.attrs):
        fname = 'DW_FORM_' + a.final
        if not name_ok('DW_AT', a.name, g.name, T['at']):
            raise Bad('attribute name', got=g.name, want=hex(a.name))
        if g.form != fname:
            raise Bad('attribute form %s' % fname, got=g.form)
        if g.raw_value != a.raw:
            raise Bad('raw value of %s (v%d fmt%d asz%d)' % (fname, U.ver, U.fmt, U.asz), got=g.raw_value, want=a.raw)
        if g.value != a.value:
            raise Bad('value of %s (v%d fmt%d)' % (fname, U.ver, U.fmt), got=g.value, want=a.value,
                      top=e is U.top)
        if g.offset != a.off:
            raise Bad('attribute offset (%s)' % fname, got=g.offset, want=a.off)
        if g.indirection_length != (0 if a.form != 'indirect' else None) and a.form != 'indirect':
            raise Bad('indirection_length', got=g.indirection_length)
        sh.sig((a.final, a.form == 'indirect', U.ver, U.fmt, U.asz))


def check_unit(cu, U, sh, rng, di, is_tu=False, streams=()):
    check_unit_header(cu, U, is_tu)
    poison(streams, rng)
    top = cu.get_top_DIE()
    if top.offset != U.top.off:
        raise Bad('top entry offset')
    got = []
    for d in cu.iter_DIEs():
        got.append(d)
        if len(got) % 7 == 0:
            poison(streams, rng)
    if len(got) != len(U.dies):
        raise Bad('entry count (sibling mode %s)' % U.sibmode, got=len(got), want=len(U.dies))
    pos = U.off + U.hdrlen
    for d, e in zip(got, U.dies):
        if d.offset != e.off or d.offset != pos:
            raise Bad('entry offset / tiling (sibling mode %s)' % U.sibmode, got=d.offset, want=e.off, pos=pos)
        check_die(d, e, U, sh)
        pos += d.size
    if pos != U.off + U.size:
        raise Bad('sizes do not tile the unit')
    # nesting
    byoff = {d.offset: d for d in got}
    real = [e for e in U.dies if not e.null]
    sample = real if len(real) < 60 else rng.sample(real, 60)
    for e in sample:
        d = byoff[e.off]
        poison(streams, rng)
        kids = [k.offset for k in d.iter_children()]
        if kids != [c.off for c in e.children]:
            raise Bad('children (sibling mode %s)' % U.sibmode, off=e.off, got=kids, want=[c.off for c in e.children])
        if e.ch:
            if d._terminator is None or d._terminator.offset != e.children_term.off:
                raise Bad('terminator closes another list', off=e.off)
        p = d.get_parent()
        if (p.offset if p is not None else None) != (e.parent.off if e.parent else None):
            raise Bad('parent', off=e.off, got=p.offset if p else None)
    for e in [x for x in U.dies if x.null][:10]:
        p = byoff[e.off].get_parent()
        if p is None or p.offset != e.parent.off:
            raise Bad('parent of a null entry', off=e.off)
    # references
    nref = 0
    for e in sample:
        d = byoff[e.off]
        for a in e.attrs:
            if a.ref is None or a.name == G.AT_SIBLING and False:
                continue
            name = list(d.attributes.values())[e.attrs.index(a)].name
            if isinstance(a.ref, tuple):
                tu = a.ref[1]
                if tu.section != '.debug_types':
                    key = 'v5_ref_sig8_unresolved'
                    try:
                        t = d.get_DIE_from_attribute(name)
                    except KeyError:
                        if key in sh.quirks:
                            sh.known[key] += 1
                            continue
                        raise Bad('ref_sig8 into a v5 type unit of .debug_info not resolved (KeyError)')
                    if t.offset != tu.type_die.off:
                        raise Bad('ref_sig8 (v5) resolves to the wrong entry')
                    continue
                t = d.get_DIE_from_attribute(name)
                if t.offset != tu.type_die.off or t.cu.cu_offset != tu.off:
                    raise Bad('ref_sig8 resolves to the wrong entry', got=t.offset, want=tu.type_die.off)
                sh.sig(('ref', 'sig8', U.ver))
                # the unit object reached through the signature has a cache of its own, entered in the middle: entries
                # looked up by offset in any order, and the walk from the top, must still be the encoded ones
                tcu = t.cu
                offs = [x.off for x in tu.dies if not x.null]
                for o in rng.sample(offs, min(4, len(offs))):
                    x = tcu.get_DIE_from_refaddr(o)
                    if x.offset != o:
                        raise Bad('lookup by offset in a type unit reached through its signature returns another entry', got=x.offset, want=o)
                if [x.offset for x in tcu.iter_DIEs()] != [x.off for x in tu.dies]:
                    raise Bad('walk of a type unit reached through its signature differs from the encoded entries')
            else:
                poison(streams, rng)
                t = d.get_DIE_from_attribute(name)
                if t.offset != a.ref.off or t.cu.cu_offset != a.ref.unit.off:
                    raise Bad('reference %s resolves to the wrong entry' % a.final, got=t.offset, want=a.ref.off)
                check_die(t, a.ref, a.ref.unit, sh)
                sh.sig(('ref', a.final, U.ver, U.fmt, a.ref.unit is not U))
            nref += 1
    return len(got), nref


def run_case(kind, idx, rng, sh):
    le = rng.random() < 0.5
    B = G.gen_info_retry(rng, le, types_section=(kind == 'types'),
                         versions=(4,) if kind == 'types' and rng.random() < 0.6 else (2, 3, 4, 5))
    for U in B.units + B.tunits:
        U.le = le
    di, streams = G.make_dwarfinfo(B.sec, le, TracedBytesIO)
    st = list(streams.values())
    n = nref = 0
    try:
        poison(st, rng)
        cus = list(di.iter_CUs())
        if [c.cu_offset for c in cus] != [U.off for U in B.units]:
            raise Bad('unit sequence', got=[c.cu_offset for c in cus], want=[U.off for U in B.units])
        order = list(range(len(cus)))
        if rng.random() < 0.5:
            rng.shuffle(order)
        for i in order:
            a, b = check_unit(cus[i], B.units[i], sh, rng, di, streams=st)
            n += a
            nref += b
        if B.tunits:
            tus = list(di.iter_TUs())
            if [t.tu_offset for t in tus] != [U.off for U in B.tunits]:
                raise Bad('type unit sequence')
            for t, U in zip(tus, B.tunits):
                a, b = check_unit(t, U, sh, rng, di, is_tu=True, streams=st)
                n += a
                nref += b
                poison(st, rng)
                if di.get_TU_by_sig8(U.signature).tu_offset != U.off:
                    raise Bad('get_TU_by_sig8')
                if di.get_DIE_by_sig8(U.signature).offset != U.type_die.off:
                    raise Bad('get_DIE_by_sig8')
            try:
                di.get_TU_by_sig8(0x1234567890abcdef)
                raise Bad('get_TU_by_sig8(absent) returned')
            except KeyError:
                pass
        # a fresh object whose unit cache is filled with holes (units fetched by header offset in some order, as lookup
        # tables do) before offsets are resolved to their units and entries
        if len(B.units) >= 2:
            di2, streams2 = G.make_dwarfinfo(B.sec, le, TracedBytesIO)
            pick = rng.sample(range(len(B.units)), rng.randint(1, len(B.units) - 1))
            for i in pick:
                poison(list(streams2.values()), rng)
                if di2.get_CU_at(B.units[i].off).cu_offset != B.units[i].off:
                    raise Bad('get_CU_at')
            probes = []
            for i, U in enumerate(B.units):
                last = U.off + U.size - 1
                probes += [(i, U.off), (i, last), (i, rng.randint(U.off, last))] + [(i, d.off) for d in rng.sample(U.dies, min(2, len(U.dies)))]
            rng.shuffle(probes)
            for i, off in probes:
                poison(list(streams2.values()), rng)
                cu = di2.get_CU_containing(off)
                if cu.cu_offset != B.units[i].off:
                    raise Bad('get_CU_containing after units were fetched by header offset (unit cache with holes)',
                              offset=off, got=cu.cu_offset, want=B.units[i].off, fetched=[B.units[j].off for j in pick])
            for i, U in enumerate(B.units):
                for d in rng.sample(U.dies, min(2, len(U.dies))):
                    got = di2.get_DIE_from_refaddr(d.off)
                    if got.offset != d.off or got.cu.cu_offset != U.off:
                        raise Bad('get_DIE_from_refaddr after units were fetched by header offset', offset=d.off)
            sh.count('unit_caches_with_holes_probed')
    except Bad as b:
        sh.violation('C04:' + b.key, le=le, **b.d)
        return
    sh.held()
    for U in B.units + B.tunits:
        sh.sig(('unit', U.ver, U.fmt, U.asz, le, U.ut, U.sibmode, U.section))
    sh.count('entries_compared', n)
    sh.count('references_followed', nref)
    sh.sample({'units': [(U.ver, U.fmt, U.asz, U.ut, U.sibmode, len(U.dies)) for U in B.units + B.tunits],
               'little_endian': le, 'info_bytes': len(B.sec['.debug_info'])})


# ---- cross-validation of the generator against llvm-dwarfdump (a third implementation)
import re
from .. import oracles
KINDS['xval'] = (48, 480, 3)
_DIE_RE = re.compile(r'^0x([0-9a-f]+):\s+(DW_TAG_\w+|NULL)\s*$', re.M)
_UNIT_RE = re.compile(r'^0x([0-9a-f]+): (?:Compile|Type) Unit: length = 0x([0-9a-f]+), format = DWARF(32|64), '
                      r'version = 0x([0-9a-f]+),(?: unit_type = (\w+),)? abbr_offset = 0x([0-9a-f]+), addr_size = 0x([0-9a-f]+)', re.M)
_base_run_case = run_case


def run_case(kind, idx, rng, sh):
    if kind != 'xval':
        return _base_run_case(kind, idx, rng, sh)
    if not oracles.have('llvm-dwarfdump'):
        sh.skip('llvm-dwarfdump missing')
        return
    le = rng.random() < 0.5
    B = G.gen_info_retry(rng, le, allow_big=False)
    img = oracles.wrap_debug(B.sec, le)
    with oracles.Scratch() as s:
        p = s.write('x.o', img)
        rc, out, err = oracles.run(['llvm-dwarfdump', '--debug-info', p])
    if rc != 0:
        sh.skip('llvm-dwarfdump failed')
        return
    want_units = [(U.off, U.ulen, U.fmt, U.ver, U.abbrev_off, U.asz) for U in B.units]
    got_units = [(int(m.group(1), 16), int(m.group(2), 16), int(m.group(3)), int(m.group(4), 16),
                  int(m.group(6), 16), int(m.group(7), 16)) for m in _UNIT_RE.finditer(out)]
    want_dies = [(d.off, d.null) for U in B.units for d in U.dies]
    got_dies = [(int(m.group(1), 16), m.group(2) == 'NULL') for m in _DIE_RE.finditer(out)]
    if 'error:' in err.lower() or 'warning:' in err.lower() or 'invalid FORM' in out:
        # the third implementation declined part of the input (LLVM 14 has no DW_FORM_addrx3,
        # for instance): no information, not a dispute
        sh.count('xval_llvm_declined')
        sh.skip('llvm-dwarfdump declined (warning/error on stderr)')
        return
    if got_units != want_units or got_dies != want_dies:
        sh.dispute('generator vs llvm-dwarfdump')
        sh.extra.setdefault('disputes', []).append({'case': idx, 'units_equal': got_units == want_units,
                                                    'n_dies': (len(got_dies), len(want_dies))})
        return
    sh.count('xval_sections_agreeing_with_llvm_dwarfdump')
    sh.count('xval_entries', len(want_dies))
    sh.held(('xval', le, tuple(sorted({(U.ver, U.fmt) for U in B.units}))))
