"""C02 - section and segment contents, string tables and address mapping are exact."""
import io
import re
import struct
import zlib

from ..gen import elfgen
from ..ref import secseg as R
from ..monitor import TracedBytesIO, poison
from .. import oracles

PROP = 'C02'
LEVEL = 'exploration'
RULE = ('(data) sections of sizes {0,1,63,64,65,127,128,4095,4096,1 MiB} at arbitrary offsets, NOBITS of '
        'any declared size, SHF_COMPRESSED with ELF32/ELF64 compression headers, arbitrary ch_addralign, '
        'zlib levels 0-9, stored and multi-block streams, empty payload, and the rejecting cases '
        '(declared size smaller/larger than the inflated size, unknown ch_type); string tables queried '
        'at every offset with strings ending 62-65/126-129 bytes from the query, non-UTF-8 bytes; segment '
        'data and interpreter path; PT_LOAD layouts (overlapping, abutting, disjoint, filesz<memsz) with '
        'address ranges inside/straddling/abutting/outside; traced-stream check that data() reads only '
        'its own extent. (secseg) images of 12 segments x 30 sections drawn from the boundary geometry '
        'grid: segment type x ALLOC/TLS flags x NOBITS x offset and address extents at each relative '
        'position incl. empty sections at both ends and empty segments; the library against my '
        'transcription of ELF_SECTION_IN_SEGMENT_STRICT, which is itself compared with `readelf -lW` on '
        'every secseg_xval image. distinct = (class, order, feature tuple) / geometry class.')
ASSUMPTIONS = [
    'ELF_SECTION_IN_SEGMENT_STRICT transcribed from binutils; pairs that readelf cannot show '
    '(TLS NOBITS sections outside PT_TLS, which it suppresses) are not judged',
    'address ranges have size >= 1; an unterminated last string is not judged',
    'string-table lookups are compared after decoding UTF-8 with replacement, as the API documents',
]
KINDS = {'data': (1500, 40000, 0), 'secseg': (400, 12000, 0), 'secseg_xval': (24, 300, 2)}
FLOOR = {'quick': 20000, 'thorough': 500000}
REACH = ['elftools.elf.sections:Section.data', 'elftools.elf.sections:Section.__init__',
         'elftools.elf.sections:StringTableSection.get_string', 'elftools.common.utils:parse_cstring_from_stream',
         'elftools.elf.elffile:ELFFile.address_offsets', 'elftools.elf.segments:Segment.section_in_segment',
         'elftools.elf.segments:Segment.data', 'elftools.elf.segments:InterpSegment.get_interp_name']
SIZES = [0, 1, 63, 64, 65, 127, 128, 4095, 4096]


class Bad(Exception):
    def __init__(self, key, **d):
        Exception.__init__(self, key)
        self.key, self.d = key, d


def compress(rng, payload):
    mode = rng.choice(['level', 'level', 'stored', 'multi'])
    if mode == 'level':
        lvl = rng.randrange(10)
        return zlib.compress(payload, lvl), 'level%d' % lvl
    if mode == 'stored':
        return zlib.compress(payload, 0), 'stored'
    c = zlib.compressobj(rng.choice([1, 6, 9]))
    out = b''
    step = max(1, len(payload) // rng.choice([2, 3, 7]))
    for i in range(0, len(payload), step):
        out += c.compress(payload[i:i + step]) + c.flush(rng.choice([zlib.Z_SYNC_FLUSH, zlib.Z_FULL_FLUSH]))
    return out + c.flush(), 'multi'


def run_data(idx, rng, sh):
    from elftools.elf.elffile import ELFFile
    from elftools.common.exceptions import ELFCompressionError
    cls = rng.choice([32, 64])
    le = rng.random() < 0.5
    E = '<' if le else '>'
    size = rng.choice(SIZES + ([1 << 20] if rng.random() < 0.03 else []))
    unit = bytes(rng.getrandbits(8) for _ in range(min(size, 4096)))
    payload = (unit * (size // max(len(unit), 1) + 1))[:size] if size else b''
    comp, cmode = compress(rng, payload)
    calign = rng.choice([0, 1, 8, 64, 2 ** 31, rng.getrandbits(cls - 1)])
    declared = len(payload)
    bad = rng.choice([None, None, None, 'smaller', 'larger', 'type'])
    ctype = 1
    if bad == 'smaller' and size > 0:
        declared = rng.choice([0, size - 1, size // 2]) if size > 1 else 0
    elif bad == 'larger':
        declared = size + rng.choice([1, 100])
    elif bad == 'type':
        ctype = rng.choice([0, 2, 3, 0x60000000, 0x7fffffff])
    else:
        bad = None
    chdr = struct.pack(E + ('IIQQ' if cls == 64 else 'III'), *((ctype, rng.getrandbits(32), declared, calign) if cls == 64 else (ctype, declared, calign)))
    strs = [bytes(rng.choice(b'abcXYZ_.') for _ in range(n)) for n in (0, 1, 62, 63, 64, 65, 126, 127, 128, 129, 200)]
    strs += ['é中'.encode('utf-8'), b'\xff\xferaw', b'a']
    if rng.random() < 0.15:
        # one very long string (a linker map, a mangled template name): the distance to the terminator is not bounded
        strs.append(bytes(rng.choice(b'abcXYZ_.') for _ in range(rng.choice([65535, 65536, 65537, 70000, 131072]))))
    rng.shuffle(strs)
    strtab = b'\0' + b'\0'.join(strs) + b'\0'
    nobits_size = rng.choice([0, 1, 4096, 100000, 1 << 22])
    interp = rng.choice([b'/lib64/ld-linux-x86-64.so.2', b'/lib/ld.so.1', 'ld-ü.so'.encode('utf-8'), b'x' * 130])
    secs = [elfgen.Sec('.plain', 1, flags=2, data=payload, align=rng.choice([1, 4, 16]), addr=0x10000),
            elfgen.Sec('.comp', 1, flags=0x800, data=chdr + comp, align=8),
            elfgen.Sec('.bss', 8, flags=3, data=b'', size=nobits_size, addr=0x50000),
            elfgen.Sec('.strs', 3, data=strtab),
            elfgen.Sec('.interp', 1, flags=2, data=interp + b'\0' + b'junk'),
            elfgen.Sec('.tail', 1, data=bytes(rng.getrandbits(8) for _ in range(rng.choice([0, 5, 70]))))]
    rng.shuffle(secs)
    # PT_LOAD layout: several segments over .plain at the same or other addresses
    segs = [elfgen.Seg(type=1, sec='.plain', vaddr=0x10000), elfgen.Seg(type=3, sec='.interp', vaddr=0x30000),
            elfgen.Seg(type=1, sec='.strs', vaddr=rng.choice([0x20000, 0x10000 + size, 0x10000 + size // 2, 0x10000])),
            elfgen.Seg(type=1, sec='.plain', vaddr=rng.choice([0x10000, 0x10001, 0x40000]), memsz=size + 100),
            elfgen.Seg(type=6, sec='.plain', vaddr=0x10000),       # a non-LOAD segment at the same address
            # non-loadable segments need no memory: the PT_NOTE of a core file has p_memsz 0
            elfgen.Seg(type=4, sec='.tail', vaddr=0, memsz=rng.choice([0, 1]), exact_memsz=True)]
    rng.shuffle(segs)
    img, info = elfgen.build(cls=cls, le=le, machine=rng.choice([62, 3, 40, 183, 8]), etype=3, sections=secs, segments=segs,
                             gap=rng.choice([0, 3, 17]), filler=rng.choice([0, 0xcc]), rng=rng,
                             order=rng.choice([('ph', 'data', 'sh'), ('sh', 'data', 'ph')]))
    st = TracedBytesIO(img)
    ef = ELFFile(st)
    byn = info['byname']
    off = {n: info['secs'][i].offset for n, i in byn.items()}
    p = ef.get_section_by_name('.plain')
    poison([st], rng)
    st.reset_extent()
    d = p.data()
    if d != payload or p.data_size != size or p.compressed or p.data_alignment != p['sh_addralign']:
        raise Bad('plain section data (size %d)' % size)
    if size and (st.lo < off['.plain'] or st.hi > off['.plain'] + size):
        raise Bad('data() read outside the section extent', lo=st.lo, hi=st.hi)
    c = ef.get_section_by_name('.comp')
    if not c.compressed or c.data_size != declared or c.data_alignment != calign:
        raise Bad('compression header fields (class %d)' % cls, got=(c.compressed, c.data_size, c.data_alignment), want=(declared, calign))
    poison([st], rng)
    st.reset_extent()
    try:
        cd = c.data()
        outcome = 'ok'
    except ELFCompressionError:
        outcome = 'rejected'
    expect_reject = bad is not None and not (bad in ('smaller', 'larger') and declared == size)
    if expect_reject and outcome != 'rejected':
        raise Bad('compressed section accepted although %s' % {'smaller': 'the declared size is smaller than the inflated size',
                                                                 'larger': 'the declared size is larger than the inflated size',
                                                                 'type': 'the compression type is unknown'}[bad], declared=declared, size=size, mode=cmode)
    if not expect_reject:
        if outcome != 'ok' or cd != payload:
            raise Bad('compressed section data (%s, size %d, class %d)' % (cmode, size, cls), outcome=outcome)
        hdr = 24 if cls == 64 else 12
        if st.lo is not None and (st.lo < off['.comp'] or st.hi > off['.comp'] + hdr + len(comp)):
            raise Bad('compressed data() read outside the section extent')
    b = ef.get_section_by_name('.bss')
    if b.data() != bytes(nobits_size) or b.data_size != nobits_size:
        raise Bad('NOBITS data')
    s = ef.get_section_by_name('.strs')
    offs = list(range(len(strtab)))
    if len(strtab) > 20000:
        # every offset of the short strings; of the long one its start, a few offsets near its start and end, every 4099th
        ends = [i for i, b in enumerate(strtab) if b == 0]
        import bisect
        offs = [o for o in offs if ends[bisect.bisect_left(ends, o)] - o <= 300 or o % 4099 == 0 or
                (o and strtab[o - 1] == 0) or (o > 1 and strtab[o - 2] == 0)]
    rng.shuffle(offs)
    for o in offs:
        w = strtab[o:strtab.index(b'\0', o)].decode('utf-8', 'replace')
        if o % 9 == 0:
            poison([st], rng)
        g = s.get_string(o)
        if g != w:
            dist = strtab.index(b'\0', o) - o
            raise Bad('string lookup (distance to the terminator %s)' % ('< 64' if dist < 64 else 'a multiple of 64' if dist % 64 == 0 and dist < 1024
                                                                          else '64..1023' if dist < 1024 else '1024..65535' if dist < 65536 else '>= 65536'),
                      offset=o, distance=dist, got=g[:20], want=w[:20])
    for i, g in enumerate(info['segs']):
        seg = ef.get_segment(i)
        poison([st], rng)
        if seg.data() != img[g.offset:g.offset + g.filesz]:
            raise Bad('segment data')
        if g.type == 3:
            if seg.get_interp_name() != interp.decode('utf-8'):
                raise Bad('interpreter path', got=seg.get_interp_name())
    # address mapping
    loads = [g for g in info['segs'] if g.type == 1]
    qs = set()
    for g in loads:
        for a in (g.vaddr - 1, g.vaddr, g.vaddr + 1, g.vaddr + g.filesz - 1, g.vaddr + g.filesz, g.vaddr + g.filesz + 1,
                  g.vaddr + g.filesz // 2, g.vaddr + g.memsz - 1):
            for n in (1, 2, max(g.filesz, 1), g.filesz + 1, 16):
                if a >= 0:
                    qs.add((a, n))
    for a, n in sorted(qs):
        w = [a - g.vaddr + g.offset for g in loads if a >= g.vaddr and a + n <= g.vaddr + g.filesz]
        got = list(ef.address_offsets(a, n))
        if got != w:
            raise Bad('address_offsets', start=hex(a), size=n, got=got, want=w,
                      loads=[(hex(g.vaddr), g.filesz, g.memsz) for g in loads])
    if list(ef.address_offsets(0x10000)) != [0x10000 - g.vaddr + g.offset for g in loads if 0x10000 >= g.vaddr and 0x10001 <= g.vaddr + g.filesz]:
        raise Bad('address_offsets default size')
    sh.held(('data', cls, le, size, cmode, bad, nobits_size > 0), n=3 + len(offs) + len(qs) + len(info['segs']))
    sh.sample({'class': cls, 'little_endian': le, 'size': size, 'compression': cmode, 'rejecting_case': bad,
               'string_offsets_queried': len(offs), 'address_queries': len(qs)}, kind='data')


SEG_TYPES = [1, 1, 2, 4, 7, 6, R.PT_GNU_RELRO, R.PT_GNU_EH_FRAME, R.PT_GNU_STACK, 3, 0x6474e553, 0x70000001, 5,
             R.PT_GNU_EH_FRAME, R.PT_GNU_SFRAME, R.PT_GNU_MBIND_LO, R.PT_GNU_MBIND_HI, R.PT_GNU_MBIND_HI + 1, 0x70000000, 0x70000003,
             0x6ffffffa, 0x6ffffffb, 0x60000000, 0x65a3dbe6]


def geometry(rng, cls):
    """A list of segment headers and section headers hitting the boundary classes."""
    segs = []
    secs = []
    for k in range(12):
        P = 0x1000 * (k + 1) + rng.choice([0, 0, 8])
        F = rng.choice([0, 1, 0x10, 0x100])
        V = rng.choice([0x400000 + 0x10000 * k, P, 0])
        Mz = rng.choice([0, F, F, F + 0x10, max(F - 1, 0)])
        segs.append(dict(p_type=rng.choice(SEG_TYPES), p_offset=P, p_filesz=F, p_vaddr=V, p_memsz=Mz))
    for j in range(30):
        g = rng.choice(segs)
        P, F, V, Mz = g['p_offset'], g['p_filesz'], g['p_vaddr'], g['p_memsz']
        size = rng.choice([0, 0, 1, F, F + 1, max(F - 1, 0), Mz, Mz + 1, 8])
        so = rng.choice([P - 1, P, P, P + 1, P + F - 1, P + F, P + F + 1, P + F // 2, P + F - size, P + F - size + 1])
        sa = rng.choice([V - 1, V, V, V + 1, V + Mz - 1, V + Mz, V + Mz + 1, V + Mz // 2, V + Mz - size, V + (so - P), V + (so - P)])
        flags = rng.choice([0, 2, 2, 2, 3, 6, 0x402, 0x400, 0x403])
        t = rng.choice([1, 1, 1, 8, 8, 7, 14])
        secs.append(dict(sh_type=t, sh_flags=flags, sh_offset=max(so, 0), sh_addr=max(sa, 0), sh_size=size))
    return segs, secs


def build_geom(rng, cls, le, segs, secs):
    S = [elfgen.Sec('s%d' % (i + 1), s['sh_type'], flags=s['sh_flags'], addr=s['sh_addr'], data=b'', size=s['sh_size'],
                    offset=s['sh_offset']) for i, s in enumerate(secs)]
    S.append(elfgen.Sec('.fill', 1, data=b'\0' * 8, offset=0x1000 * 14))
    G = [elfgen.Seg(type=g['p_type'], flags=4, offset=g['p_offset'], vaddr=g['p_vaddr'], filesz=g['p_filesz'], memsz=g['p_memsz'])
         for g in segs]
    # section header table and string table well after every extent
    # the rule is numeric: it holds whatever names the machine or the OS ABI give to the type codes
    machine = (62 if le else 21) if rng.random() < 0.5 else rng.choice([3, 40, 183, 8, 243, 2, 22, 50, 0])
    osabi = 0 if rng.random() < 0.5 else rng.choice([3, 6, 9, 12, 64, 97, 255])
    img, info = elfgen.build(cls=cls, le=le, machine=machine, osabi=osabi, etype=3, sections=S, segments=G, order=('ph', 'data', 'sh'))
    return img, info


def geom_class(sec, seg):
    P, F, V, Mz = seg['p_offset'], seg['p_filesz'], seg['p_vaddr'], seg['p_memsz']

    def pos(x, lo, ln):
        return 'before' if x < lo else 'start' if x == lo else 'inside' if x < lo + ln else 'end' if x == lo + ln else 'after'
    return (seg['p_type'] if seg['p_type'] in (1, 2, 4, 6, 7) else 'other', sec['sh_flags'] & 0x402, sec['sh_type'] == 8,
            sec['sh_size'] == 0, F == 0, Mz == 0, pos(sec['sh_offset'], P, F), pos(sec['sh_offset'] + sec['sh_size'], P, F),
            pos(sec['sh_addr'], V, Mz), pos(sec['sh_addr'] + sec['sh_size'], V, Mz))


def run_secseg(idx, rng, sh, xval=False):
    from elftools.elf.elffile import ELFFile
    cls = rng.choice([32, 64])
    le = rng.random() < 0.5
    segs, secs = geometry(rng, cls)
    img, info = build_geom(rng, cls, le, segs, secs)
    readelf = None
    if xval:
        if not oracles.have('readelf'):
            sh.skip('readelf missing')
            return
        with oracles.Scratch() as s:
            p = s.write('g.elf', img)
            rc, out, err = oracles.run(['readelf', '-lW', p])
        m = re.search(r'Section to Segment mapping:\s*\n\s*Segment Sections\.\.\.\s*\n(.*)', out, re.S)
        if rc != 0 or not m:
            sh.skip('readelf declined')
            return
        readelf = {}
        for line in m.group(1).splitlines():
            parts = line.split()
            if parts and parts[0].isdigit():
                readelf[int(parts[0])] = set(parts[1:])
    ef = ELFFile(io.BytesIO(img))
    S = [ef.get_section(i + 1) for i in range(len(secs))]
    n = 0
    for gi, g in enumerate(segs):
        seg = ef.get_segment(gi)
        for si, s in enumerate(secs):
            if R.tbss_special(s, g):
                sh.count('pairs_tbss_special_not_judged')
                continue
            model = R.in_segment_strict(s, g, cls)
            if readelf is not None:
                shown = ('s%d' % (si + 1)) in readelf.get(gi, set())
                if shown != model:
                    sh.dispute('secseg model vs readelf')
                    sh.extra.setdefault('disputes', []).append({'sec': s, 'seg': g, 'model': model, 'readelf': shown})
                    continue
                sh.count('pairs_model_agrees_with_readelf')
            got = seg.section_in_segment(S[si])
            if bool(got) != model:
                raise Bad('section_in_segment: library %s, rule %s (segment type %#x, %s section at the %s of the extent)' % (
                    bool(got), model, g['p_type'], 'empty' if s['sh_size'] == 0 else 'non-empty',
                    'start' if s['sh_offset'] == g['p_offset'] else 'end' if s['sh_offset'] == g['p_offset'] + g['p_filesz'] else 'middle/outside'),
                    sec=s, seg=g, cls=cls)
            n += 1
            sh.sig(('geom',) + geom_class(s, g))
    sh.held(n=n)
    sh.sample({'class': cls, 'pairs': n, 'first_segment': segs[0], 'first_section': secs[0]}, kind='secseg')


def run_case(kind, idx, rng, sh):
    try:
        if kind == 'data':
            run_data(idx, rng, sh)
        else:
            run_secseg(idx, rng, sh, xval=(kind == 'secseg_xval'))
    except Bad as b:
        sh.violation('C02:' + b.key, **b.d)
