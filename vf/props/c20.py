"""C20 - ARM/RISC-V build attributes and ARM unwind tables are decoded exactly."""
import itertools
import struct

from ..gen import elfgen, attrgen
from ..ref import ehabi as R
from ..monitor import TracedBytesIO, PoisonedIter, poison

PROP = 'C20'
LEVEL = 'exploration'
RULE = ('(a) generated .ARM.attributes/.riscv.attributes sections (1-4 vendor subsections x 1-4 '
        'file/section/symbol sub-subsections x 0-40 attributes over the tag tables: uleb of 1-5 '
        'bytes incl. padded, NTBS incl. empty/non-ASCII, number lists, compatibility pairs, nested '
        'also_compatible_with of both payload kinds; both byte orders) in real images, read under '
        'four consumption patterns (fully nested, outer level only / counts, partial inner '
        'consumption, lists after the fact) with the shared stream repositioned at every yield; '
        '(b) generated .ARM.exidx/.ARM.extab pairs in non-relocatable ARM images: prel31 '
        'displacements {small,large} x {positive,negative} incl. bit 26 != bit 30, the nine entry '
        'shapes, 0-8 extra words; (c) byte-code: all 65536 (opcode, operand) pairs and random '
        'sequences of length 0-35 with multi-byte uleb operands, against a reference disassembler. '
        'distinct = (workload, arch/byte order, shape features).')
ASSUMPTIONS = [
    'tag kinds by number transcribed from the ARM ABI addenda / RISC-V psABI; only tags of the '
    'library tables are generated (unknown tags have no defined decoding)',
    'register-list text follows llvm-readobj (32-bit masks), the reference the decoder cites',
    'function and table offsets are compared in the file-offset space the API uses',
]
KINDS = {'attrs': (2500, 60000, 0), 'exidx': (1200, 30000, 0), 'bc_exh': (256, 256, 8), 'bc_rand': (100, 2000, 0)}
FLOOR = {'quick': 60000, 'thorough': 100000}
REACH = ['elftools.elf.sections:AttributesSection._make_subsections',
         'elftools.elf.sections:AttributesSubsection._make_subsubsections',
         'elftools.elf.sections:AttributesSubsubsection._make_attributes',
         'elftools.elf.sections:ARMAttribute.__init__', 'elftools.elf.sections:RISCVAttribute.__init__',
         'elftools.ehabi.ehabiinfo:EHABIInfo.get_entry', 'elftools.ehabi.ehabiinfo:arm_expand_prel31',
         'elftools.ehabi.decoder:EHABIBytecodeDecoder._decode',
         'elftools.ehabi.decoder:EHABIBytecodeDecoder._decode_10110010_uleb128']


def tagname(arch, num):
    import elftools.elf.enums as E
    tab = E.ENUM_ATTR_TAG_ARM if arch == 'arm' else E.ENUM_ATTR_TAG_RISCV
    for k, v in tab.items():
        if v == num:
            return k
    return num


def dig_attr(a):
    v = a.value
    if hasattr(v, 'tag') and hasattr(v, 'value'):
        v = dig_attr(v)
    return (a.tag, v, a.extra)


def want_attr(arch, e):
    t, v, x = e
    if isinstance(v, tuple):
        v = want_attr(arch, v)
    return (tagname(arch, t), v, x)


def run_attrs(idx, rng, sh):
    from elftools.elf.elffile import ELFFile
    from elftools.elf.sections import ARMAttributesSection, RISCVAttributesSection
    arch = rng.choice(['arm', 'riscv'])
    le = rng.random() < 0.6
    cls = 32 if arch == 'arm' else rng.choice([32, 64])
    body, tree = attrgen.gen_section(rng, arch, le)
    name = '.ARM.attributes' if arch == 'arm' else '.riscv.attributes'
    secs = [elfgen.Sec('.text', 1, data=b'\0' * rng.randrange(9)),
            elfgen.Sec(name, 0x70000003, data=body),
            elfgen.Sec('.tail', 1, data=bytes(rng.getrandbits(8) for _ in range(rng.choice([0, 7, 30]))))]
    img, info = elfgen.build(cls=cls, le=le, machine=40 if arch == 'arm' else 243, etype=rng.choice([1, 2, 3]),
                             sections=secs, filler=rng.choice([0, 0xff]), rng=rng)
    st = TracedBytesIO(img)
    ef = ELFFile(st)
    sec = ef.get_section_by_name(name)
    if not isinstance(sec, ARMAttributesSection if arch == 'arm' else RISCVAttributesSection):
        sh.violation('C20:attribute section class %s' % type(sec).__name__)
        return
    want = [(v, ln, [(tagname(arch, sc), sz, ex, [want_attr(arch, a) for a in attrs])
                     for sc, sz, ex, attrs in subs]) for v, ln, subs in tree]
    pattern = rng.choice(['nested', 'outer', 'partial', 'lists', 'filter'])
    shape = (len(tree) > 1, max(len(s[2]) for s in tree) > 1)

    def P(it):
        return PoisonedIter(it, [st], rng, sh.counters)

    def dig_ss(ss, attrs):
        return (ss.header.tag, ss.header.value, ss.header.extra, attrs)
    poison([st], rng)
    if pattern == 'nested':
        got = [(s['vendor_name'], s['length'],
                [dig_ss(ss, [dig_attr(a) for a in P(ss.iter_attributes())]) for ss in P(s.iter_subsubsections())])
               for s in P(sec.iter_subsections())]
        ok = got == want
    elif pattern == 'outer':
        names = [(s['vendor_name'], s['length']) for s in P(sec.iter_subsections())]
        poison([st], rng)
        n = sec.num_subsections
        ok = names == [(w[0], w[1]) for w in want] and n == len(want)
        got = (names, n)
        if ok:
            subs = sec.subsections
            k = rng.randrange(len(subs))
            poison([st], rng)
            nss = subs[k].num_subsubsections
            sss = subs[k].subsubsections
            j = rng.randrange(len(sss))
            poison([st], rng)
            na = sss[j].num_attributes
            ok = nss == len(want[k][2]) and na == len(want[k][2][j][3]) + 1
            got = (nss, na)
    elif pattern == 'partial':
        got = []
        for s in P(sec.iter_subsections()):
            gss = []
            for ss in P(s.iter_subsubsections()):
                take = rng.choice([0, 1, 2])
                gss.append(dig_ss(ss, [dig_attr(a) for a in itertools.islice(P(ss.iter_attributes()), take)]))
                if rng.random() < 0.3:
                    break
            got.append((s['vendor_name'], s['length'], gss))
        ok = len(got) == len(want) and all(
            g[:2] == w[:2] and all(gs[:3] == ws[:3] and gs[3] == ws[3][:len(gs[3])]
                                   for gs, ws in zip(g[2], w[2])) for g, w in zip(got, want))
    elif pattern == 'lists':
        subs = sec.subsections
        poison([st], rng)
        got = []
        for s in reversed(subs):
            sss = s.subsubsections
            poison([st], rng)
            got.append((s['vendor_name'], s['length'],
                        [dig_ss(ss, [dig_attr(a) for a in ss.attributes[1:]]) for ss in reversed(sss)][::-1]))
        got = got[::-1]
        ok = got == want
    else:
        vend = rng.choice(want)[0]
        got = [(s['vendor_name'], s['length']) for s in P(sec.iter_subsections(vendor_name=vend))]
        ok = got == [(w[0], w[1]) for w in want if w[0] == vend]
        if ok:
            s = next(iter(sec.iter_subsections(vendor_name=vend)))
            wsub = [w for w in want if w[0] == vend][0]
            scope = rng.choice(['TAG_FILE', 'TAG_SECTION', 'TAG_SYMBOL'])
            g2 = [ss.header.tag for ss in P(s.iter_subsubsections(scope=scope))]
            ok = g2 == [x[0] for x in wsub[2] if x[0] == scope]
            got = g2
    if not ok:
        sh.violation('C20:attributes differ (%s, pattern %s, several subsections=%s, several subsubsections=%s)' % (
            arch, pattern, shape[0], shape[1]), got=got if not isinstance(got, list) else got[:2], want=want[:2], le=le)
        return
    # the same objects once more, after whatever the pattern did to them (walks given up half-way included): a walk of a
    # subsection object starts over, and the counts and lists still tell the whole encoded tree
    poison([st], rng)
    subs2 = list(sec.iter_subsections())
    for k, s in enumerate(subs2):
        if rng.random() < 0.5:
            first = next(iter(s.iter_subsubsections()), None)          # give up after the first one ...
            if rng.random() < 0.5 and first is not None:
                next(iter(first.iter_attributes()), None)
        poison([st], rng)
        again = [dig_ss(ss, [dig_attr(a) for a in P(ss.iter_attributes())]) for ss in P(s.iter_subsubsections())]   # ... and walk it all
        if again != want[k][2] or s.num_subsubsections != len(want[k][2]) or len(s.subsubsections) != len(want[k][2]):
            sh.violation('C20:a second walk of one subsection object differs from the encoded sub-subsections (%s, after pattern %s)' % (arch, pattern),
                         got=again[:2], want=want[k][2][:2], num=s.num_subsubsections)
            return
        for j, ss in enumerate(s.subsubsections):
            if ss.num_attributes != len(want[k][2][j][3]) + 1 or [dig_attr(a) for a in ss.attributes[1:]] != want[k][2][j][3]:
                sh.violation('C20:attribute list of a sub-subsection object differs on the second visit (%s)' % arch, k=k, j=j)
                return
    if sec.num_subsections != len(want) or [(x['vendor_name'], x['length']) for x in sec.subsections] != [(w[0], w[1]) for w in want]:
        sh.violation('C20:subsection list differs on the second visit (%s, after pattern %s)' % (arch, pattern))
        return
    sh.held(('attrs', arch, le, pattern, shape, min(sum(len(x[3]) for s in tree for x in s[2]), 5)))
    sh.sample({'arch': arch, 'pattern': pattern, 'tree': want[:1]}, kind='attrs')


def prel31(target, place):
    return (target - place) & 0x7fffffff


KINDS_X = ['cantunwind', 'inline', 'm0', 'm1', 'm2', 'generic', 'corrupt_hi', 'corrupt_inline', 'corrupt_table']


def run_exidx(idx, rng, sh):
    from elftools.elf.elffile import ELFFile
    le = rng.random() < 0.6
    E = '<' if le else '>'
    n = rng.randint(1, 10)
    filler = rng.choice([0x100, 0x4000, 0x100000])
    text = bytes(filler)
    kinds = [rng.choice(KINDS_X) for _ in range(n)]

    def mk(exidx, extab):
        return elfgen.build(cls=32, le=le, machine=40, etype=rng_et, sections=[
            elfgen.Sec('.text', 1, flags=6, data=text, align=4),
            elfgen.Sec('.ARM.extab', 1, flags=2, data=bytes(extab), align=4),
            elfgen.Sec('.ARM.exidx', 0x70000001, flags=0x82, data=bytes(exidx), link='.text', align=4)])
    rng_et = rng.choice([2, 3])
    maxw = 12 * n
    img, info = mk(bytes(8 * n), bytes(4 * maxw))
    text_off = info['secs'][info['byname']['.text']].offset
    extab_off = info['secs'][info['byname']['.ARM.extab']].offset
    exidx_off = info['secs'][info['byname']['.ARM.exidx']].offset
    extab = bytearray(4 * maxw)
    exidx = bytearray(8 * n)
    pos = 0
    exp = []
    for i, k in enumerate(kinds):
        place = exidx_off + 8 * i
        disp_class = rng.choice(['text', 'pos-small', 'pos-large', 'neg-large', 'bit26'])
        if disp_class == 'text':
            tgt = text_off + rng.randrange(0, filler, 2)
        elif disp_class == 'pos-small':
            tgt = place + rng.choice([0, 8, 0x1000])
        elif disp_class == 'pos-large':
            tgt = place + rng.choice([0x04000000, 0x3ffffff0, 0x20000000, 0x07fffffc])
        elif disp_class == 'neg-large':
            tgt = place - rng.choice([0x04000004, 0x20000000, 0x3ffffffc, 0x40000000])
        else:
            # displacement whose bit 26 differs from its sign bit (bit 30)
            tgt = place + rng.choice([0x04000000 | rng.randrange(0, 0x3ffffff, 4),
                                      -(0x04000000 | rng.randrange(4, 0x3ffffff, 4)) - 0x04000000 * 0])
        d = tgt - place
        if not -2 ** 30 <= d < 2 ** 30:
            tgt = text_off
            d = tgt - place
        fn = tgt & 0xffffffffffffffff
        w0 = prel31(tgt, place)
        sig = (k, disp_class if tgt != text_off else 'text', d < 0, (w0 >> 26) & 1 != (w0 >> 30) & 1)
        if k == 'corrupt_hi':
            w0 |= 0x80000000
            w1 = 1
            e = ('corrupt',)
        elif k == 'cantunwind':
            w1 = 1
            e = ('cantunwind', fn)
        elif k == 'inline':
            ops = [rng.getrandbits(8) for _ in range(3)]
            w1 = 0x80000000 | (ops[0] << 16) | (ops[1] << 8) | ops[2]
            e = ('entry', fn, 0, ops, None)
        elif k == 'corrupt_inline':
            w1 = 0x80000000 | (rng.randint(1, 0x7f) << 24) | rng.getrandbits(24)
            e = ('corrupt',)
        else:
            tpos = extab_off + pos
            w1 = prel31(tpos, place + 4)
            if k == 'm0':
                ops = [rng.getrandbits(8) for _ in range(3)]
                words = [0x80000000 | (ops[0] << 16) | (ops[1] << 8) | ops[2]]
                e = ('entry', fn, 0, ops, None)
            elif k in ('m1', 'm2'):
                pi = 1 if k == 'm1' else 2
                more = rng.choice([0, 1, 2, 3, 8])
                ops = [rng.getrandbits(8) for _ in range(2 + 4 * more)]
                words = [0x80000000 | (pi << 24) | (more << 16) | (ops[0] << 8) | ops[1]] + \
                    [(ops[2 + 4 * j] << 24) | (ops[3 + 4 * j] << 16) | (ops[4 + 4 * j] << 8) | ops[5 + 4 * j]
                     for j in range(more)]
                e = ('entry', fn, pi, ops, tpos)
                sig = sig + (more,)
            elif k == 'generic':
                pers = rng.choice([text_off + 4, tpos + 0x100, tpos - 0x04000010, tpos + 0x04000100])
                words = [prel31(pers, tpos)]
                e = ('generic', fn, pers & 0xffffffffffffffff)
            else:
                words = [0x80000000 | (rng.choice([3, 15, 0x10, 0x7f]) << 24) | rng.getrandbits(24)]
                e = ('corrupt',)
            for w in words:
                extab[pos:pos + 4] = struct.pack(E + 'I', w)
                pos += 4
        exidx[8 * i:8 * i + 8] = struct.pack(E + 'II', w0, w1)
        exp.append((e, sig))
    img, info2 = mk(exidx, extab)
    st = TracedBytesIO(img)
    ef = ELFFile(st)
    infos = ef.get_ehabi_infos()
    if not infos or len(infos) != 1 or infos[0].num_entry() != n:
        sh.violation('C20:exidx table count', n=n)
        return
    order = list(range(n))
    rng.shuffle(order)
    for i in order:
        e, sig = exp[i]
        poison([st], rng)
        g = infos[0].get_entry(i)
        if e[0] == 'corrupt':
            ok = g.corrupt is True
            got = ('corrupt', g.corrupt)
        elif e[0] == 'cantunwind':
            got = ('cantunwind', g.function_offset, g.unwindable, g.corrupt, g.bytecode_array, g.personality)
            ok = got == ('cantunwind', e[1], False, False, None, None)
        elif e[0] == 'generic':
            got = ('generic', g.function_offset, g.personality, g.bytecode_array, g.unwindable, g.corrupt)
            ok = got == ('generic', e[1], e[2], None, True, False)
        else:
            got = ('entry', g.function_offset, g.personality, g.bytecode_array, g.eh_table_offset, g.unwindable, g.corrupt)
            ok = got == e + (True, False)
            if ok:
                try:
                    ref = R.disasm(e[3])
                except R.Truncated:
                    ref = None
                if ref is not None:
                    m = g.mnmemonic_array()
                    gm = [(list(x.bytecode), x.mnemonic) for x in m]
                    if gm != ref:
                        sh.violation('C20:entry disassembly differs', bytecode=e[3], got=gm[:4], want=ref[:4])
                        return
        if not ok:
            sh.violation('C20:exidx %s entry wrong (%s)' % (e[0], 'bit26!=bit30' if sig[3] else 'plain'),
                         got=got, want=e, le=le, index=i)
            return
        sh.held(('exidx', le) + sig)
    sh.sample({'entries': [(k, hex(e[0][1]) if len(e[0]) > 1 else None) for k, e in zip(kinds, exp)][:5]}, kind='exidx')


def check_bc(sh, bc, sig):
    from elftools.ehabi.decoder import EHABIBytecodeDecoder
    try:
        ref = R.disasm(bc)
    except R.Truncated:
        sh.count('bytecode_truncated_not_judged')
        return True
    got = [(list(m.bytecode), m.mnemonic) for m in EHABIBytecodeDecoder(list(bc)).mnemonic_array]
    if got != ref:
        k = next((i for i, (g, w) in enumerate(zip(got, ref)) if g != w), min(len(got), len(ref)))
        op = ref[k][0][0] if k < len(ref) else None
        sh.violation('C20:disassembly differs at opcode %s' % (hex(op) if op is not None else 'end'),
                     bytecode=list(bc), got=got[k:k + 2], want=ref[k:k + 2])
        return False
    sh.held(sig)
    return True


def run_case(kind, idx, rng, sh):
    if kind == 'attrs':
        run_attrs(idx, rng, sh)
    elif kind == 'exidx':
        run_exidx(idx, rng, sh)
    elif kind == 'bc_exh':
        for o in range(256):
            if not check_bc(sh, [idx, o, 0xb0], ('bc', idx, o >> 4 if idx in (0xb1, 0xb3, 0xc6, 0xc7, 0xc8, 0xc9) else 0)):
                break
        # multi-byte uleb operands of 0xb2 in every length 1..5, followed by more code
        if idx == 0xb2:
            from ..gen.leb import uleb
            for v in [0, 1, 127, 128, 16383, 16384, 2 ** 21 - 1, 2 ** 21, 2 ** 28 - 1, 2 ** 28, 2 ** 32 - 1, 2 ** 35]:
                for pad in (0, 1):
                    for tail in ([0xb0], [0x00, 0xb0], [0x80, 0x08, 0xb0], [0xb2, 0x81, 0x01, 0xb0]):
                        check_bc(sh, [0xb2] + list(uleb(v, pad)) + tail, ('b2', v.bit_length() // 7, pad, len(tail)))
            sh.extra['bytecode_pairs_exhaustive'] = True
        if idx == 0:
            sh.sample({'bytecode': [idx, 0, 0xb0], 'reference': R.disasm([idx, 0, 0xb0])}, kind='bc_exh')
    else:
        from ..gen.leb import uleb
        for k in range(200):
            n = rng.choice([0, 1, 2, 3, 5, 8, 12, 35])
            bc = []
            while len(bc) < n:
                c = rng.choice([rng.getrandbits(8), rng.getrandbits(8), 0xb2, 0xb1, 0x80, 0xc6, 0xc9, 0xb0, 0xc7, 0xb3])
                bc.append(c)
                if c == 0xb2:
                    bc += list(uleb(rng.choice([0, 5, 127, 128, 300, 2 ** 14, 2 ** 21, 2 ** 28]), rng.choice([0, 0, 1])))
            bc += [0xb0, 0xb0]
            check_bc(sh, bc, ('bcr', min(n, 12), 0xb2 in bc))
        sh.sample({'bytecode': bc}, kind='bc_rand')


def finish(m, tier, seed):
    return {'exhaustive_subspaces': ['all 65536 (opcode byte, operand byte) pairs of the EHABI byte-code']}
CASE_TIMEOUT = 30
