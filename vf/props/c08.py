"""C08 - relocation tables decode exactly; debug-section relocation follows the psABI."""
import io
import re
import struct

from ..gen import elfgen
from ..monitor import TracedBytesIO, PoisonedIter, poison
from .. import oracles

PROP = 'C08'
LEVEL = 'exploration'
RULE = ('(tables) REL/RELA sections of 0-500 entries in both classes and orders with arbitrary r_info '
        'splits (ELF32 8/24, ELF64 32/32, MIPS64 sym/ssym/type3/type2/type) and negative addends, and '
        'the dynamic REL/RELA/JMPREL tables reached through PT_LOAD mapping; (relr) random RELR '
        'streams of anchors and bitmaps (no bits, all ones, consecutive bitmaps) against a reference '
        'expander; (apply) ET_REL images for every supported (machine, type) pair of my own recipe '
        'table (386, x86-64, ARM ABS32, AArch64, MIPS REL/RELA 32/64, PPC64, S390x, LoongArch) in the '
        'byte orders the ABI allows: random section bytes, symbol values, addends, in-place values, '
        'field offsets 0/unaligned/last, several relocations on one field in sequence; the whole '
        'relocated stream is compared with the psABI formulas, and relocate_dwarf_sections=False must '
        'leave the bytes alone; (reject) unsupported types, wrong REL/RELA flavour, symbol index == '
        'and > count must raise ELFRelocationError. distinct = (machine, type, class, order, flavour, '
        'value classes).')
ASSUMPTIONS = [
    'psABI formulas transcribed per type (S+A, S+A-P, in-place addend for REL, += / -=), results '
    'truncated modulo 2^width; P is the field offset inside the section (sections sit at address 0)',
    'R_ARM_CALL and the BPF recipes are outside the property\'s quantifier and are not generated',
    'MIPS64 R_MIPS_64 relocations carry no second/third type (composed relocations are rejected by design)',
]
KINDS = {'tables': (600, 15000, 0), 'relr': (800, 20000, 0), 'apply': (2500, 60000, 0), 'reject': (500, 12000, 0),
         'xval': (40, 400, 4)}
FLOOR = {'quick': 4000, 'thorough': 100000}
REACH = ['elftools.elf.relocation:RelocationHandler._do_apply_relocation',
         'elftools.elf.relocation:RelocationHandler.apply_section_relocations',
         'elftools.elf.relocation:RelrRelocationTable.iter_relocations', 'elftools.elf.relocation:RelocationTable.get_relocation',
         'elftools.elf.dynamic:Dynamic.get_relocation_tables', 'elftools.elf.structs:ELFStructs._create_rel']
# (name, e_machine, [(class, little_endian)], rela?, {type: (width, formula)})
M = [
    ('386', 3, [(32, True)], False, {0: (4, 'none'), 1: (4, 'S+A'), 2: (4, 'S+A-P')}),
    ('X86_64', 62, [(64, True)], True, {0: (8, 'none'), 1: (8, 'S+A'), 2: (4, 'S+A-P'), 10: (4, 'S+A'), 11: (4, 'S+A')}),
    ('ARM', 40, [(32, True), (32, False)], False, {2: (4, 'S+A')}),
    ('AARCH64', 183, [(64, True), (64, False)], True, {257: (8, 'S+A'), 258: (4, 'S+A'), 261: (4, 'S+A-P')}),
    ('MIPS-REL', 8, [(32, True), (32, False)], False, {0: (4, 'none'), 2: (4, 'S+A')}),
    ('MIPS-RELA', 8, [(64, True), (64, False), (32, False)], True, {0: (4, 'none'), 2: (4, 'S+A'), 18: (8, 'S+A')}),
    ('PPC64', 21, [(64, True), (64, False)], True, {1: (4, 'S+A'), 26: (4, 'S+A-P'), 38: (8, 'S+A')}),
    ('S390', 22, [(64, False)], True, {4: (4, 'S+A'), 5: (4, 'S+A-P'), 22: (8, 'S+A')}),
    ('LOONGARCH', 258, [(64, True)], True, {0: (4, 'none'), 1: (4, 'S+A'), 2: (8, 'S+A'), 47: (1, '+='), 48: (2, '+='), 50: (4, '+='),
                                           51: (8, '+='), 52: (1, '-='), 53: (2, '-='), 55: (4, '-='), 56: (8, '-='),
                                           99: (4, 'S+A-P'), 109: (8, 'S+A-P')}),
]


class Bad(Exception):
    def __init__(self, key, **d):
        Exception.__init__(self, key)
        self.key, self.d = key, d


def pack_rel(E, cls, mips64, off, sym, typ, add, rela, ssym=0, t2=0, t3=0):
    if cls == 64:
        info = struct.pack(E + 'IBBBB', sym, ssym, t3, t2, typ) if mips64 else struct.pack(E + 'Q', (sym << 32) | typ)
        return struct.pack(E + 'Q', off) + info + (struct.pack(E + 'q', add) if rela else b'')
    return struct.pack(E + 'II', off, (sym << 8) | typ) + (struct.pack(E + 'i', add) if rela else b'')


def build_rel_image(rng, machine, cls, le, rela, relocs, syms, secdata, target='.debug_info', etype=1, extra=()):
    E = '<' if le else '>'
    is64 = cls == 64
    mips64 = machine == 8 and is64
    rb = b''.join(pack_rel(E, cls, mips64, *r, rela) if len(r) == 4 else pack_rel(E, cls, mips64, r[0], r[1], r[2], r[3], rela, *r[4:]) for r in relocs)
    symb = b''.join(elfgen.sym_pack(E, is64, 1 if i else 0, v, 0, 0x10 if i else 0, 0, 1 if i else 0) for i, v in enumerate(syms))
    relsz = ((24 if rela else 16) if is64 else (12 if rela else 8))
    secs = [elfgen.Sec(target, 1, data=secdata),
            elfgen.Sec(('.rela' if rela else '.rel') + target, 4 if rela else 9, flags=0x40, data=rb, link='.symtab', info=target,
                       entsize=relsz, align=8),
            elfgen.Sec('.symtab', 2, data=symb, link='.strtab', info=1, entsize=24 if is64 else 16, align=8),
            elfgen.Sec('.strtab', 3, data=b'\0sym\0')] + list(extra)
    return elfgen.build(cls=cls, le=le, machine=machine, etype=etype, sections=secs)


def model_apply(secdata, relocs, syms, le, rela, table):
    b = bytearray(secdata)
    order = 'little' if le else 'big'
    for r in relocs:
        off, sym, typ, add = r[:4]
        w, f = table[typ]
        inplace = int.from_bytes(b[off:off + w], order)
        S = syms[sym]
        A = add if rela else inplace
        if f == 'S+A':
            v = S + A
        elif f == 'S+A-P':
            v = S + A - off
        elif f == 'none':
            v = inplace
        elif f == '+=':
            v = inplace + S + add
        else:
            v = inplace - S - add
        b[off:off + w] = (v % (1 << (8 * w))).to_bytes(w, order)
    return bytes(b)


def gen_apply(rng):
    name, mach, variants, rela, table = rng.choice(M)
    cls, le = rng.choice(variants)
    n = rng.choice([1, 1, 2, 4, 8])
    size = rng.choice([16, 64, 200])
    zero = rela and rng.random() < 0.4
    secdata = bytes(size) if zero else bytes(rng.getrandbits(8) for _ in range(size))
    nsym = rng.choice([2, 3, 5])
    syms = [0] + [rng.choice([0, 1, 0x1000, 0x7fffffff, 0x80000000, 0xfffffff0, (1 << cls) - 1, rng.getrandbits(cls)]) for _ in range(nsym - 1)]
    relocs = []
    for _ in range(n):
        typ = rng.choice(list(table))
        w = table[typ][0]
        off = rng.choice([0, size - w, rng.randrange(0, size - w + 1), rng.randrange(0, size - w + 1) | 1])
        off = min(off, size - w)
        if relocs and rng.random() < 0.3:
            off = min(relocs[-1][0], size - w)       # several relocations hitting one field in sequence
        add = rng.choice([0, 1, -1, -0x80000000, 0x7fffffff, 12345, -(1 << (cls - 1)) if cls == 64 and rela else 7])
        if cls == 32:
            add = max(-2 ** 31, min(2 ** 31 - 1, add))
        relocs.append((off, rng.randrange(nsym), typ, add))
    return name, mach, cls, le, rela, table, relocs, syms, secdata, zero


def run_apply(idx, rng, sh):
    from elftools.elf.elffile import ELFFile
    name, mach, cls, le, rela, table, relocs, syms, secdata, zero = gen_apply(rng)
    extra = []
    comp = None
    if rng.random() < 0.35:
        # companions as in DWARF 5 objects: .debug_str has no relocations of its own, .debug_str_offsets (whose name
        # extends it) has; every relocation section applies to the section it names, and to no other
        E = '<' if le else '>'
        sdata = bytes(rng.getrandbits(8) for _ in range(40))
        odata = bytes(32) if zero else bytes(rng.getrandbits(8) for _ in range(32))
        orel = []
        for _ in range(rng.choice([1, 2])):
            typ = rng.choice(list(table))
            orel.append((rng.randrange(0, 32 - table[typ][0] + 1), rng.randrange(len(syms)), typ, rng.choice([0, 4, -4]) if rela else 0))
        rb = b''.join(pack_rel(E, cls, mach == 8 and cls == 64, *r, rela) for r in orel)
        relsz = ((24 if rela else 16) if cls == 64 else (12 if rela else 8))
        extra = [elfgen.Sec('.debug_str', 1, data=sdata), elfgen.Sec('.debug_str_offsets', 1, data=odata),
                 elfgen.Sec(('.rela' if rela else '.rel') + '.debug_str_offsets', 4 if rela else 9, flags=0x40, data=rb, link='.symtab',
                            info='.debug_str_offsets', entsize=relsz, align=8)]
        if rng.random() < 0.5:
            extra.reverse()
        comp = (sdata, model_apply(odata, orel, syms, le, rela, table))
    groups = None
    if rng.random() < 0.25:
        # same-named sections, one per section group (what -fdebug-types-section writes): each has a relocation section of
        # its own, told apart by sh_info alone; sizes differ so that foreign offsets would not even fit
        E = '<' if le else '>'
        relsz = ((24 if rela else 16) if cls == 64 else (12 if rela else 8))
        groups = []
        gsecs = []
        for gi in range(rng.choice([2, 3])):
            gsize = rng.choice([12, 40, 90])
            gdata = bytes(gsize) if zero else bytes(rng.getrandbits(8) for _ in range(gsize))
            grel = []
            for _ in range(rng.choice([1, 2, 3])):
                typ = rng.choice(list(table))
                w = table[typ][0]
                grel.append((rng.choice([gsize - w, rng.randrange(0, gsize - w + 1)]), rng.randrange(len(syms)), typ, rng.choice([0, 4, -4]) if rela else 0))
            tsec = elfgen.Sec('.debug_types', 1, flags=0x200, data=gdata)
            rsec = elfgen.Sec(('.rela' if rela else '.rel') + '.debug_types', 4 if rela else 9, flags=0x240,
                              data=b''.join(pack_rel(E, cls, mach == 8 and cls == 64, *r, rela) for r in grel), link='.symtab', info=tsec,
                              entsize=relsz, align=8)
            gsecs += [tsec, rsec] if rng.random() < 0.7 else [rsec, tsec]
            groups.append(model_apply(gdata, grel, syms, le, rela, table))
        extra = list(extra) + gsecs
    # an executable or shared object may keep its relocation sections (ld --emit-relocs): the linker has applied them, so the
    # debug sections of anything but a relocatable object are taken as they are
    etype = rng.choice([1, 1, 1, 3, 2])
    img, info = build_rel_image(rng, mach, cls, le, rela, relocs, syms, secdata, etype=etype, extra=extra)
    want = model_apply(secdata, relocs, syms, le, rela, table) if etype == 1 else secdata
    ef = ELFFile(io.BytesIO(img))
    di = ef.get_dwarf_info(relocate_dwarf_sections=True)
    if etype != 1:
        if comp and (di.debug_str_sec.stream.getvalue(), di.debug_str_offsets_sec.stream.getvalue()) != (sdata, odata):
            raise Bad('companion sections of a linked file were changed by its kept relocation sections')
        if di.debug_info_sec.stream.getvalue() != secdata:
            raise Bad('debug section of a linked file (e_type %d) was relocated again from a kept relocation section' % etype, cls=cls, le=le)
        sh.held()
        sh.count('linked_files_with_kept_relocations')
        sh.sig(('linked', name, etype, cls, le, rela))
        return
    if groups:
        got_t = di.debug_types_sec.stream.getvalue()
        if got_t not in groups:
            raise Bad('one of several same-named sections was not relocated by the relocation section whose sh_info designates it (%s)' % name,
                      cls=cls, le=le)
        sh.count('same_named_section_groups')
    if comp:
        if di.debug_str_sec.stream.getvalue() != comp[0]:
            raise Bad('a section without relocations of its own was changed (.debug_str beside .rel[a].debug_str_offsets)', cls=cls, le=le)
        if di.debug_str_offsets_sec.stream.getvalue() != comp[1]:
            raise Bad('companion section .debug_str_offsets not relocated as its own relocation section says (%s)' % name, cls=cls, le=le)
        sh.count('companion_section_pairs')
    got = di.debug_info_sec.stream.getvalue()
    if got != want:
        k = next((i for i, (a, b) in enumerate(zip(got, want)) if a != b), min(len(got), len(want)) - 1)
        hit = [r for r in relocs if r[0] <= k < r[0] + table[r[2]][0]]
        t = hit[-1][2] if hit else None
        raise Bad('relocated bytes differ (%s type %s %s, %s in-place)' % (name, t, table[t][1] if t is not None else 'untouched byte',
                                                                          'zero' if zero else 'random'),
                  cls=cls, le=le, relocs=relocs, syms=syms, at=k, got=got[k:k + 8], want=want[k:k + 8])
    raw = ELFFile(io.BytesIO(img)).get_dwarf_info(relocate_dwarf_sections=False).debug_info_sec.stream.getvalue()
    if raw != secdata:
        raise Bad('relocate_dwarf_sections=False changed the bytes')
    # the same file object asked again, in each order of the flag: every answer is computed from the bytes of the file, and
    # an answer handed out earlier does not change under the caller's feet
    seq = [rng.random() < 0.6 for _ in range(rng.choice([1, 2, 3]))]
    held = [(True, di)]
    for flag in seq:
        d2 = ef.get_dwarf_info(relocate_dwarf_sections=flag)
        held.append((flag, d2))
        for fl, dd in held:
            if dd.debug_info_sec.stream.getvalue() != (want if fl else secdata):
                raise Bad('a second get_dwarf_info() on the same file object: %s bytes differ (%s, %s in-place addends)' % (
                    'relocated' if fl else 'unrelocated', name, 'RELA' if rela else 'REL'), cls=cls, le=le, flags=[True] + seq)
    sh.count('repeated_get_dwarf_info_on_one_file_object', len(seq))
    if di.debug_info_sec.size != len(secdata):
        raise Bad('descriptor size')
    sh.held()
    for r in relocs:
        sh.sig((name, r[2], cls, le, rela, zero, r[3] < 0, syms[r[1]] >> (cls - 1)))
    sh.sample({'machine': name, 'class': cls, 'little_endian': le, 'rela': rela, 'relocs': relocs[:3], 'symbols': syms})


def run_reject(idx, rng, sh):
    from elftools.elf.elffile import ELFFile
    from elftools.common.exceptions import ELFRelocationError
    name, mach, variants, rela, table = rng.choice(M)
    cls, le = rng.choice(variants)
    secdata = bytes(rng.getrandbits(8) for _ in range(64))
    syms = [0, 0x1000, 5]
    good = rng.choice(list(table))
    mode = rng.choice(['type', 'type', 'flavour', 'sym==', 'sym>', 'machine'])
    r_rela, r_mach = rela, mach
    rel = (8, 1, good, 0)
    if mode == 'type':
        cands = [t for t in list(range(0, 40)) + [100, 200, 255] if t not in table and not (name == 'ARM' and t == 28)]
        rel = (8, 1, rng.choice(cands), 0)
    elif mode == 'flavour':
        if name.startswith('MIPS'):
            r_rela = not rela
            rel = (8, 1, 18 if not r_rela else 3, 0)     # R_MIPS_64 has no REL recipe; R_MIPS_REL32 no RELA recipe
        else:
            r_rela = not rela
    elif mode == 'sym==':
        rel = (8, len(syms), good, 0)
    elif mode == 'sym>':
        rel = (8, len(syms) + rng.choice([1, 100, 0xffff]), good, 0)
    else:
        r_mach = rng.choice([2, 20, 43, 50, 243, 0x1234])    # machines without any recipe
    img, info = build_rel_image(rng, r_mach, cls, le, r_rela, [rel], syms, secdata)
    try:
        ELFFile(io.BytesIO(img)).get_dwarf_info(relocate_dwarf_sections=True)
    except ELFRelocationError:
        sh.held(('reject', name, mode, cls, le))
        sh.sample({'machine': name, 'mode': mode, 'reloc': rel}, kind='reject')
        return
    except Exception as e:
        raise Bad('rejection raises %s instead of ELFRelocationError (%s, %s)' % (type(e).__name__, mode, name if mode == 'flavour' else 'any'),
                  message=str(e)[:100])
    raise Bad('not rejected: %s (%s)' % (mode, name), reloc=rel)


def relr_expand(words, cls):
    W = cls // 8
    out = []
    base = None
    for w in words:
        if w & 1 == 0:
            out.append(w)
            base = w + W
        else:
            bits = w >> 1
            for i in range(cls - 1):
                if bits >> i & 1:
                    out.append(base + i * W)
            base += (cls - 1) * W
    return out


def run_relr(idx, rng, sh):
    from elftools.elf.elffile import ELFFile
    cls = rng.choice([32, 64])
    le = rng.random() < 0.5
    E = '<' if le else '>'
    W = cls // 8
    words = []
    started = False
    for _ in range(rng.choice([0, 1, 2, 5, 12, 40])):
        if not started or rng.random() < 0.35:
            words.append(rng.randrange(0, 2 ** (cls - 2), 2))
            started = True
        else:
            bits = rng.choice([0, 1, (1 << (cls - 1)) - 1, 1 << (cls - 2), rng.getrandbits(cls - 1), rng.getrandbits(cls - 1) & rng.getrandbits(cls - 1)])
            words.append((bits << 1) | 1)
    data = b''.join(struct.pack(E + ('Q' if cls == 64 else 'I'), w) for w in words)
    img, info = elfgen.build(cls=cls, le=le, machine=rng.choice([62, 183, 3, 40]), etype=3,
                             sections=[elfgen.Sec('.text', 1, data=b'\0' * rng.randrange(9)),
                                       elfgen.Sec('.relr.dyn', 19, flags=2, data=data, entsize=W, align=W)])
    st = TracedBytesIO(img)
    ef = ELFFile(st)
    s = ef.get_section_by_name('.relr.dyn')
    want = relr_expand(words, cls)
    first = rng.choice(['iter', 'num', 'get'])
    if first == 'num':
        if s.num_relocations() != len(want):
            raise Bad('RELR num_relocations', got=s.num_relocations(), want=len(want))
    poison([st], rng)
    if rng.random() < 0.5:
        for _ in zip(range(rng.choice([1, 3])), s.iter_relocations()):
            pass
    got = [r['r_offset'] for r in PoisonedIter(s.iter_relocations(), [st], rng, sh.counters)]
    if got != want:
        k = next((i for i, (a, b) in enumerate(zip(got, want)) if a != b), min(len(got), len(want)))
        raise Bad('RELR expansion differs (%s)' % ('consecutive bitmaps' if any(a & 1 and b & 1 for a, b in zip(words, words[1:])) else 'single bitmaps'),
                  cls=cls, words=[hex(w) for w in words[:6]], at=k, got=got[k:k + 3], want=want[k:k + 3])
    if s.num_relocations() != len(want) or (want and s.get_relocation(len(want) - 1)['r_offset'] != want[-1]):
        raise Bad('RELR num/get after iteration')
    sh.held(('relr', cls, le, min(len(words), 6), any(a & 1 and b & 1 for a, b in zip(words, words[1:])), first))
    sh.sample({'class': cls, 'words': [hex(w) for w in words[:5]], 'expanded': len(want)}, kind='relr')


def run_tables(idx, rng, sh):
    from elftools.elf.elffile import ELFFile
    cls = rng.choice([32, 64])
    le = rng.random() < 0.5
    E = '<' if le else '>'
    machine = rng.choice([62, 3, 40, 183, 8, 8, 21, 22, 258, 2])
    mips64 = machine == 8 and cls == 64
    rela = rng.random() < 0.5
    n = rng.choice([0, 1, 2, 7, 60, 500])
    recs = []
    for _ in range(n):
        off = rng.choice([0, 1, (1 << cls) - 1, rng.getrandbits(cls)])
        if cls == 32:
            sym, typ = rng.choice([0, 1, 0xffffff, rng.getrandbits(24)]), rng.choice([0, 1, 255, rng.getrandbits(8)])
        else:
            sym, typ = rng.choice([0, 1, 0xffffffff, rng.getrandbits(32)]), rng.choice([0, 1, 0xffffffff, rng.getrandbits(32)])
        add = rng.choice([0, 1, -1, -(1 << (cls - 1)), (1 << (cls - 1)) - 1, rng.getrandbits(cls - 1) - (1 << (cls - 2))])
        if mips64:
            recs.append((off, sym, typ & 0xff, add, rng.getrandbits(8), rng.getrandbits(8), rng.getrandbits(8)))
        else:
            recs.append((off, sym, typ, add))
    rb = b''.join(pack_rel(E, cls, mips64, r[0], r[1], r[2], r[3], rela, *(r[4:] if mips64 else ())) for r in recs)
    relsz = ((24 if rela else 16) if cls == 64 else (12 if rela else 8))
    # the same table also as a dynamic table behind PT_LOAD
    W = 'Q' if cls == 64 else 'I'
    dyn_kind = rng.choice(['REL/RELA', 'JMPREL'])
    va = 0x400000
    secs = [elfgen.Sec('.text', 1, flags=6, data=b'\0' * rng.randrange(1, 30)),
            elfgen.Sec('.rel.dyn', 4 if rela else 9, flags=2, data=rb, link=0, entsize=relsz, align=8, addr=va + 0x100),
            elfgen.Sec('.dynstr', 3, flags=2, data=b'\0x\0')]
    tags = []
    if dyn_kind == 'REL/RELA':
        tags = [(7 if rela else 17, va + 0x100), (8 if rela else 18, len(rb)), (9 if rela else 19, relsz)]
    else:
        tags = [(23, va + 0x100), (2, len(rb)), (20, 7 if rela else 17)]
    tags.append((0, 0))
    dyn = b''.join(struct.pack(E + ('q' if cls == 64 else 'i') + W, t, v) for t, v in tags)
    secs.append(elfgen.Sec('.dynamic', 6, flags=3, data=dyn, link='.dynstr', entsize=len(dyn) // len(tags), align=8))
    img, info = elfgen.build(cls=cls, le=le, machine=machine, etype=3, sections=secs,
                             segments=[elfgen.Seg(type=1, sec='.rel.dyn', vaddr=va + 0x100), elfgen.Seg(type=2, sec='.dynamic', vaddr=va + 0x2000)])
    st = TracedBytesIO(img)
    ef = ELFFile(st)
    s = ef.get_section_by_name('.rel.dyn')

    def dig(r):
        e = r.entry
        base = (e['r_offset'], e['r_info_sym'], e['r_info_type'], e['r_addend'] if rela else 0, r.is_RELA())
        if mips64:
            base += (e['r_info_ssym'], e['r_info_type3'], e['r_info_type2'], e['r_info'])
        else:
            base += (e['r_info'],)
        return base

    def want(r):
        base = (r[0], r[1], r[2], r[3] if rela else 0, rela)
        if mips64:
            # r = (offset, sym, type, addend, ssym, type2, type3)
            return base + (r[4], r[6], r[5], (r[1] << 32) | (r[4] << 24) | (r[6] << 16) | (r[5] << 8) | r[2])
        return base + (((r[1] << 32) | r[2]) if cls == 64 else ((r[1] << 8) | r[2]),)
    if s.num_relocations() != n or s.is_RELA() != rela:
        raise Bad('relocation section count/flavour')
    poison([st], rng)
    if rng.random() < 0.5:
        # a walk given up after one or two entries, then the full walk of the same object
        for _ in zip(range(rng.choice([1, 2])), s.iter_relocations()):
            pass
        sh.count('relocation_walks_after_an_abandoned_walk')
    got = [dig(r) for r in PoisonedIter(s.iter_relocations(), [st], rng, sh.counters)]
    if got != [want(r) for r in recs]:
        k = next((i for i, (a, b) in enumerate(zip(got, [want(r) for r in recs])) if a != b), None)
        if k is None:
            raise Bad('relocation walk yields %s entries than the table holds' % ('fewer' if len(got) < len(recs) else 'more'), got=len(got), want=len(recs))
        raise Bad('relocation entries differ (%s, class %d, %s)' % ('MIPS64 layout' if mips64 else 'RELA' if rela else 'REL', cls, 'LSB' if le else 'MSB'),
                  got=got[k], want=want(recs[k]))
    for i in ([0, n - 1] if n else []):
        poison([st], rng)
        if dig(s.get_relocation(i)) != want(recs[i]):
            raise Bad('get_relocation(i)')
    # dynamic view
    seg = [g for g in ef.iter_segments() if g['p_type'] == 'PT_DYNAMIC'][0]
    for dv in (seg, ef.get_section_by_name('.dynamic')):
        poison([st], rng)
        tabs = dv.get_relocation_tables()
        key = 'JMPREL' if dyn_kind == 'JMPREL' else ('RELA' if rela else 'REL')
        if set(tabs) != {key}:
            raise Bad('dynamic relocation tables found', got=sorted(tabs), want=key)
        t = tabs[key]
        if t.is_RELA() != rela or t.num_relocations() != n or [dig(r) for r in t.iter_relocations()] != [want(r) for r in recs]:
            raise Bad('dynamic %s table entries differ' % key)
    sh.held(('tables', cls, le, rela, mips64, dyn_kind, min(n, 8)), n=n + 1)
    sh.sample({'class': cls, 'rela': rela, 'mips64': mips64, 'entries': n, 'first': recs[:2]}, kind='tables')


def run_xval(idx, rng, sh):
    """psABI model against `readelf -R` (relocated hex dump) on the same image."""
    if not oracles.have('readelf'):
        sh.skip('readelf missing')
        return
    name, mach, cls, le, rela, table, relocs, syms, secdata, zero = gen_apply(rng)
    secdata = secdata[:64].ljust(64, b'\0')
    relocs = [r for r in relocs if r[0] + table[r[2]][0] <= 64]
    if not relocs:
        sh.skip('no relocation left')
        return
    img, info = build_rel_image(rng, mach, cls, le, rela, relocs, syms, secdata)
    want = model_apply(secdata, relocs, syms, le, rela, table)
    with oracles.Scratch() as s:
        p = s.write('r.o', img)
        rc, out, err = oracles.run(['readelf', '-R', '.debug_info', p])
    hexb = ''.join(''.join(l.split()[1:5]) for l in out.splitlines() if re.match(r'\s+0x[0-9a-f]{8} ', l))
    try:
        rb = bytes.fromhex(hexb[:128])
    except ValueError:
        rb = b''
    if rc != 0 or len(rb) != 64:
        sh.skip('readelf declined')
        return
    if rb == want:
        sh.count('xval_images_agreeing_with_readelf_R')
        sh.held(('xval', name, tuple(sorted({r[2] for r in relocs}))))
    elif rb == secdata or 'unable to apply' in err or 'unsupported' in err.lower():
        sh.count('xval_readelf_left_fields_unrelocated')
        sh.skip('readelf declined (left the field unrelocated)')
    else:
        # readelf may relocate some types and decline others: compare only fields it changed
        partial = all(rb[r[0]:r[0] + table[r[2]][0]] in (want[r[0]:r[0] + table[r[2]][0]], secdata[r[0]:r[0] + table[r[2]][0]]) for r in relocs)
        multi = len({r[0] for r in relocs}) != len(relocs) or any(a[0] < b[0] + table[b[2]][0] and b[0] < a[0] + table[a[2]][0] for a in relocs for b in relocs if a is not b)
        if partial or multi:
            sh.skip('readelf relocated only part of the types / overlapping fields')
            return
        sh.dispute('reloc model vs readelf -R')
        sh.extra.setdefault('disputes', []).append({'machine': name, 'relocs': relocs, 'syms': syms, 'readelf': rb.hex(), 'model': want.hex(), 'orig': secdata.hex()})


def run_case(kind, idx, rng, sh):
    try:
        {'tables': run_tables, 'relr': run_relr, 'apply': run_apply, 'reject': run_reject, 'xval': run_xval}[kind](idx, rng, sh)
    except Bad as b:
        sh.violation('C08:' + b.key, **b.d)
