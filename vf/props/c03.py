"""C03 - symbol tables enumerate exactly; name and hash lookups are complete and sound."""
import struct

from ..gen import elfgen, hashgen as H
from ..ref.names import elf_name_ok
from ..monitor import TracedBytesIO, PoisonedIter, poison

PROP = 'C03'
LEVEL = 'exploration'
RULE = ('generated .dynsym/.dynstr(/.symtab/.symtab_shndx/.SUNW_ldynsym/.SUNW_syminfo) with 1-3000 '
        'entries, all boundary st_info/st_other/st_shndx values, empty/duplicate/non-ASCII/long names, '
        'both classes and orders; SysV hash tables with nbucket from 1 to 2n (head- or tail-linked '
        'chains) and GNU hash tables with nbuckets 1..2n, symoffset 1..n, bloom size 1-8 words, shift '
        '0-31, engineered name sets: equal full djb2 hash, hash equal except bit 0, same bucket / '
        'different hash, absent names passing the bloom filter into an occupied bucket, last chain '
        'ending at the table end; every present name, engineered absent names and random names are '
        'looked up with the shared stream repositioned between calls. distinct = (class, order, table '
        'shape class, query class).')
ASSUMPTIONS = [
    'hash tables are valid (built with the gABI / glibc algorithms; every hashed symbol is reachable)',
    'a GNU table that hashes nothing is written either consistently (symoffset = symbol count) or the '
    'way GNU ld writes it (symoffset = 1, one empty bucket); the second spelling does not encode the '
    'count and is listed as an open finding',
]
KINDS = {'hash': (1200, 30000, 0), 'symtab': (600, 15000, 0)}
FLOOR = {'quick': 20000, 'thorough': 400000}
REACH = ['elftools.elf.hash:ELFHashTable.get_symbol', 'elftools.elf.hash:GNUHashTable.get_symbol',
         'elftools.elf.hash:GNUHashTable.get_number_of_symbols', 'elftools.elf.hash:GNUHashTable._matches_bloom',
         'elftools.elf.sections:SymbolTableSection.get_symbol', 'elftools.elf.sections:SymbolTableSection.get_symbol_by_name',
         'elftools.elf.sections:SymbolTableIndexSection.get_section_index',
         'elftools.elf.sections:SUNWSyminfoTableSection.get_symbol']
_T = {}


class Bad(Exception):
    def __init__(self, key, **d):
        Exception.__init__(self, key)
        self.key, self.d = key, d


def libtabs(prefix):
    if prefix not in _T:
        import elftools.elf.enums as E
        _T[prefix] = [v for k, v in vars(E).items() if isinstance(v, dict) and k.startswith('ENUM')
                      and any(isinstance(n, str) and n.startswith(prefix) for n in v)]
    return _T[prefix]


def run_hash(idx, rng, sh):
    from elftools.elf.elffile import ELFFile
    cls = rng.choice([32, 64])
    le = rng.random() < 0.5
    E = '<' if le else '>'
    nsym = rng.choice([1, 2, 3, 5, 10, 40, 40, 200] + ([3000] if rng.random() < 0.01 else []))
    pool = set()
    while len(pool) < nsym - 1:
        r = rng.random()
        if r < 0.2:
            pool.update(H.full_collisions(rng, rng.randint(2, 4)))
        elif r < 0.3:
            pool.add(('symé%d' % rng.randint(0, 999)).encode('utf-8'))
        elif r < 0.4:
            b = ('n%d' % rng.randint(0, 5000)).encode()
            pool.update([b, H.near_collision(b)])
        elif r < 0.45:
            pool.add(b'L' * rng.choice([64, 65, 200]) + str(len(pool)).encode())
        else:
            pool.add(('s%d' % rng.randint(0, 50000)).encode())
    names = [b''] + sorted(pool)[:nsym - 1]
    tail = names[1:]
    rng.shuffle(tail)
    names = [b''] + tail
    nsym = len(names)
    empty_mode = None
    if rng.random() < 0.12:
        empty_mode = rng.choice(['consistent', 'ld'])
        symoffset = nsym if empty_mode == 'consistent' else 1
    else:
        symoffset = rng.randint(1, max(1, nsym - 1)) if nsym > 1 else 1
    nbuckets = rng.choice([1, 2, 3, 7, nsym, 2 * nsym])
    if empty_mode == 'ld':
        gdata = struct.pack(E + 'IIII', 1, 1, 1, 0) + struct.pack(E + ('Q' if cls == 64 else 'I'), 0) + struct.pack(E + 'I', 0)
        bloom, bsize, shift, nbuckets, hashed = [0], 1, 0, 1, []
        gnu_present = set()
    else:
        hashed = sorted(names[symoffset:], key=lambda x: H.gnu_hash(x) % nbuckets)
        names = names[:symoffset] + hashed
        bsize, shift = rng.choice([1, 2, 3, 4, 8]), rng.choice([0, 5, 6, 26, 31])
        gdata, bloom = H.gnu_table(E, cls, names, symoffset, nbuckets, bsize, shift)
        gnu_present = set(hashed)
    strtab = b''
    noffs = []
    for nm in names:
        noffs.append(len(strtab))
        strtab += nm + b'\0'
    symtab = b''.join(elfgen.sym_pack(E, cls == 64, noffs[i], 0x1000 + i, i, 0x12 if i else 0, 0, 1 if i else 0) for i in range(nsym))
    nbk = rng.choice([1, 2, 5, nsym + 3, 2 * nsym])
    secs = [elfgen.Sec('.dynsym', 11, flags=2, data=symtab, link='.dynstr', info=1, entsize=24 if cls == 64 else 16, align=8),
            elfgen.Sec('.dynstr', 3, flags=2, data=strtab),
            elfgen.Sec('.hash', 5, flags=2, data=H.sysv_table(E, names, nbk, rng), link='.dynsym', entsize=4, align=4),
            # the GNU table last: its final chain then ends at the very end of the file contents
            elfgen.Sec('.gnu.hash', 0x6ffffff6, flags=2, data=gdata, link='.dynsym', align=8)]
    img, info = elfgen.build(cls=cls, le=le, machine=rng.choice([62, 3, 40, 183, 8, 21]), etype=3, sections=secs,
                             order=('sh', 'ph', 'data') if rng.random() < 0.5 else ('ph', 'data', 'sh'))
    st = TracedBytesIO(img)
    ef = ELFFile(st)
    sv, gv, sy = ef.get_section_by_name('.hash'), ef.get_section_by_name('.gnu.hash'), ef.get_section_by_name('.dynsym')
    shape = (cls, le, min(nsym, 41), empty_mode, nbuckets == 1, nbk == 1, symoffset == 1)
    poison([st], rng)
    if sv.get_number_of_symbols() != nsym:
        raise Bad('SysV hash symbol count', got=sv.get_number_of_symbols(), want=nsym)
    poison([st], rng)
    gc = gv.get_number_of_symbols()
    if gc != nsym:
        if empty_mode == 'ld' and gc == 1 and 'gnu_hash_empty_ld_convention' in sh.quirks:
            sh.known['gnu_hash_empty_ld_convention'] += 1
        else:
            raise Bad('GNU hash symbol count (%s)' % ('nothing hashed, %s spelling' % empty_mode if empty_mode else
                                                      'last chain of length %d' % sum(1 for x in hashed if H.gnu_hash(x) % nbuckets == H.gnu_hash(hashed[-1]) % nbuckets)),
                      got=gc, want=nsym, symoffset=symoffset, nbuckets=nbuckets)
    present = set(names[1:])
    queries = [(n, 'present') for n in names[1:]] if nsym < 300 else [(n, 'present') for n in rng.sample(names[1:], 150)]
    queries += [(('absent%d' % i).encode(), 'absent-random') for i in range(4)]
    queries += [(c, 'absent-collision') for c in H.full_collisions(rng, 2) if c not in present]
    for n in (names[1:6] if nsym > 1 else []):
        q = H.near_collision(n)
        if q not in present:
            queries.append((q, 'absent-near-collision'))
    if hashed:
        nonempty = {H.gnu_hash(x) % nbuckets for x in hashed}
        q = H.bloom_false_positive(rng, cls, bloom, bsize, shift, nbuckets, nonempty, present, tries=300)
        if q:
            queries.append((q, 'absent-bloom-pass'))
    # names present in the table but not in the hashed part must not be found through the GNU table
    rng.shuffle(queries)
    for qb, qk in queries:
        q = qb.decode('utf-8')
        for tbl, pres, tag in ((sv, present, 'SysV'), (gv, gnu_present, 'GNU')):
            poison([st], rng)
            r = tbl.get_symbol(q)
            if qb in pres:
                if r is None or r.name != q:
                    coll = sum(1 for x in pres if H.gnu_hash(x) == H.gnu_hash(qb)) > 1
                    raise Bad('%s hash lookup misses a present name%s' % (tag, ' (another name has the same full hash)' if coll and tag == 'GNU' else ''),
                              name=q, got=None if r is None else r.name)
            elif r is not None:
                raise Bad('%s hash lookup finds an absent name (%s)' % (tag, qk), name=q, got=r.name)
            sh.sig((tag, qk if qb not in pres else 'present') + shape[2:])
    sh.held(n=2 * len(queries) + 2)
    sh.sample({'class': cls, 'little_endian': le, 'symbols': nsym, 'symoffset': symoffset, 'nbuckets': nbuckets,
               'sysv_nbucket': nbk, 'queries': len(queries)}, kind='hash')


def run_symtab(idx, rng, sh):
    from elftools.elf.elffile import ELFFile
    cls = rng.choice([32, 64])
    le = rng.random() < 0.5
    E = '<' if le else '>'
    machine = rng.choice([62, 3, 40, 183, 8, 21, 2])
    n = rng.choice([0, 1, 2, 10, 60, 300])
    names = [rng.choice([b'', b'dup', b'dup', 'ünï'.encode('utf-8'), 'größe_init'.encode('utf-8'), b'init', 'größe_init'.encode('utf-8'), b'it', b'x' * rng.choice([63, 64, 65, 70, 127, 128, 129, 192, 256]), ('s%d' % i).encode(), b'a.b', b'\xff\xfe']) for i in range(n)]
    if names:
        names[0] = b''
    tab, offs = elfgen.strtab(names, share_suffixes=rng.random() < 0.5)
    recs = []
    for i in range(n):
        info = rng.choice([0, 0x12, 0x11, 0x22, 0xff, 0xa6, 0x3d, rng.getrandbits(8)])
        other = rng.choice([0, 1, 2, 3, 4, 5, 6, 7, 0x60, 0xe3, 0x18, rng.getrandbits(8)])
        shndx = rng.choice([0, 1, 5, 0xfeff, 0xff00, 0xff1f, 0xfff1, 0xfff2, 0xffff, rng.getrandbits(16)])
        recs.append((offs[names[i]], rng.getrandbits(cls), rng.getrandbits(cls if cls == 64 else 32), info, other, shndx))
    symtab = b''.join(elfgen.sym_pack(E, cls == 64, r[0], r[1], r[2], r[3], r[4], r[5]) for r in recs)
    xidx = [rng.getrandbits(32) for _ in range(n)]
    symsz = 24 if cls == 64 else 16
    kind = rng.choice([(2, '.symtab'), (11, '.dynsym'), (0x6ffffff3, '.SUNW_ldynsym')])
    secs = [elfgen.Sec(kind[1], kind[0], data=symtab, link='.strtab', info=1, entsize=symsz, align=8),
            elfgen.Sec('.strtab', 3, data=tab),
            elfgen.Sec('.symtab_shndx', 18, data=b''.join(struct.pack(E + 'I', x) for x in xidx), link=kind[1] if kind[0] != 0x6ffffff3 else '.strtab', entsize=4, align=4)]
    syminfo = [(rng.choice([0xffff, 0xfffe, 0xfffd, 0xfffc, 0, 3, rng.getrandbits(16)]), rng.getrandbits(16)) for _ in range(n)]
    if kind[0] != 0x6ffffff3 and n:
        secs.append(elfgen.Sec('.SUNW_syminfo', 0x6ffffffc, flags=2, data=b''.join(struct.pack(E + 'HH', *x) for x in syminfo),
                               link=kind[1], entsize=4))
    rng.shuffle(secs)
    img, info = elfgen.build(cls=cls, le=le, machine=machine, osabi=rng.choice([0, 6]), etype=rng.choice([1, 3]), sections=secs,
                             gap=rng.choice([0, 5]), filler=0x77, rng=rng)
    st = TracedBytesIO(img)
    ef = ELFFile(st)
    sy = ef.get_section_by_name(kind[1])
    if type(sy).__name__ != 'SymbolTableSection':
        raise Bad('symbol table class %s' % type(sy).__name__)
    if sy.num_symbols() != n:
        raise Bad('num_symbols', got=sy.num_symbols(), want=n)
    dnames = [x.decode('utf-8', 'replace') for x in names]

    def chk(s, i):
        r = recs[i]
        e = s.entry
        if (e['st_name'], e['st_value'], e['st_size']) != (r[0], r[1], r[2]) or s.name != dnames[i]:
            raise Bad('symbol name/value/size (class %d, %s)' % (cls, 'LSB' if le else 'MSB'), index=i,
                      got=(e['st_name'], e['st_value'], e['st_size'], s.name), want=(r[0], r[1], r[2], dnames[i]))
        for prefix, num, obs, what in (('STB_', r[3] >> 4, e['st_info']['bind'], 'binding'), ('STT_', r[3] & 15, e['st_info']['type'], 'type'),
                                       ('STV_', r[4] & 7, e['st_other']['visibility'], 'visibility'),
                                       ('SHN_', r[5], e['st_shndx'], 'section index')):
            if not elf_name_ok(prefix, num, obs, libtabs(prefix), machine):
                raise Bad('symbol %s reported wrongly' % what, code=num, observed=obs)
        if e['st_other']['local'] != r[4] >> 5:
            raise Bad('symbol st_other upper bits', got=e['st_other']['local'], want=r[4] >> 5)
        sh.sig(('sym', r[3] >> 4, r[3] & 15, r[4] & 7, r[4] >> 5, min(r[5], 0xff00) if r[5] < 0xfff0 else r[5]))
    poison([st], rng)
    for i, s in enumerate(PoisonedIter(sy.iter_symbols(), [st], rng, sh.counters)):
        chk(s, i)
    order = list(range(n))
    rng.shuffle(order)
    for i in order[:40]:
        poison([st], rng)
        chk(sy.get_symbol(i), i)
    for q in set(dnames[:30]) | {'absent-name'}:
        poison([st], rng)
        got = sy.get_symbol_by_name(q)
        want = [i for i in range(n) if dnames[i] == q]
        if not want:
            if got is not None:
                raise Bad('get_symbol_by_name(absent) returned symbols', name=q)
        elif got is None or [(s['st_value'], s['st_size']) for s in got] != [(recs[i][1], recs[i][2]) for i in want]:
            raise Bad('get_symbol_by_name returns a wrong set (%d duplicates)' % len(want), name=q)
    xs = ef.get_section_by_name('.symtab_shndx')
    if type(xs).__name__ != 'SymbolTableIndexSection':
        raise Bad('index table class')
    for i in order[:30]:
        poison([st], rng)
        if xs.get_section_index(i) != xidx[i]:
            raise Bad('extended section index', index=i)
    si = ef.get_section_by_name('.SUNW_syminfo')
    if si is not None:
        if type(si).__name__ != 'SUNWSyminfoTableSection' or si.num_symbols() != n - 1:
            raise Bad('syminfo class/count', got=si.num_symbols(), want=n - 1)
        bt = {0xffff: 'SYMINFO_BT_SELF', 0xfffe: 'SYMINFO_BT_PARENT', 0xfffd: 'SYMINFO_BT_NONE', 0xfffc: 'SYMINFO_BT_EXTERN'}
        got = [(s.name, s['si_boundto'], s['si_flags']) for s in PoisonedIter(si.iter_symbols(), [st], rng, sh.counters)]
        want = [(dnames[i], bt.get(syminfo[i][0], syminfo[i][0]), syminfo[i][1]) for i in range(1, n)]
        if got != want:
            raise Bad('syminfo enumeration', got=got[:3], want=want[:3])
    sh.held(('symtab', cls, le, kind[1], min(n, 11)), n=n + 1)
    sh.sample({'class': cls, 'table': kind[1], 'symbols': n, 'first': recs[:2]}, kind='symtab')


def run_case(kind, idx, rng, sh):
    try:
        (run_hash if kind == 'hash' else run_symtab)(idx, rng, sh)
    except Bad as b:
        sh.violation('C03:' + b.key, **b.d)


def witness(fid, sh):
    """Committed minimal witness of the open finding: three dynamic symbols behind the empty GNU
    hash table GNU ld writes (nbuckets=1, symoffset=1, one zero bloom word, bucket[0]=0)."""
    import io
    import json
    import os
    from elftools.elf.elffile import ELFFile
    from .. import VERIF_DIR
    if fid != 'gnu_hash_empty_ld_convention':
        return
    with open(os.path.join(VERIF_DIR, 'findings', 'C03', 'gnu_hash_empty_ld.json')) as f:
        w = json.load(f)
    ef = ELFFile(io.BytesIO(bytes.fromhex(w['image_hex'])))
    got = ef.get_section_by_name('.gnu.hash').get_number_of_symbols()
    if got == w['true_symbol_count']:
        return                      # repaired: no KNOWN-FINDING line
    if got == 1:
        sh.known[fid] += 1
    else:
        sh.violation('C03:witness of %s fails differently' % fid, got=got)
