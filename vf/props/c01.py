"""C01 - ELF file, section and program headers are decoded exactly as encoded."""
import io

from ..gen import elfgen, seckinds
from ..ref.names import elf_name_ok
from ..monitor import TracedBytesIO, poison

PROP = 'C01'
LEVEL = 'exploration'
RULE = ('generated images: class {32,64} x order {LSB,MSB} x e_machine (the five table-switching '
        'machines, 25 others, random 16-bit codes) x OS ABI 0..255 x arbitrary e_type/e_entry/e_flags/'
        'e_version x header tables in any order relative to the contents with gaps and filler, entry '
        'sizes standard + {0,1,8,40}, 0-40 sections and 0-20 segments, extended-numbering escapes '
        '(e_shnum=0/sh_size[0], e_phnum=0xffff/sh_info[0], e_shstrndx=0xffff/sh_link[0]) with small '
        'counts and, in thorough, real counts >= 0xff00 / 0xffff; section types: every specialised kind '
        'with type-correct payload and links, machine-specific codes under the right and the wrong '
        'machine, unknown codes in OS/PROC/USER ranges; names with duplicates, empty, non-ASCII, shared '
        'suffixes. Compared with ground truth: every header field, names, specialised class, order, '
        'counts, lookups by name/index, type filters. distinct = (class, order, machine class, layout '
        'order, entry-size extras, escapes used, section/segment kinds present).')
ASSUMPTIONS = [
    'coded fields are expected by name from the vendored registries using the table that applies to '
    'the machine (my own machine map); names only the library knows are accepted unjudged',
    'section payloads are well formed for their type (their constructors validate links and sizes)',
]
KINDS = {'image': (2500, 60000, 0), 'big': (0, 6, 1)}
FLOOR = {'quick': 2000, 'thorough': 40000}
CASE_TIMEOUT = 600
REACH = ['elftools.elf.elffile:ELFFile.num_sections', 'elftools.elf.elffile:ELFFile.num_segments',
         'elftools.elf.elffile:ELFFile.get_shstrndx', 'elftools.elf.elffile:ELFFile._make_section',
         'elftools.elf.elffile:ELFFile._make_segment', 'elftools.elf.elffile:ELFFile._section_offset',
         'elftools.elf.elffile:ELFFile._segment_offset', 'elftools.elf.structs:ELFStructs._create_phdr',
         'elftools.elf.structs:ELFStructs._create_shdr']
MACHINES_SW = [40, 183, 62, 8, 243]
MACHINES_OTHER = [0, 1, 2, 3, 4, 7, 10, 15, 18, 20, 21, 22, 42, 43, 50, 83, 93, 94, 105, 113, 164, 247, 252, 258, 0x9026]
SEG_CLASS = {3: 'InterpSegment', 2: 'DynamicSegment', 4: 'NoteSegment'}
_T = {}


class Bad(Exception):
    def __init__(self, key, **d):
        Exception.__init__(self, key)
        self.key, self.d = key, d


def libtabs(prefix):
    if prefix not in _T:
        import elftools.elf.enums as E
        _T[prefix] = [v for k, v in vars(E).items() if isinstance(v, dict) and k.startswith('ENUM')
                      and any(isinstance(n, str) and n.startswith(prefix) for n in v)]
    return _T[prefix]


def coded(prefix, num, observed, machine, what):
    if not elf_name_ok(prefix, num, observed, libtabs(prefix), machine):
        raise Bad('%s code reported wrongly' % what, code=hex(num), observed=observed, machine=machine)


def gen_image(rng, big=None, plain=False, big_variant=0):
    cls = rng.choice([32, 64])
    le = rng.random() < 0.5
    r = rng.random()
    machine = rng.choice(MACHINES_SW) if r < 0.5 else rng.choice(MACHINES_OTHER) if r < 0.9 else rng.getrandbits(16)
    osabi = rng.choice([0, 0, 3, 6, 9, 64, 97, 255, rng.getrandbits(8)])
    etype = rng.choice([0, 1, 2, 3, 3, 0xfe00, 0xff00, 0xffff, rng.getrandbits(16)])
    if etype == 4:
        etype = 3
    secs = []
    if rng.random() < 0.6:
        secs += seckinds.companion_set(rng, cls, le, machine)
    secs += seckinds.plain_sections(rng, rng.choice([0, 1, 3, 8, 20, 35]), machine)
    head, rest = secs[:2] if secs and secs[0].name.endswith('.dynsym') else [], secs[2:] if secs and secs[0].name.endswith('.dynsym') else secs
    rng.shuffle(rest)
    secs = head + rest
    if head and rng.random() < 0.5:
        secs = rest[:len(rest) // 2] + head + rest[len(rest) // 2:]
    segs = []
    names = {s.name for s in secs}
    for _ in range(rng.choice([0, 0, 1, 2, 5, 20])):
        t = rng.choice([0, 1, 1, 5, 6, 7, 0x6474e550, 0x6474e551, 0x6474e552, 0x6474e553, 0x70000000, 0x70000001, 0x70000002,
                        0x70000003, 0x60000000, 0x6fffffff, 0x7fffffff, 0x12345678, 8, 0x65a3dbe6,
                        0x80000000, 0xdeadbeef, 0xffffffff])         # every header field is unsigned: top bits included
        segs.append(elfgen.Seg(type=t, flags=rng.getrandbits(32), offset=rng.getrandbits(20), vaddr=rng.getrandbits(cls),
                               paddr=rng.getrandbits(cls), filesz=rng.getrandbits(16), memsz=rng.getrandbits(24),
                               align=rng.choice([0, 1, 0x1000, rng.getrandbits(cls)])))
    if '.note.x' in names and rng.random() < 0.5:
        segs.append(elfgen.Seg(type=4, flags=4, sec='.note.x', align=4))
    if '.dynamic' in names and rng.random() < 0.5:
        segs.append(elfgen.Seg(type=2, flags=6, sec='.dynamic', align=8))
    if rng.random() < 0.3:
        secs.append(elfgen.Sec('.interp', 1, flags=2, data=b'/lib/ld-linux.so.2\0'))
        segs.append(elfgen.Seg(type=3, flags=4, sec='.interp'))
    rng.shuffle(segs)
    esc = dict(esc_shnum=rng.random() < 0.15, esc_phnum=rng.random() < 0.15 and bool(segs), esc_shstrndx=rng.random() < 0.15)
    kw = dict(cls=cls, le=le, machine=machine, etype=etype, osabi=osabi, abiversion=rng.getrandbits(8),
              entry=rng.getrandbits(cls), eflags=rng.getrandbits(32), version=rng.choice([1, 1, 0, 2, rng.getrandbits(32)]),
              ident_pad=bytes(rng.getrandbits(8) for _ in range(7)), sections=secs, segments=segs,
              shent_extra=rng.choice([0, 0, 1, 8, 40]), phent_extra=rng.choice([0, 0, 1, 8, 40]),
              order=rng.choice([('ph', 'data', 'sh'), ('sh', 'ph', 'data'), ('data', 'sh', 'ph'), ('ph', 'sh', 'data'),
                                ('data', 'ph', 'sh'), ('sh', 'data', 'ph')]),
              gap=rng.choice([0, 0, 1, 7, 64]), filler=rng.choice([0, 0xff, 0xa5]),
              shstr_at=rng.choice([None, None, 1, 3]), rng=rng)
    kw.update(esc)
    if plain:        # what llvm-readobj 14 accepts: standard entry sizes, no extended numbering
        kw.update(shent_extra=0, phent_extra=0, esc_shnum=False, esc_phnum=False, esc_shstrndx=False)
    if big == 'sections':
        kw['sections'] = secs + [elfgen.Sec('s%d' % (i % 7), 1, data=b'') for i in range(0xff00 + rng.randrange(3) - len(secs))]
        kw['shstr_at'] = None        # string table index >= 0xff00 as well
    elif big == 'segments':
        # both sides of the escape value: 0xff00 and 0xfffe are ordinary counts, 0xffff and above use section 0
        total = [0xfffe, 0xffff, 0xff00, 0x10000, 0x10001][big_variant % 5]
        kw['segments'] = segs + [elfgen.Seg(type=1, offset=i, filesz=0) for i in range(total - len(segs))]
    img, info = elfgen.build(**kw)
    info['kw'] = kw
    return img, info


def check(img, info, rng, sh, sample_only=None):
    from elftools.elf.elffile import ELFFile
    kw = info['kw']
    cls, le, machine = kw['cls'], kw['le'], kw['machine']
    st = TracedBytesIO(img)
    ef = ELFFile(st)
    h = ef.header
    want = info['hdr']
    for k in ('e_entry', 'e_phoff', 'e_shoff', 'e_flags', 'e_ehsize', 'e_phentsize', 'e_phnum', 'e_shentsize', 'e_shnum', 'e_shstrndx'):
        if h[k] != want[k]:
            raise Bad('file header field %s' % k, got=h[k], want=want[k])
    coded('EM_', want['e_machine'], h['e_machine'], machine, 'e_machine')
    coded('ET_', want['e_type'], h['e_type'], machine, 'e_type')
    coded('EV_', want['e_version'], h['e_version'], machine, 'e_version')
    idn = h['e_ident']
    if (ef.elfclass, ef.little_endian, idn['EI_CLASS'], idn['EI_DATA'], idn['EI_ABIVERSION'], list(idn['EI_MAG'])) != \
            (cls, le, 'ELFCLASS%d' % cls, 'ELFDATA2LSB' if le else 'ELFDATA2MSB', kw['abiversion'], [0x7f, 0x45, 0x4c, 0x46]):
        raise Bad('identification fields')
    coded('ELFOSABI_', kw['osabi'], idn['EI_OSABI'], machine, 'EI_OSABI')
    if ef.e_ident_raw != img[:16]:
        raise Bad('e_ident_raw')
    secs, shdrs = info['secs'], info['shdrs']
    poison([st], rng)
    if ef.num_sections() != len(secs):
        raise Bad('num_sections%s' % (' (escape)' if want['e_shnum'] == 0 else ''), got=ef.num_sections(), want=len(secs))
    if ef.num_segments() != len(info['segs']):
        raise Bad('num_segments%s' % (' (escape)' if want['e_phnum'] == 0xffff else ''), got=ef.num_segments(), want=len(info['segs']))
    if ef.get_shstrndx() != info['shstrndx']:
        raise Bad('get_shstrndx%s' % (' (escape)' if want['e_shstrndx'] == 0xffff else ''), got=ef.get_shstrndx(), want=info['shstrndx'])
    idxs = range(len(secs)) if sample_only is None else sample_only
    got_secs = {}
    it = ef.iter_sections() if sample_only is None else ((ef.get_section(i)) for i in idxs)
    for i, s in zip(idxs, it):
        got_secs[i] = s
        e, hd = secs[i], shdrs[i]
        if i % 5 == 0:
            poison([st], rng)
        for k in ('sh_name', 'sh_flags', 'sh_addr', 'sh_offset', 'sh_size', 'sh_link', 'sh_info', 'sh_addralign', 'sh_entsize'):
            if s[k] != hd[k]:
                raise Bad('section header field %s (class %d, %s)' % (k, cls, 'LSB' if le else 'MSB'), index=i, got=s[k], want=hd[k])
        coded('SHT_', hd['sh_type'], s['sh_type'], machine, 'sh_type')
        wn = e.nbytes().decode('utf-8', 'replace')
        if s.name != wn:
            raise Bad('section name', index=i, got=s.name, want=wn)
        wc = seckinds.expected_class(hd['sh_type'], wn, machine)
        if type(s).__name__ != wc:
            raise Bad('section object kind: %s for type %#x, expected %s' % (type(s).__name__, hd['sh_type'], wc), machine=machine)
        sh.sig(('sec', wc if wc != 'Section' else hex(hd['sh_type']), machine if machine in MACHINES_SW else 'other'))
    if sample_only is None and len(got_secs) != len(secs):
        raise Bad('iter_sections length', got=len(got_secs), want=len(secs))
    # random access agrees with enumeration
    for i in (list(idxs) if len(secs) < 12 else rng.sample(list(idxs), 12)):
        poison([st], rng)
        s = ef.get_section(i)
        if s.header != got_secs[i].header or s.name != got_secs[i].name or type(s) is not type(got_secs[i]):
            raise Bad('get_section(i) differs from enumeration', index=i)
    # lookups by name
    allnames = [e.nbytes().decode('utf-8', 'replace') for e in secs]
    qs = set(allnames if len(allnames) < 30 else rng.sample(allnames, 30)) | {'.absent', 'x' * 5}
    for n in qs:
        poison([st], rng)
        idx = ef.get_section_index(n)
        s = ef.get_section_by_name(n)
        if n in allnames:
            if idx is None or allnames[idx] != n or s is None or s.name != n or not ef.has_section(n):
                raise Bad('lookup of a present section name', name=n, idx=idx)
            if s.header != ef.get_section(idx).header:
                raise Bad('get_section_by_name disagrees with get_section(get_section_index)')
        elif idx is not None or s is not None or ef.has_section(n):
            raise Bad('lookup of an absent section name returned something', name=n)
    # type filters
    if sample_only is None:
        present = []
        for s in got_secs.values():
            if s['sh_type'] not in present:
                present.append(s['sh_type'])
        for t in present[:4] + ['SHT_NOSUCH']:
            g = [x['sh_offset'] for x in ef.iter_sections(type=t)]
            w = [x['sh_offset'] for x in got_secs.values() if x['sh_type'] == t]
            if g != w:
                raise Bad('iter_sections(type=...) filter', type=t)
    # segments
    segs = info['segs']
    got = list(ef.iter_segments()) if len(segs) < 200 else None
    sidx = range(len(segs)) if got is not None else rng.sample(range(len(segs)), 40) + [0, len(segs) - 1]
    for i in sidx:
        g = got[i] if got is not None else ef.get_segment(i)
        e = segs[i]
        wantf = dict(p_offset=e.offset, p_vaddr=e.vaddr, p_paddr=e.paddr, p_filesz=e.filesz, p_memsz=e.memsz,
                     p_flags=e.flags, p_align=e.align)
        for k, v in wantf.items():
            if g[k] != v:
                raise Bad('segment header field %s (class %d, %s, entry size +%d)' % (k, cls, 'LSB' if le else 'MSB', kw['phent_extra']),
                          index=i, got=g[k], want=v)
        coded('PT_', e.type, g['p_type'], machine, 'p_type')
        wc = SEG_CLASS.get(e.type, 'Segment')
        if type(g).__name__ != wc:
            raise Bad('segment object kind: %s for type %#x' % (type(g).__name__, e.type))
        sh.sig(('seg', wc if wc != 'Segment' else hex(e.type), machine if machine in MACHINES_SW else 'other'))
        if got is not None and ef.get_segment(i).header != g.header:
            raise Bad('get_segment(i) differs from enumeration')
    if got is not None:
        present = []
        for g in got:
            if g['p_type'] not in present:
                present.append(g['p_type'])
        for t in present[:3]:
            if [x.header for x in ef.iter_segments(type=t)] != [x.header for x in got if x['p_type'] == t]:
                raise Bad('iter_segments(type=...) filter', type=t)


def run_case(kind, idx, rng, sh):
    big = None
    if kind == 'big':
        big = 'sections' if idx % 2 == 0 else 'segments'
    img, info = gen_image(rng, big, big_variant=idx // 2 + (sh.seed if sh.tier == 'quick' else 0))
    kw = info['kw']
    try:
        n = len(info['secs'])
        check(img, info, rng, sh, sample_only=None if n < 5000 else sorted(set(rng.sample(range(n), 300) + [0, 1, n - 1, n - 2, info['shstrndx']])))
    except Bad as b:
        sh.violation('C01:' + b.key, cls=kw['cls'], le=kw['le'], **b.d)
        return
    sh.held((kw['cls'], kw['le'], kw['machine'] if kw['machine'] in MACHINES_SW else 'other', kw['order'],
             kw['shent_extra'], kw['phent_extra'], kw['esc_shnum'], kw['esc_phnum'], kw['esc_shstrndx'], big))
    sh.sample({'class': kw['cls'], 'little_endian': kw['le'], 'machine': kw['machine'], 'order': kw['order'],
               'sections': len(info['secs']), 'segments': len(info['segs']), 'escapes': [k for k in ('esc_shnum', 'esc_phnum', 'esc_shstrndx') if kw[k]],
               'big': big, 'image_bytes': len(img)}, kind=kind)


# ---- cross-validation of the image writer against llvm-readobj (a third implementation)
import re
from .. import oracles
KINDS['big'] = (4, 10, 1)
KINDS['xval'] = (32, 320, 2)
_base_run_case = run_case
_SEC = re.compile(r'Section \{\s+Index: (\d+)\s+Name: .*?\((\d+)\)\s+Type: .*?\((0x[0-9A-Fa-f]+)\)\s+Flags \[ \((0x[0-9A-Fa-f]+)\)'
                  r'.*?\]\s+Address: (0x[0-9A-Fa-f]+)\s+Offset: (0x[0-9A-Fa-f]+)\s+Size: (\d+)\s+Link: (\d+)\s+Info: (\d+)\s+'
                  r'AddressAlignment: (\d+)\s+EntrySize: (\d+)', re.S)
_SEG = re.compile(r'ProgramHeader \{\s+Type: .*?\((0x[0-9A-Fa-f]+)\)\s+Offset: (0x[0-9A-Fa-f]+)\s+VirtualAddress: (0x[0-9A-Fa-f]+)\s+'
                  r'PhysicalAddress: (0x[0-9A-Fa-f]+)\s+FileSize: (\d+)\s+MemSize: (\d+)\s+Flags \[ \((0x[0-9A-Fa-f]+)\).*?\]\s+Alignment: (\d+)', re.S)


def run_case(kind, idx, rng, sh):
    if kind != 'xval':
        return _base_run_case(kind, idx, rng, sh)
    if not oracles.have('llvm-readobj'):
        sh.skip('llvm-readobj missing')
        return
    img, info = gen_image(rng, plain=True)
    with oracles.Scratch() as s:
        p = s.write('x.elf', img)
        rc, out, err = oracles.run(['llvm-readobj', '--sections', '--program-headers', p])
    if rc != 0:
        sh.skip('llvm-readobj failed')
        return
    got = [(int(m.group(1)), int(m.group(2)), int(m.group(3), 16), int(m.group(4), 16), int(m.group(5), 16), int(m.group(6), 16),
            int(m.group(7)), int(m.group(8)), int(m.group(9)), int(m.group(10)), int(m.group(11))) for m in _SEC.finditer(out)]
    want = [(i, h['sh_name'], h['sh_type'], h['sh_flags'], h['sh_addr'], h['sh_offset'], h['sh_size'], h['sh_link'], h['sh_info'],
             h['sh_addralign'], h['sh_entsize']) for i, h in enumerate(info['shdrs'])]
    gseg = [(int(m.group(1), 16), int(m.group(2), 16), int(m.group(3), 16), int(m.group(4), 16), int(m.group(5)), int(m.group(6)),
             int(m.group(7), 16), int(m.group(8))) for m in _SEG.finditer(out)]
    wseg = [(g.type, g.offset, g.vaddr, g.paddr, g.filesz, g.memsz, g.flags, g.align) for g in info['segs']]
    if info['kw']['esc_shnum'] or info['kw']['esc_phnum'] or info['kw']['esc_shstrndx']:
        # the escape rewrites three fields of section header 0; llvm shows them as stored
        want[0] = got[0] if got else want[0]
    if got != want or gseg != wseg:
        if len(got) != len(want) and 'warning' in err:
            sh.skip('llvm-readobj declined (warning)')
            return
        sh.dispute('image writer vs llvm-readobj')
        k = next((i for i, (a, b) in enumerate(zip(got, want)) if a != b), None)
        sh.extra.setdefault('disputes', []).append({'case': idx, 'first_section': k, 'got': got[k] if k is not None else len(got),
                                                    'want': want[k] if k is not None else len(want), 'segments_equal': gseg == wseg})
        return
    sh.count('xval_images_agreeing_with_llvm_readobj')
    sh.count('xval_headers', len(want) + len(wseg))
    sh.held(('xval', info['kw']['cls'], info['kw']['le']))
