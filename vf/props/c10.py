"""C10 - answers do not depend on query history or stream position.

The model of a query is the same query on a freshly opened object. Two exploration modes:
bounded-exhaustive breadth-first search over operation sequences with abstract-state
deduplication on small generated files, and long random histories on corpus binaries and
larger generated files; the streams are repositioned before every operation and at iterator
yields, and cache invariants are checked after every operation."""
import glob
import io
import itertools
import os

from .. import REPO
from ..gen import dwarfgen as G, linegen
from ..monitor import TracedBytesIO, poison

PROP = 'C10'
LEVEL = 'model_checking'
RULE = ('(bfs) small generated DWARF sets (2-3 units, <= 14 entries, sibling attributes in each '
        'reference form, type units, line programs): breadth-first over all sequences of a 40-70 operation '
        'alphabet (unit lookup exact/containing, top entry, full and partial iteration, per-entry random '
        'access, parent, full/partial children, siblings, reference following, type-unit lookups, line '
        'program header/entries, two iterators advanced alternately) with deduplication on the abstract '
        'cache state (cached units/entries, parent/terminator links, lazily built tables); a state is '
        'restored by replaying the shortest path on a fresh object; every operation is applied to every '
        'distinct state up to the depth/state bound. (hist) random histories of 60-400 operations on '
        'corpus binaries and generated files at the DWARF level and at the ELF level (sections, data, '
        'segments, address mapping, symbols, hash lookups, tags, notes, relocations, versions, strings); '
        'every other ELF history re-uses the section/segment objects it was handed; (hist_obj) 6-30 calls to ONE '
        'section object, every corpus file and every class in turn, scarce classes first; walks (symbols, tags, '
        'notes, relocations incl. RELR) are interrupted by other uses of the stream between two steps and judged '
        'against the undisturbed walk of a fresh object. '
        'Oracle: digest equality with the fresh-object answer; cache invariants after every operation.')
ASSUMPTIONS = [
    'the abstract state is a hash of the private cache attributes (read, never written); replay '
    'determinism is itself checked (a replayed path must reproduce the recorded abstract state)',
    'exhaustive means: over the abstract cache states reachable within the depth/state bound on the '
    'files used',
    'exceptions compare by type; digests cover public attributes only',
]
KINDS = {'bfs': (16, 32, 1), 'hist_dwarf': (48, 1200, 2), 'hist_elf': (48, 1200, 2), 'hist_obj': (400, 8000, 8), 'hist_cfi': (60, 1500, 4), 'hist_lists': (80, 2000, 4)}
FLOOR = {'quick': 5000, 'thorough': 100000}
CASE_TIMEOUT = 3000
STEP_BUDGET = 2000000000
BFS_LIMITS = {'quick': (8, 9000), 'thorough': (12, 150000)}     # (depth bound, transition budget per file)
REACH = ['elftools.dwarf.dwarfinfo:DWARFInfo._cached_CU_at_offset', 'elftools.dwarf.compileunit:CompileUnit._get_cached_DIE',
         'elftools.dwarf.compileunit:CompileUnit.iter_DIE_children', 'elftools.dwarf.die:DIE._search_ancestor_offspring',
         'elftools.dwarf.dwarfinfo:DWARFInfo.get_CU_containing', 'elftools.common.utils:preserve_stream_pos']


# ------------------------------------------------------------------ digests
def ddig(d):
    if d is None:
        return None
    return (d.offset, d.size, d.tag, d.abbrev_code, d.has_children,
            tuple((a.name, a.form, repr(a.raw_value), repr(a.value), a.offset) for a in d.attributes.values()))


def lp_header_dig(lp):
    h = lp.header
    fe = h['file_entry'] or ()
    return (h['unit_length'], h['version'], h['opcode_base'], tuple(h['include_directory'] or ()),
            tuple((f.name, f.dir_index, f.mtime, f.length) for f in fe))


def lp_rows_dig(lp):
    out = []
    for e in lp.get_entries():
        s = e.state
        out.append((e.command, e.is_extended, repr(e.args)[:60], None if s is None else
                    (s.address, s.op_index, s.file, s.line, s.column, bool(s.is_stmt), bool(s.basic_block), bool(s.end_sequence),
                     bool(s.prologue_end), bool(s.epilogue_begin), s.isa, s.discriminator)))
    return tuple(out)


# ------------------------------------------------------------------ DWARF operations
def dwarf_apply(di, op, units_by_off=None):
    k = op[0]
    try:
        if k == 'cu_at':
            return di.get_CU_at(op[1]).cu_offset
        if k == 'cu_cont':
            return di.get_CU_containing(op[1]).cu_offset
        if k == 'iter_cus':
            return tuple(c.cu_offset for c in itertools.islice(di.iter_CUs(), op[1]))
        if k == 'top':
            return ddig(di.get_CU_at(op[1]).get_top_DIE())
        if k == 'iter_all':
            return tuple(ddig(d) for d in di.get_CU_at(op[1]).iter_DIEs())
        if k == 'iter_n':
            return tuple(ddig(d) for d in itertools.islice(di.get_CU_at(op[1]).iter_DIEs(), op[2]))
        if k == 'interleave':
            a = di.get_CU_at(op[1]).iter_DIEs()
            b = di.get_CU_at(op[2]).iter_DIEs()
            out = []
            for _ in range(op[3]):
                for it in (a, b):
                    for d in itertools.islice(it, 2):
                        out.append(ddig(d))
            return tuple(out)
        if k == 'refaddr':
            return ddig(di.get_DIE_from_refaddr(op[2]))
        if k == 'tus':
            return tuple((t.tu_offset, t['signature']) for t in di.iter_TUs())
        if k == 'tu_sig':
            return di.get_TU_by_sig8(op[1]).tu_offset
        if k == 'die_sig':
            return ddig(di.get_DIE_by_sig8(op[1]))
        if k in ('lp_header', 'lp_rows', 'lp_both'):
            lp = di.line_program_for_CU(di.get_CU_at(op[1]))
            if lp is None:
                return None
            if k == 'lp_header':
                return lp_header_dig(lp)
            if k == 'lp_rows':
                return lp_rows_dig(lp)
            return (lp_rows_dig(lp), lp_rows_dig(lp))
        d = di.get_CU_at(op[1]).get_DIE_from_refaddr(op[2])
        if k == 'ref':
            return ddig(d)
        if k == 'parent':
            p = d.get_parent()
            return p and p.offset
        if k == 'kids':
            return tuple(c.offset for c in d.iter_children())
        if k == 'kids1':
            return tuple(c.offset for c in itertools.islice(d.iter_children(), 1))
        if k == 'sibs':
            return tuple(c.offset for c in itertools.islice(d.iter_siblings(), op[3]))
        if k == 'attr':
            return ddig(d.get_DIE_from_attribute(op[3]))
    except Exception as e:
        return ('EXC', type(e).__name__)
    raise ValueError(op)


def absstate(di):
    s = [tuple(di._cu_offsets_map)]
    for cu in di._cu_cache:
        s.append((cu.cu_offset, tuple((d.offset, d._parent.offset if d._parent is not None else None,
                                       d._terminator.offset if d._terminator is not None else None) for d in cu._dielist),
                  cu._abbrev_table is not None))
    s.append(tuple(sorted(di._abbrevtable_cache)))
    s.append(tuple(sorted((k, v._decoded_entries is not None) for k, v in di._linetable_cache.items())))
    tus = di._type_units_by_sig
    s.append(None if tus is None else tuple(sorted((t.cu_offset, tuple((d.offset, d._parent is not None, d._terminator is not None)
                                                                         for d in t._dielist)) for t in tus.values())))
    return hash(tuple(s))


def invariants(di, truth):
    """M3: cache invariants at a quiescent point. truth: {section: {die offset: (parent off, terminator off)}}"""
    m = di._cu_offsets_map
    if any(a >= b for a, b in zip(m, m[1:])) or len(m) != len(di._cu_cache) or \
            any(c.cu_offset != o for c, o in zip(di._cu_cache, m)):
        return 'unit cache not sorted/parallel'
    units = list(di._cu_cache)
    if di._type_units_by_sig:
        units += list(di._type_units_by_sig.values())
    for cu in units:
        dm = cu._diemap
        if any(a >= b for a, b in zip(dm, dm[1:])) or len(dm) != len(cu._dielist) or \
                any(d.offset != o for d, o in zip(cu._dielist, dm)):
            return 'entry cache not sorted/parallel'
        sec = '.debug_types' if hasattr(cu, 'tu_offset') else '.debug_info'
        t = truth.get(sec) if truth else None
        if t is None:
            continue
        for d in cu._dielist:
            if d.offset not in t:
                return 'cached entry at an offset that starts no entry (%d)' % d.offset
            par, term = t[d.offset]
            if d._parent is not None and d._parent.offset != par:
                return 'cached parent link wrong'
            if d._terminator is not None and d._terminator.offset != term:
                return 'cached terminator link wrong'
    return None


def truth_of(B):
    out = {}
    for U in B.units + B.tunits:
        t = out.setdefault(U.section, {})
        for d in U.dies:
            t[d.off] = (d.parent.off if d.parent is not None else None, d.children_term.off if d.children_term is not None else None)
    return out


def gen_small(rng, with_lines, tiny=False):
    """A small DWARF set for exhaustive exploration."""
    for attempt in range(3000):
        le = rng.random() < 0.5
        strtab, lstrtab, line, lunits = bytearray(b'\0'), bytearray(b'\0'), bytearray(), []
        force = None
        top_extra = None
        n = 2 if tiny else rng.choice([2, 2, 3])
        if with_lines:
            for i in range(n):
                u = linegen.gen_unit(rng, le, strtab, lstrtab, nops=rng.choice([3, 8]), allow_unk_std=False)
                u.off = len(line)
                line += u.data
                lunits.append(u)
            force = [dict(fmt=u.fmt, asz=u.asz) for u in lunits]

            def top_extra(ui, ver, fmt, asz):
                form = 'sec_offset' if ver >= 4 else ('data4' if fmt == 32 else 'data8')
                return [(0x10, form, lunits[ui].off)]
        B = G.gen_info_retry(rng, le, nunits=n, small=True, allow_big=False, max_depth=3, max_kids=3, force=force,
                             top_extra=top_extra, shared_abbrev=False if with_lines else None,
                             types_section=rng.random() < 0.3, init_str=bytes(strtab), init_lstr=bytes(lstrtab))
        total = sum(len(U.dies) for U in B.units + B.tunits)
        if (4 <= total <= 7 if tiny else 8 <= total <= 14) and len(B.units) >= 2:
            secs = dict(B.sec)
            if with_lines:
                secs['.debug_line'] = bytes(line)
            return B, secs, le, lunits
    raise RuntimeError('no small set found')   # pragma: generator search exhausted


def alphabet(B, has_lines, rng, per_die_cap=10):
    ops = []
    for U in B.units:
        ops += [('cu_at', U.off), ('cu_cont', U.off + U.size - 1), ('cu_cont', U.off + U.hdrlen), ('top', U.off), ('iter_all', U.off),
                ('iter_n', U.off, 2)]
        if has_lines:
            ops += [('lp_header', U.off), ('lp_rows', U.off)]
    if len(B.units) >= 2:
        ops += [('interleave', B.units[0].off, B.units[1].off, 2), ('iter_cus', 1), ('iter_cus', 99)]
    dies = [(U, d) for U in B.units for d in U.dies]
    if len(dies) > per_die_cap:
        dies = rng.sample(dies, per_die_cap)
    for U, d in dies:
        ops += [('ref', U.off, d.off), ('parent', U.off, d.off)]
        if not d.null:
            if d.ch:
                ops += [('kids', U.off, d.off), ('kids1', U.off, d.off)]
            if d.parent is not None:
                ops.append(('sibs', U.off, d.off, 1))
            for a in d.attrs:
                if a.ref is not None and not isinstance(a.ref, tuple) and a.name != G.AT_SIBLING:
                    ops.append(('attr', U.off, d.off, None, a.name))
    ops.append(('refaddr', None, rng.choice(dies)[1].off))
    # DWARF 5 type units live in .debug_info: the signature table over them is built lazily
    for U in [U for U in B.units if getattr(U, 'ut', None) in ('type', 'split_type')][:2]:
        ops.append(('die_sig', U.signature))
    if B.tunits:
        ops.append(('tus',))
        for T in B.tunits[:2]:
            ops += [('tu_sig', T.signature), ('die_sig', T.signature)]
    return ops


def resolve_attr_names(di, ops):
    """'attr' ops carry the numeric attribute; find the library's name once on a scratch object."""
    out = []
    for op in ops:
        if op[0] == 'attr':
            d = di.get_CU_at(op[1]).get_DIE_from_refaddr(op[2])
            names = [a.name for a in d.attributes.values()]
            idx = None
            for i, a in enumerate(d.attributes.values()):
                if a.form.startswith('DW_FORM_ref') or a.form == 'DW_FORM_ref_addr':
                    idx = i if idx is None else idx
            # pick by position of the numeric attribute in ground truth order
            out.append(op[:3] + (names[op_index(d, op[4], names)],))
        else:
            out.append(op)
    return out


def op_index(d, num, names):
    import elftools.dwarf.enums as E
    for i, n in enumerate(names):
        if (isinstance(n, int) and n == num) or (isinstance(n, str) and E.ENUM_DW_AT.get(n) == num):
            return i
    return 0


def run_bfs(idx, rng, sh):
    with_lines = idx % 3 == 1
    tiny = idx % 2 == 0        # half of the files are tiny so that their state space can close
    B, secs, le, lunits = gen_small(rng, with_lines, tiny)
    truth = truth_of(B)

    def mk():
        return G.make_dwarfinfo(secs, le, TracedBytesIO)
    di0, _ = mk()
    ops = resolve_attr_names(di0, alphabet(B, with_lines, rng))
    has_define_file = any(o[0] == 'ext' and o[1] == 3 for u in lunits for o in u.ops)
    fresh = {}
    for op in ops:
        d, _ = mk()
        fresh[op] = dwarf_apply(d, op)
    depth_bound, cap = BFS_LIMITS[sh.tier]
    d, _ = mk()
    seen = {absstate(d): ()}
    frontier = [()]
    transitions = 0
    depth = 0
    closed = False
    known_fid = 'lineprogram_header_grows_after_decoding'
    expanded = 0
    out_of_budget = False
    while frontier and depth < depth_bound and not out_of_budget:
        nxt = []
        for path in frontier:
            if transitions >= cap:
                out_of_budget = True        # remaining frontier states stay unexpanded (reported)
                break
            expanded += 1
            for op in ops:
                d, streams = mk()
                st = list(streams.values())
                for p in path:
                    poison(st, rng)
                    dwarf_apply(d, p)
                poison(st, rng)
                r = dwarf_apply(d, op)
                transitions += 1
                if r != fresh[op]:
                    if op[0] == 'lp_header' and has_define_file and known_fid in sh.quirks and \
                            isinstance(r, tuple) and isinstance(fresh[op], tuple) and r[:4] == fresh[op][:4] and \
                            r[4][:len(fresh[op][4])] == fresh[op][4] and ('lp_rows', op[1]) in path:
                        sh.known[known_fid] += 1
                    else:
                        sh.note_violation('C10:answer differs from the fresh-object answer (%s)' % op[0],
                                          path=list(path), op=op, got=repr(r)[:300], fresh=repr(fresh[op])[:300])
                        sh.held(n=transitions)
                        return
                inv = invariants(d, truth)
                if inv:
                    sh.note_violation('C10:cache invariant broken: %s' % inv, path=list(path), op=op)
                    sh.held(n=transitions)
                    return
                h = absstate(d)
                if h not in seen:
                    seen[h] = path + (op,)
                    nxt.append(path + (op,))
        if out_of_budget:
            break
        depth += 1
        frontier = nxt
        if not nxt:
            closed = True
    # replay determinism: a recorded path must reproduce its abstract state
    for h, path in list(seen.items())[:: max(1, len(seen) // 25)]:
        d, streams = mk()
        for p in path:
            poison(list(streams.values()), rng)
            dwarf_apply(d, p)
        if absstate(d) != h:
            sh.harness_errors.append({'case': sh.cur, 'error': 'replay of a recorded path did not reproduce its abstract state (hidden state?)'})
            return
    sh.held(n=transitions)
    for h in seen:
        sh.sig(('state', idx, h))
    sh.count('bfs_states', len(seen))
    sh.count('bfs_transitions', transitions)
    sh.count('bfs_files_closed' if closed else 'bfs_files_bounded')
    sh.extra['max_bfs_depth_reached'] = depth
    sh.extra.setdefault('bfs', []).append({'file': idx, 'units': len(B.units), 'type_units': len(B.tunits),
                                           'entries': sum(len(U.dies) for U in B.units + B.tunits), 'line_programs': with_lines,
                                           'alphabet': len(ops), 'states': len(seen), 'states_fully_expanded': expanded, 'transitions': transitions, 'depth': depth,
                                           'frontier_closed': closed})
    sh.sample({'mode': 'bfs', 'alphabet': [list(o) for o in ops[:12]], 'states': len(seen), 'transitions': transitions,
               'depth': depth, 'closed': closed}, kind='bfs')


# ------------------------------------------------------------------ random histories (DWARF)
def corpus_dwarf_files():
    out = []
    for f in sorted(glob.glob(os.path.join(REPO, 'test', 'testfiles_for_*', '*'))):
        if os.path.isfile(f) and 2000 < os.path.getsize(f) < 400000:
            out.append(f)
    return out


def run_hist_dwarf(idx, rng, sh):
    from elftools.elf.elffile import ELFFile
    from elftools.common.exceptions import ELFError
    use_corpus = idx % 2 == 0
    truth = None
    if use_corpus:
        files = corpus_dwarf_files()
        rng.shuffle(files)
        data = None
        for f in files[:30]:
            with open(f, 'rb') as fh:
                d = fh.read()
            if d[:4] != b'\x7fELF':
                continue
            try:
                ef = ELFFile(io.BytesIO(d))
                if ef.has_dwarf_info(strict=True) and ef['e_type'] != 'ET_REL' or (ef.has_dwarf_info(strict=True) and ef.get_machine_arch() in ('x64', 'x86', 'ARM', 'AArch64', 'MIPS')):
                    di = ef.get_dwarf_info()
                    if sum(1 for _ in di.iter_CUs()) >= 1:
                        data, name = d, os.path.basename(f)
                        break
            except Exception:
                continue
        if data is None:
            sh.skip('no corpus file with DWARF')
            return

        def mk():
            return ELFFile(io.BytesIO(data)).get_dwarf_info(), []
        le = None
    else:
        le = rng.random() < 0.5
        strtab, lstrtab, line, lunits = bytearray(b'\0'), bytearray(b'\0'), bytearray(), []
        n = rng.choice([2, 4, 6])
        for i in range(n):
            u = linegen.gen_unit(rng, le, strtab, lstrtab, allow_unk_std=False)
            u.off = len(line)
            line += u.data
            lunits.append(u)

        def top_extra(ui, ver, fmt, asz):
            return [(0x10, 'sec_offset' if ver >= 4 else ('data4' if fmt == 32 else 'data8'), lunits[ui].off)]
        B = G.gen_info_retry(rng, le, nunits=n, force=[dict(fmt=u.fmt, asz=u.asz) for u in lunits], top_extra=top_extra,
                             shared_abbrev=False, allow_big=False, types_section=True, init_str=bytes(strtab), init_lstr=bytes(lstrtab))
        secs = dict(B.sec)
        secs['.debug_line'] = bytes(line)
        truth = truth_of(B)
        name = 'generated'

        def mk():
            d, s = G.make_dwarfinfo(secs, le, TracedBytesIO)
            return d, list(s.values())
    # learn the structure from one scratch object
    d0, _ = mk()
    cus = list(d0.iter_CUs())
    cu_offs = [c.cu_offset for c in cus]
    die_offs = {}
    refattrs = {}
    for c in cus[:8]:
        offs = []
        for d in itertools.islice(c.iter_DIEs(), 400):
            offs.append(d.offset)
            for a in d.attributes.values():
                if a.form in ('DW_FORM_ref1', 'DW_FORM_ref2', 'DW_FORM_ref4', 'DW_FORM_ref8', 'DW_FORM_ref_udata', 'DW_FORM_ref_addr') \
                        and a.name != 'DW_AT_sibling':
                    refattrs.setdefault(c.cu_offset, []).append((d.offset, a.name))
        die_offs[c.cu_offset] = offs
    sizes = {c.cu_offset: c.size for c in cus}
    tus = []
    try:
        tus = [t['signature'] for t in d0.iter_TUs()]
    except Exception:
        pass
    # DWARF 5 type units of .debug_info are found through the same signature queries
    tus += [c['type_signature'] for c in cus if 'type_signature' in c.header]
    if not die_offs:
        sh.skip('no unit in .debug_info')
        return

    def rand_op():
        k = rng.choice(['cu_at', 'cu_cont', 'top', 'iter_n', 'iter_n', 'ref', 'ref', 'parent', 'kids', 'kids1', 'sibs', 'attr', 'refaddr',
                        'lp_header', 'lp_rows', 'interleave', 'iter_cus', 'tu_sig', 'die_sig'])
        u = rng.choice(list(die_offs))
        if k == 'cu_at':
            return (k, rng.choice(cu_offs))
        if k == 'cu_cont':
            c = rng.choice(cu_offs)
            return (k, c + rng.choice([0, 1, sizes[c] - 1, sizes[c] // 2]))
        if k == 'top':
            return (k, u)
        if k == 'iter_n':
            return (k, u, rng.choice([1, 3, 10, 50, 400]))
        if k in ('ref', 'parent', 'kids', 'kids1'):
            return (k, u, rng.choice(die_offs[u]))
        if k == 'sibs':
            return (k, u, rng.choice(die_offs[u][1:] or die_offs[u]), rng.choice([1, 3]))
        if k == 'attr':
            if not refattrs.get(u):
                return ('top', u)
            o, n = rng.choice(refattrs[u])
            return (k, u, o, n)
        if k == 'refaddr':
            return (k, None, rng.choice(die_offs[u]))
        if k in ('lp_header', 'lp_rows'):
            return (k, u)
        if k == 'interleave':
            return (k, u, rng.choice(list(die_offs)), rng.choice([1, 3]))
        if k == 'iter_cus':
            return (k, rng.choice([1, 2, 99]))
        if k in ('tu_sig', 'die_sig'):
            return (k, rng.choice(tus)) if tus else ('top', u)
    fresh = {}
    nops = rng.choice([60, 120, 400]) if sh.tier == 'thorough' else rng.choice([60, 120])
    d, st = mk()
    hist = []
    fid = 'lineprogram_header_grows_after_decoding'
    for i in range(nops):
        op = rand_op()
        if st:
            poison(st, rng)
        got = dwarf_apply(d, op)
        if op not in fresh:
            f, _ = mk()
            fresh[op] = dwarf_apply(f, op)
        if got != fresh[op]:
            if op[0] == 'lp_header' and fid in sh.quirks and isinstance(got, tuple) and isinstance(fresh[op], tuple) and \
                    got[:4] == fresh[op][:4] and got[4][:len(fresh[op][4])] == fresh[op][4] and any(h[0] == 'lp_rows' for h in hist):
                sh.known[fid] += 1
            else:
                sh.note_violation('C10:history-dependent answer (%s, %s)' % (op[0], 'corpus file' if use_corpus else 'generated'),
                                  file=name, op=op, history=hist[-12:], got=repr(got)[:300], fresh=repr(fresh[op])[:300])
                break
        inv = invariants(d, truth)
        if inv:
            sh.note_violation('C10:cache invariant broken: %s' % inv, file=name, history=hist[-12:], op=op)
            break
        hist.append(op)
        sh.sig((op[0], name if use_corpus else 'gen', i // 40))
    sh.held(n=len(hist))
    sh.count('dwarf_history_operations', len(hist))
    sh.sample({'mode': 'history', 'file': name, 'operations': len(hist), 'last': [list(o) for o in hist[-5:]]}, kind='hist_dwarf')


# ------------------------------------------------------------------ random histories (ELF level)
def cdig(c):
    return tuple(sorted((k, repr(v)) for k, v in c.items()))


def sdig(s):
    return None if s is None else (s.name, type(s).__name__, cdig(s.header))


class HeldObjects:
    """Section and segment objects handed out once and used again by later operations of a history, so that whatever
    an object remembers from an earlier (possibly abandoned) walk meets the next query. Everything else goes to the file."""

    refresh = 0.3           # how often an object is handed out anew

    def __init__(self, ef, rng):
        self._ef, self._rng, self._secs, self._segs = ef, rng, {}, {}

    def __getattr__(self, name):
        return getattr(self._ef, name)

    def get_section(self, i):
        if i not in self._secs or self._rng.random() < self.refresh:
            self._secs[i] = self._ef.get_section(i)
        return self._secs[i]

    def get_segment(self, i):
        if i not in self._segs or self._rng.random() < self.refresh:
            self._segs[i] = self._ef.get_segment(i)
        return self._segs[i]


WALKS = ('itersym', 'tags', 'notes', 'segtags', 'segsyms', 'segnotes')


def elf_apply(ef, op):
    k = op[0]
    if k in WALKS and len(op) > 3:
        # the caller uses the shared stream between two steps of the walk (op[3] is None in the reference run)
        pos, op = op[3], op[:3]
        real_islice = itertools.islice

        def disturbed(it, n):
            for j, x in enumerate(real_islice(it, n)):
                yield x
                if pos is not None:
                    ef.stream.seek(pos + j)
        return _elf_apply(ef, op, disturbed)
    return _elf_apply(ef, op, itertools.islice)


def _elf_apply(ef, op, islice):
    k = op[0]
    try:
        if k == 'nsec':
            return ef.num_sections()
        if k == 'sec':
            return sdig(ef.get_section(op[1]))
        if k == 'byname':
            return sdig(ef.get_section_by_name(op[1]))
        if k == 'index':
            return ef.get_section_index(op[1])
        if k == 'has':
            return ef.has_section(op[1])
        if k == 'iter':
            return tuple(sdig(s) for s in itertools.islice(ef.iter_sections(), op[1]))
        if k == 'data':
            return hash(ef.get_section(op[1]).data())
        if k == 'data_twice':          # one Section object asked twice, the stream used in between
            sec = ef.get_section(op[1])
            a = hash(sec.data())
            ef.stream.seek(op[2])
            b = hash(sec.data())
            return b if a == b else ('SECOND-READ-DIFFERS',)
        if k == 'data_after':          # a Section object that is read only after another query
            sec = ef.get_section(op[1])
            ef.get_section_by_name(op[2])
            ef.stream.seek(op[3])
            return hash(sec.data())
        if k == 'seg':
            s = ef.get_segment(op[1])
            return (type(s).__name__, cdig(s.header))
        if k == 'segdata':
            return hash(ef.get_segment(op[1]).data())
        if k == 'addr':
            return tuple(ef.address_offsets(op[1], op[2]))
        if k == 'segtags':
            s = ef.get_segment(op[1])
            return tuple((repr(t.entry), getattr(t, 'needed', None)) for t in islice(s.iter_tags(), op[2]))
        if k == 'segnotes':
            s = ef.get_segment(op[1])
            return tuple(repr(sorted((kk, repr(v)) for kk, v in n.items())) for n in islice(s.iter_notes(), op[2]))
        if k == 'segsymbyname':
            r = ef.get_segment(op[1]).get_symbol_by_name(op[2])
            return None if r is None else tuple((x.name, repr(x.entry)) for x in r)
        if k == 'segsyms':
            s = ef.get_segment(op[1])
            return tuple((x.name, repr(x.entry)) for x in islice(s.iter_symbols(), op[2]))
        s = ef.get_section(op[1])
        if k == 'sym':
            x = s.get_symbol(op[2])
            return (x.name, repr(x.entry))
        if k == 'symbyname':
            r = s.get_symbol_by_name(op[2])
            return None if r is None else tuple((x.name, repr(x.entry)) for x in r)
        if k == 'itersym':
            return tuple((x.name, repr(x.entry)) for x in islice(s.iter_symbols(), op[2]))
        if k == 'tags':
            return tuple((repr(t.entry), getattr(t, 'needed', None)) for t in islice(s.iter_tags(), op[2]))
        if k == 'ntags':
            return s.num_tags()
        if k == 'notes':
            return tuple(repr(sorted((kk, repr(v)) for kk, v in n.items())) for n in islice(s.iter_notes(), op[2]))
        if k == 'rel':
            return repr(s.get_relocation(op[2]).entry)
        if k == 'iterrel':          # a walk during which the caller uses the stream (reading the in-place addends, say)
            out = []
            for r in itertools.islice(s.iter_relocations(), op[2]):
                out.append(repr(r.entry))
                if op[3] is not None:
                    ef.stream.seek(op[3] + len(out))
            return tuple(out)
        if k == 'iterrel_look':     # a walk that looks one entry ahead by index on the same object
            out = []
            nrel = s.num_relocations()
            for j, r in enumerate(itertools.islice(s.iter_relocations(), op[2])):
                out.append(repr(r.entry))
                if j + 1 < nrel:
                    s.get_relocation(j + 1)
            return tuple(out)
        if k == 'iterrel_zip':      # two walks of one object advanced in turns
            return tuple(repr(a.entry) for a, b in itertools.islice(zip(s.iter_relocations(), s.iter_relocations()), op[2]))
        if k == 'hasidx':
            return s.has_indexes() if hasattr(s, 'has_indexes') else None
        if k == 'hash':
            r = s.get_symbol(op[2])
            return None if r is None else (r.name, repr(r.entry))
        if k == 'hashcount':
            return s.get_number_of_symbols()
        if k == 'vers':
            return tuple((repr(v.entry), tuple((a.name, repr(a.entry)) for a in it)) for v, it in s.iter_versions())
        if k == 'getver':
            r = s.get_version(op[2])
            return None if r is None else repr(r[0].entry)
        if k == 'versym':
            x = s.get_symbol(op[2])
            return (x.name, repr(x.entry))
        if k == 'getstr':
            return s.get_string(op[2])
        if k == 'attrs':
            return tuple((ss['vendor_name'], tuple((x.header.tag, tuple((a.tag, repr(a.value)) for a in itertools.islice(x.iter_attributes(), op[2])))
                                                  for x in ss.iter_subsubsections())) for ss in s.iter_subsections())
    except Exception as e:
        return ('EXC', type(e).__name__)
    raise ValueError(op)


def run_hist_elf(idx, rng, sh, focus=False):
    from elftools.elf.elffile import ELFFile
    from elftools.elf.sections import SymbolTableSection, NoteSection, StringTableSection, AttributesSection
    from elftools.elf.dynamic import DynamicSection, DynamicSegment
    from elftools.elf.relocation import RelocationSection
    from elftools.elf.gnuversions import GNUVerNeedSection, GNUVerDefSection, GNUVerSymSection
    from elftools.elf.hash import ELFHashSection, GNUHashSection
    files = [f for f in sorted(glob.glob(os.path.join(REPO, 'test', 'testfiles_for_*', '*')))
             if os.path.isfile(f) and 300 < os.path.getsize(f) < 300000]
    rng.shuffle(files)
    if focus:
        files.sort()            # every corpus file in turn
        files = files[idx % len(files):] + files[:idx % len(files)]
    elif rng.random() < 0.25:     # files with compressed sections first: their content is produced lazily
        files.sort(key=lambda f: 'compress' not in os.path.basename(f))
    elif idx % 6 == 1:          # the file with a RELR table, whose entries are expanded while walking
        files.sort(key=lambda f: 'relro' not in os.path.basename(f))
    data = None
    for f in files[:20]:
        with open(f, 'rb') as fh:
            d = fh.read()
        if d[:4] == b'\x7fELF':
            try:
                ef0 = ELFFile(io.BytesIO(d))
                secs = list(ef0.iter_sections())
                nseg = ef0.num_segments()
                list(ef0.iter_segments())
                if len(secs) > 3:
                    data, name = d, os.path.basename(f)
                    break
            except Exception:
                continue
    if data is None:
        sh.skip('no usable corpus file')
        return
    names = [s.name for s in secs] + ['.nope']
    compressed = [i for i, s in enumerate(secs) if s.compressed]
    symnames = []
    for s in secs:
        if isinstance(s, SymbolTableSection):
            symnames += [x.name for x in itertools.islice(s.iter_symbols(), 60)]
    symnames += ['zzz-absent']
    dynsegs = [i for i in range(nseg) if isinstance(ef0.get_segment(i), DynamicSegment)]
    from elftools.elf.segments import NoteSegment
    notesegs = [i for i in range(nseg) if isinstance(ef0.get_segment(i), NoteSegment)]
    from elftools.elf.relocation import RelrRelocationSection
    M = {'iterrel': (RelocationSection, RelrRelocationSection), 'iterrel_look': (RelocationSection, RelrRelocationSection),
         'iterrel_zip': (RelocationSection, RelrRelocationSection), 'hasidx': GNUVerNeedSection, 'sym': SymbolTableSection, 'symbyname': SymbolTableSection, 'itersym': SymbolTableSection, 'tags': DynamicSection,
         'ntags': DynamicSection, 'notes': NoteSection, 'rel': RelocationSection, 'hash': (ELFHashSection, GNUHashSection),
         'hashcount': (ELFHashSection, GNUHashSection), 'vers': (GNUVerNeedSection, GNUVerDefSection),
         'getver': (GNUVerNeedSection, GNUVerDefSection), 'versym': GNUVerSymSection, 'getstr': StringTableSection,
         'attrs': AttributesSection}

    # focus mode: the whole history goes to ONE section object (never handed out anew), so that anything the object keeps
    # from one call - a table filled by a walk that was given up, a position, a flag - meets every other call
    fi = None
    if focus:
        cands = [i for i, x in enumerate(secs) if any(isinstance(x, c) for c in M.values())]
        if not cands:
            sh.skip('no section of a class with state of its own')
            return
        # rarer classes first
        rare = [i for i in cands if not isinstance(secs[i], (SymbolTableSection, StringTableSection))]
        # every class the file has in turn (the file itself comes round again after len(files) cases)
        classes = sorted({type(secs[i]).__name__ for i in (rare or cands)})
        # the classes few corpus files have come first; round r of the rotation through the files takes the r-th class
        prio = ['RelrRelocationSection', 'GNUVerDefSection', 'SUNWSyminfoTableSection', 'ELFHashSection', 'RISCVAttributesSection',
                'GNUVerNeedSection', 'GNUHashSection', 'GNUVerSymSection', 'ARMAttributesSection', 'DynamicSection', 'NoteSection',
                'RelocationSection', 'StringTableSection', 'SymbolTableSection']
        classes.sort(key=lambda c: prio.index(c) if c in prio else len(prio))
        want_cls = classes[(idx // max(1, len(files))) % len(classes)]
        fi = rng.choice([i for i in (rare or cands) if type(secs[i]).__name__ == want_cls])
        fkinds = [k for k in M if isinstance(secs[fi], M[k])]

    def rand_op():
        k = rng.choice(fkinds + ['data', 'sec']) if focus else rng.choice(
            ['nsec', 'sec', 'byname', 'index', 'has', 'iter', 'data', 'data_twice', 'data_after', 'seg', 'segdata', 'addr', 'segtags',
             'segsyms', 'segsymbyname', 'segnotes'] + list(M))
        if focus and k in ('data', 'sec'):
            return (k, fi)
        if k == 'nsec':
            return (k,)
        if k in ('data_twice', 'data_after'):
            i = rng.choice(compressed) if compressed and rng.random() < 0.6 else rng.randrange(len(secs))
            return (k, i, rng.randrange(len(data))) if k == 'data_twice' else (k, i, rng.choice(names), rng.randrange(len(data)))
        if k in ('sec', 'data'):
            return (k, rng.randrange(len(secs)))
        if k in ('byname', 'index', 'has'):
            return (k, rng.choice(names))
        if k == 'iter':
            return (k, rng.randint(1, len(secs)))
        if k in ('seg', 'segdata'):
            return (k, rng.randrange(nseg)) if nseg else ('nsec',)
        if k == 'addr':
            return (k, rng.choice([0x400000, 0x400100, 0x601000, 0x1000, 0x10000, 0, 0x8000, 0x10074]), rng.choice([1, 8, 0x1000]))
        if k == 'segsymbyname':
            return (k, rng.choice(dynsegs), rng.choice(symnames)) if dynsegs else ('nsec',)
        if k == 'segnotes':
            return ((k, rng.choice(notesegs), rng.randint(1, 6)) + ((rng.randrange(len(data)),) if rng.random() < 0.5 else ())) if notesegs else ('nsec',)
        if k in ('segtags', 'segsyms'):
            return ((k, rng.choice(dynsegs), rng.randint(1, 8)) + ((rng.randrange(len(data)),) if rng.random() < 0.5 else ())) if dynsegs else ('nsec',)
        c = [fi] if focus else [i for i, s in enumerate(secs) if isinstance(s, M[k])]
        if not c:
            return ('nsec',)
        i = rng.choice(c)
        if k == 'sym':
            return (k, i, rng.randrange(max(1, secs[i].num_symbols())))
        if k in ('symbyname', 'hash'):
            return (k, i, rng.choice(symnames))
        if k in ('itersym', 'tags', 'notes', 'attrs'):
            if k != 'attrs' and rng.random() < 0.5:
                return (k, i, rng.randint(2, 6), rng.randrange(len(data)))
            return (k, i, rng.randint(1, 6))
        if k == 'rel':
            return (k, i, rng.randrange(max(1, secs[i].num_relocations())))
        if k == 'iterrel':
            return (k, i, rng.randint(2, 12), rng.randrange(len(data)))
        if k in ('iterrel_look', 'iterrel_zip'):
            return (k, i, rng.randint(2, 12))
        if k == 'versym':
            return (k, i, rng.randrange(max(1, secs[i].num_symbols())))
        if k == 'getver':
            return (k, i, rng.choice([0, 1, 2, 3, 4, 5, 0x8003]))
        if k == 'getstr':
            return (k, i, rng.randrange(max(1, secs[i]['sh_size'])))
        return (k, i)
    fresh = {}
    hist = []
    st = io.BytesIO(data)
    ef_real = ELFFile(st)
    ef = HeldObjects(ef_real, rng) if idx % 2 or focus else ef_real        # every other history re-uses the objects it was handed
    if focus:
        ef.refresh = 0.0
    truth_names = {}
    for i, s in enumerate(secs):
        truth_names[s.name] = i
    nops = rng.choice([80, 200]) if sh.tier == 'quick' else rng.choice([80, 200, 400])
    if focus:
        nops = rng.choice([6, 12, 30])
    for i in range(nops):
        op = rand_op()
        st.seek(rng.choice([0, len(data), len(data) + 9, rng.randrange(len(data))]))
        got = elf_apply(ef, op)
        # the reference answer of the held-object reads is the plain read of that section on a fresh object
        ref = ('data', op[1]) if op[0] in ('data_twice', 'data_after') else op
        if op[0] == 'iterrel' or (op[0] in WALKS and len(op) > 3):
            ref = op[:3] + (None,)          # the reference walk is the undisturbed one
        if op[0] in ('iterrel_look', 'iterrel_zip'):
            ref = ('iterrel', op[1], op[2], None)
        if ref not in fresh:
            fresh[ref] = elf_apply(ELFFile(io.BytesIO(data)), ref)
        if got != fresh[ref]:
            sh.note_violation('C10:history-dependent answer at the ELF level (%s)' % op[0], file=name, op=op,
                              history=hist[-12:], got=repr(got)[:300], fresh=repr(fresh[ref])[:300])
            break
        m = ef_real._section_name_map
        if m is not None and m != truth_names:
            sh.note_violation('C10:section name map differs from the enumeration', file=name)
            break
        for s in ():
            pass
        hist.append(op)
        sh.sig((op[0], name, i // 50))
    sh.held(n=len(hist))
    sh.count('elf_history_operations', len(hist))
    sh.count('elf_histories_with_held_objects', 1 if focus else idx % 2)
    if focus:
        sh.count('single_object_histories')
        sh.count('single_object_histories:' + type(secs[fi]).__name__)
        sh.sig(('focus', type(secs[fi]).__name__, name))
    sh.sample({'mode': 'single-object history' if focus else 'elf-history', 'file': name, 'held_objects': bool(idx % 2) or focus, 'operations': len(hist), 'last': [list(o) for o in hist[-5:]]}, kind='hist_obj' if focus else 'hist_elf')


def run_hist_cfi(idx, rng, sh):
    """Call-frame entries: decoding one entry must not change what decoding another one (or the same one again,
    or an object returned earlier) shows. Entries of one CIE share that CIE's decoded table."""
    from ..gen import cfigen
    eh = rng.random() < 0.5
    le = rng.random() < 0.5
    asz = rng.choice([4, 8])
    sec, items, secaddr = cfigen.gen_section(rng, le, asz, eh)
    name = '.eh_frame' if eh else '.debug_frame'
    secs = {name: sec, '.debug_info': b'\0' * 16, '.debug_abbrev': b'\0'}

    def entries():
        di, streams = G.make_dwarfinfo(secs, le, TracedBytesIO, default_address_size=asz, addresses={name: secaddr})
        return (di.EH_CFI_entries() if eh else di.CFI_entries()), list(streams.values())

    def tdig(t):
        return (tuple(tuple(sorted((str(k), repr(v)) for k, v in row.items())) for row in t.table), tuple(t.reg_order))

    def apply(ents, op):
        k, i = op
        try:
            e = ents[i]
            if k == 'decode':
                return tdig(e.get_decoded()) if hasattr(e, 'get_decoded') else None
            if k == 'instr':
                return tuple((x.opcode, repr(x.args)) for x in getattr(e, 'instructions', ()))
            if k == 'cie':
                c = getattr(e, 'cie', None)
                return None if c is None else (c.offset, tdig(c.get_decoded()))
        except Exception as ex:
            return ('EXC', type(ex).__name__)
    try:
        ents, st = entries()
    except Exception:
        sh.skip('section not enumerable')
        return
    if not ents:
        sh.held(sig=None)
        return
    fresh = {}
    held = []          # (op, object returned earlier, its digest then)
    hist = []
    for step in range(rng.choice([20, 60])):
        op = (rng.choice(['decode', 'decode', 'instr', 'cie']), rng.randrange(len(ents)))
        poison(st, rng)
        got = apply(ents, op)
        if op not in fresh:
            fe, _ = entries()
            fresh[op] = apply(fe, op)
        if got != fresh[op]:
            sh.note_violation('C10:call-frame answer differs from the fresh-object answer (%s)' % op[0], op=op, history=hist[-10:],
                              got=repr(got)[:300], fresh=repr(fresh[op])[:300], eh=eh)
            return
        if op[0] == 'decode' and hasattr(ents[op[1]], 'get_decoded') and not (isinstance(got, tuple) and got[:1] == ('EXC',)):
            held.append((op, ents[op[1]].get_decoded(), got))
        hist.append(op)
    for op, obj, then in held:
        if tdig(obj) != then:
            sh.note_violation('C10:a decoded call-frame table returned earlier changed afterwards', op=op, history=hist[-10:], eh=eh)
            return
    sh.held(n=len(hist))
    sh.count('cfi_history_operations', len(hist))
    sh.sig(('hist_cfi', eh, le, asz, min(len(ents), 6)))
    sh.sample({'mode': 'cfi-history', 'section': name, 'entries': len(ents), 'operations': len(hist)}, kind='hist_cfi')


def run_hist_lists(idx, rng, sh):
    """Location and range lists: lookups by offset, section walks, per-contribution walks and walks that are interleaved
    with lookups, in random order on one object, each answer compared with a fresh object's answer to the same query."""
    from . import c07
    le = rng.random() < 0.5
    asz = rng.choice([4, 8])
    v5 = rng.random() < 0.6
    secs, units = (c07.gen_v5 if v5 else c07.gen_v4)(rng, le, asz)
    rname, lname = ('.debug_rnglists', '.debug_loclists') if v5 else ('.debug_ranges', '.debug_loc')

    def mk():
        di, streams = G.make_dwarfinfo(secs, le, TracedBytesIO, default_address_size=asz)
        return dict(di=di, rl=di.range_lists(), ll=di.location_lists(), cus=list(di.iter_CUs()), st=list(streams.values()))
    if v5:
        roffs = [(ui, L['off']) for ui, U in enumerate(units) for L in U['rng']['lists']]
        loffs = [(ui, L['off']) for ui, U in enumerate(units) for L in U['loc']['lists']]
    else:
        roffs = [(ui, o) for ui, U in enumerate(units) for o, e in U['rexp']]
        loffs = [(ui, o) for ui, U in enumerate(units) for o, e in U['lexp']]

    def apply(o, op):
        k = op[0]
        try:
            if k == 'rl_at':
                return repr(c07.dr(o['rl'].get_range_list_at_offset(op[2], o['cus'][op[1]]) if v5 else o['rl'].get_range_list_at_offset(op[2])))
            if k == 'rl_at_ex':
                return repr([(e.entry_type, e.entry_offset) for e in o['rl'].get_range_list_at_offset_ex(op[2])])
            if k == 'rl_iter':
                return repr([c07.dr(x) for x in itertools.islice(o['rl'].iter_range_lists(), op[1])])
            if k == 'rl_cus':
                return repr([(h.cu_offset, h.unit_length, h.offset_count) for h in o['rl'].iter_CUs()])
            if k in ('rl_cu_ex', 'rl_cu_ex_mixed'):
                h = list(o['rl'].iter_CUs())[op[1]]
                out = []
                for n, L in enumerate(o['rl'].iter_CU_range_lists_ex(h)):
                    out.append([(e.entry_type, e.entry_offset) for e in L])
                    if n + 1 >= op[2]:
                        break
                    if k == 'rl_cu_ex_mixed':
                        o['rl'].get_range_list_at_offset_ex(op[3])     # another query between two steps of the walk
                return repr(out)
            if k == 'll_at':
                d = o['cus'][op[1]].get_top_DIE()
                return repr(c07.dl(o['ll'].get_location_list_at_offset(op[2], d) if v5 else o['ll'].get_location_list_at_offset(op[2])))
            if k in ('ll_iter', 'll_iter_mixed'):
                out = []
                for n, L in enumerate(o['ll'].iter_location_lists()):
                    out.append(c07.dl(L))
                    if n + 1 >= op[1]:
                        break
                    if k == 'll_iter_mixed':
                        d = o['cus'][op[2]].get_top_DIE()
                        if v5:
                            o['ll'].get_location_list_at_offset(op[3], d)
                        else:
                            o['ll'].get_location_list_at_offset(op[3])
                return repr(out)
            if k == 'rl_iter_mixed':
                out = []
                for n, L in enumerate(o['rl'].iter_range_lists()):
                    out.append(c07.dr(L))
                    if n + 1 >= op[1]:
                        break
                    if v5:
                        o['rl'].get_range_list_at_offset(op[3], o['cus'][op[2]])
                    else:
                        o['rl'].get_range_list_at_offset(op[3])
                return repr(out)
        except Exception as ex:
            return ('EXC', type(ex).__name__)
        raise ValueError(op)

    def rand_op():
        k = rng.choice(['rl_at', 'rl_at', 'rl_iter', 'll_at', 'll_at', 'll_iter', 'll_iter_mixed', 'rl_iter_mixed'] +
                       (['rl_at_ex', 'rl_cus', 'rl_cu_ex', 'rl_cu_ex_mixed', 'rl_cu_ex_mixed'] if v5 else []))
        if k in ('rl_at', 'rl_at_ex'):
            if not roffs:
                return None
            ui, off = rng.choice(roffs)
            return (k, ui, off)
        if k == 'll_at':
            if not loffs:
                return None
            ui, off = rng.choice(loffs)
            return (k, ui, off)
        if k in ('rl_iter', 'll_iter'):
            return (k, rng.choice([1, 2, 3, 100]))
        if k == 'rl_cus':
            return (k,)
        if k in ('rl_cu_ex', 'rl_cu_ex_mixed'):
            if not roffs:
                return None
            ui, off = rng.choice(roffs)
            return (k, rng.randrange(len(units)), rng.choice([2, 3, 100]), off)
        pool = loffs if k == 'll_iter_mixed' else roffs
        if not pool:
            return None
        ui, off = rng.choice(pool)
        return (k, rng.choice([2, 3, 100]), ui, off)
    try:
        obj = mk()
    except Exception:
        sh.skip('file not loadable')
        return
    fresh = {}
    hist = []
    for step in range(rng.choice([15, 40])):
        op = rand_op()
        if op is None:
            continue
        poison(obj['st'], rng)
        got = apply(obj, op)
        if op not in fresh:
            # the reference for a walk with queries in between is the undisturbed walk of a fresh object
            fresh[op] = apply(mk(), (op[0].replace('_mixed', ''),) + op[1:])
        if got != fresh[op]:
            sh.note_violation('C10:list answer differs from the fresh-object answer (%s, %s)' % (op[0], 'v5' if v5 else 'pre-v5'), op=op,
                              history=hist[-10:], got=repr(got)[:300], fresh=repr(fresh[op])[:300])
            return
        hist.append(op)
        sh.sig(('hist_lists', op[0], v5))
    sh.held(n=len(hist))
    sh.count('list_history_operations', len(hist))
    sh.sample({'mode': 'list-history', 'v5': v5, 'units': len(units), 'operations': len(hist)}, kind='hist_lists')


def run_case(kind, idx, rng, sh):
    {'bfs': run_bfs, 'hist_dwarf': run_hist_dwarf, 'hist_elf': run_hist_elf, 'hist_obj': lambda i, r, h: run_hist_elf(i, r, h, focus=True), 'hist_cfi': run_hist_cfi, 'hist_lists': run_hist_lists}[kind](idx, rng, sh)


def finish(m, tier, seed):
    c = m['counters']
    return {'states': max(1, c.get('bfs_states', 0)), 'transitions': max(1, c.get('bfs_transitions', 0) + c.get('dwarf_history_operations', 0) +
                                                                          c.get('elf_history_operations', 0) + c.get('cfi_history_operations', 0) + c.get('list_history_operations', 0)),
            'traces_validated_against_impl': c.get('bfs_transitions', 0) + c.get('dwarf_history_operations', 0) + c.get('elf_history_operations', 0),
            'exhaustive': False,
            'explanation': 'states = distinct abstract cache states reached by breadth-first search on the small files; every '
                           'transition and every history operation was executed on the real implementation and compared with the '
                           'fresh-object answer (there is no separate model to validate: the implementation on a fresh object IS the model)'}


def witness(fid, sh):
    """Committed witness of the open finding: a v3 line program with one DW_LNE_define_file."""
    import json
    from .. import VERIF_DIR
    if fid != 'lineprogram_header_grows_after_decoding':
        return
    with open(os.path.join(VERIF_DIR, 'findings', 'C10', 'define_file_header_growth.json')) as f:
        w = json.load(f)
    secs = {k: bytes.fromhex(v) for k, v in w['sections_hex'].items()}
    di, _ = G.make_dwarfinfo(secs, w['little_endian'])
    cu = next(di.iter_CUs())
    lp = di.line_program_for_CU(cu)
    before = lp_header_dig(lp)
    lp.get_entries()
    after = lp_header_dig(lp)
    if before == after:
        return
    if before[:4] == after[:4] and after[4][:len(before[4])] == before[4] and len(after[4]) == len(before[4]) + w['defined_files']:
        sh.known[fid] += 1
    else:
        sh.violation('C10:witness of %s fails differently' % fid, before=repr(before)[:200], after=repr(after)[:200])
