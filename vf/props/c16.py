"""C16 - primitive decoders invert the standard encodings and consume exact lengths."""
import io
import itertools
import struct

from ..monitor import TracedBytesIO
from ..gen.leb import uleb, sleb

PROP = 'C16'
LEVEL = 'exploration'
RULE = ('direct struct_parse(<primitive>, traced stream) + tell(): every byte string of length '
        '<= 2 (quick; plus a lattice of length 3) or <= 3 (thorough) as a U/SLEB128 prefix with and '
        'without trailing bytes; random LEB128 encodings up to 20 bytes incl. padded and 64-bit '
        'boundary values; 24-bit integers (2^16 stratified / all 2^24 per byte order); fixed-width '
        'integers of every width, order and sign; C strings of length 0..300 around the 64-byte '
        'chunk; length-prefixed blocks and terminated/prefixed arrays; DWARF initial-length classes; '
        'every truncation point. A case is distinct by (decoder, encoding class: length, sign, '
        'padding, boundary class, truncation point).')
ASSUMPTIONS = [
    'the oracle is the arithmetic definition of each encoding (DWARF 5 section 7.6, 7.4; gABI)',
    'consumption is judged by stream.tell() after the call; over-reading followed by a seek back '
    'would be accepted (bytes read are recorded in the evidence)',
]
KINDS = {
    'leb_exh': (256, 256, 4),        # idx = first byte
    'leb_rand': (64, 1600, 8),       # 500 random encodings each
    'int24': (256, 256, 8),          # idx = top byte
    'fixed': (16, 64, 2),
    'cstr': (8, 32, 1),
    'blocks': (16, 160, 2),
    'initlen': (4, 16, 1),
}
FLOOR = {'quick': 100000, 'thorough': 1000000}
REACH = ['elftools.common.construct_utils:ULEB128._parse',
         'elftools.common.construct_utils:SLEB128._parse',
         'elftools.common.utils:parse_cstring_from_stream',
         'elftools.common.utils:struct_parse',
         'elftools.dwarf.structs:_InitialLengthAdapter._decode',
         'elftools.common.construct_utils:RepeatUntilExcluding._parse',
         'elftools.common.utils:read_blob']

_L = {}


def lib():
    if not _L:
        from elftools.common import construct_utils as cu
        from elftools.common import utils
        from elftools.common.exceptions import ELFParseError
        from elftools import construct
        from elftools.dwarf.structs import DWARFStructs
        from elftools.elf.structs import ELFStructs
        _L.update(cu=cu, utils=utils, PE=ELFParseError, con=construct, DS=DWARFStructs,
                  ES=ELFStructs, U=cu.ULEB128(''), S=cu.SLEB128(''))
    return _L


def ref_leb(bs, signed):
    v = 0
    sh = 0
    for i, b in enumerate(bs):
        v |= (b & 0x7f) << sh
        sh += 7
        if not b & 0x80:
            if signed and b & 0x40:
                v -= 1 << sh
            return v, i + 1
    return None, None


def parse(sh, c, data, pos=None):
    """-> ('ok', value, tell, nread) or ('err', exception type name)"""
    L = lib()
    st = TracedBytesIO(data)
    try:
        v = L['utils'].struct_parse(c, st, pos) if pos is not None else L['utils'].struct_parse(c, st)
    except L['PE']:
        return ('parse_error',)
    return ('ok', v, io.BytesIO.tell(st), st.nread)


def expect(sh, what, got, want, sig, **ctx):
    if got[:len(want)] == want or (want[0] == 'ok' and got[0] == 'ok' and got[1:3] == want[1:3]):
        sh.held(sig)
        return True
    sh.violation('C16:%s' % what, got=got, want=want, **ctx)
    return False


def leb_one(sh, c, signed, bs, name):
    ev, el = ref_leb(bs, signed)
    klass = (name, len(bs), el, None if ev is None else (ev < 0, ev.bit_length() // 7))
    for trail in (b'', b'\xaa\x55\x80'):
        data = bytes(bs) + trail
        ev2, el2 = ref_leb(data, signed)
        got = parse(sh, c, data)
        want = ('parse_error',) if ev2 is None else ('ok', ev2, el2)
        if not expect(sh, name + ('-trunc' if ev2 is None else ''), got, want,
                      klass + (bool(trail),), input=data):
            return


def run_case(kind, idx, rng, sh):
    L = lib()
    U, S = L['U'], L['S']
    if kind == 'leb_exh':
        first = idx
        leb_one(sh, U, False, (first,), 'uleb')
        leb_one(sh, S, True, (first,), 'sleb')
        for b2 in range(256):
            leb_one(sh, U, False, (first, b2), 'uleb')
            leb_one(sh, S, True, (first, b2), 'sleb')
        if sh.tier == 'thorough':
            it = itertools.product(range(256), range(256))
        else:
            it = itertools.product(range(idx % 5, 256, 5), range(idx % 3, 256, 3))
        if first & 0x80:       # otherwise the encoding ended at byte 1: covered above
            for b2, b3 in it:
                if b2 & 0x80:  # likewise for byte 2
                    leb_one(sh, U, False, (first, b2, b3), 'uleb')
                    leb_one(sh, S, True, (first, b2, b3), 'sleb')
        if idx == 0x80:
            sh.sample({'decoder': 'ULEB128/SLEB128', 'first_byte': first,
                       'strings_enumerated': 'all of length<=2, length 3 %s' % (
                           'complete' if sh.tier == 'thorough' else 'lattice')})
            sh.extra['leb_prefix_space_exhaustive_len'] = 3 if sh.tier == 'thorough' else 2
    elif kind == 'leb_rand':
        bounds = [0, 1, 63, 64, 127, 128, 2 ** 31 - 1, 2 ** 31, 2 ** 32 - 1, 2 ** 32, 2 ** 63 - 1, 2 ** 63,
                  2 ** 64 - 1, 2 ** 64, 2 ** 70]
        for k in range(500):
            pad = rng.choice([0, 0, 0, 1, 2, 5, 9])
            if rng.random() < 0.3:
                v = rng.choice(bounds) + rng.choice([-1, 0, 1])
            else:
                v = rng.getrandbits(rng.randrange(1, 72))
            v = abs(v)
            enc = uleb(v, pad)
            if len(enc) <= 20:
                trail = bytes(rng.randrange(256) for _ in range(rng.randrange(4)))
                got = parse(sh, U, enc + trail)
                expect(sh, 'uleb-rand', got, ('ok', v, len(enc)),
                       ('uleb-rand', len(enc), pad, v.bit_length() // 7), input=enc + trail)
                cut = rng.randrange(len(enc))
                expect(sh, 'uleb-trunc', parse(sh, U, enc[:cut]), ('parse_error',),
                       ('uleb-trunc', len(enc), cut), input=enc[:cut])
            s = v if rng.random() < 0.5 else -v - rng.choice([0, 1])
            enc = sleb(s, pad)
            if len(enc) <= 20:
                trail = bytes(rng.randrange(256) for _ in range(rng.randrange(4)))
                got = parse(sh, S, enc + trail)
                expect(sh, 'sleb-rand', got, ('ok', s, len(enc)),
                       ('sleb-rand', len(enc), pad, s < 0, abs(s).bit_length() // 7), input=enc + trail)
                cut = rng.randrange(len(enc))
                expect(sh, 'sleb-trunc', parse(sh, S, enc[:cut]), ('parse_error',),
                       ('sleb-trunc', len(enc), cut), input=enc[:cut])
        if idx == 0:
            sh.sample({'uleb': enc.hex(), 'value': s})
    elif kind == 'int24':
        cu = L['cu']
        UL, UB = cu.ULInt24(''), cu.UBInt24('')
        top = idx
        if sh.tier == 'thorough':
            lows = range(0, 1 << 16)
        else:
            lows = list(range(idx % 251, 1 << 16, 251)) + [0, 1, 0xff, 0x100, 0x7fff, 0x8000, 0xffff, 0xff00, 0x00ff]
        for lo in lows:
            v = (top << 16) | lo
            le = bytes((v & 0xff, (v >> 8) & 0xff, v >> 16))
            be = le[::-1]
            got = parse(sh, UL, le + b'\xee')
            if got[:3] != ('ok', v, 3):
                sh.violation('C16:ULInt24', got=got, value=v)
                break
            got = parse(sh, UB, be + b'\xee')
            if got[:3] != ('ok', v, 3):
                sh.violation('C16:UBInt24', got=got, value=v)
                break
        else:
            sh.held(('int24', top), n=2 * len(lows))
        for cut in range(3):
            for c, nm in ((UL, 'ULInt24'), (UB, 'UBInt24')):
                expect(sh, nm + '-trunc', parse(sh, c, bytes((top, 1, 2))[:cut]), ('parse_error',),
                       (nm, 'trunc', cut))
        if idx == 0:
            sh.sample({'decoder': 'ULInt24/UBInt24', 'top_byte': top, 'values': len(lows)})
            sh.extra['int24_exhaustive'] = sh.tier == 'thorough'
    elif kind == 'fixed':
        con = L['con']
        widths = {1: 'b', 2: 'h', 4: 'i', 8: 'q'}
        for k in range(400):
            w = rng.choice([1, 2, 4, 8])
            big = rng.random() < 0.5
            signed = rng.random() < 0.5
            name = '%s%sInt%d' % ('S' if signed else 'U', 'B' if big else 'L', 8 * w)
            c = getattr(con, name)('')
            cls = rng.randrange(6)
            raw = {0: bytes(w), 1: b'\xff' * w, 2: b'\x7f' + b'\xff' * (w - 1),
                   3: b'\x80' + bytes(w - 1), 4: b'\xff' * (w - 1) + b'\x7f'}.get(cls)
            if raw is None:
                raw = bytes(rng.randrange(256) for _ in range(w))
            want = int.from_bytes(raw, 'big' if big else 'little', signed=signed)
            trail = bytes(rng.randrange(256) for _ in range(rng.randrange(3)))
            off = rng.randrange(3)
            got = parse(sh, c, b'\x99' * off + raw + trail, off)
            expect(sh, name, got, ('ok', want, off + w), (name, cls), input=raw)
            cut = rng.randrange(w)
            expect(sh, name + '-trunc', parse(sh, c, raw[:cut]), ('parse_error',), (name, 'trunc', cut))
        # the aliases the readers actually use
        for le in (True, False):
            for fmt, asz in ((32, 4), (64, 8), (32, 8), (64, 4)):
                ds = L['DS'](le, fmt, asz, 4)
                order = 'little' if le else 'big'
                for nm, w, signed in (('Dwarf_uint8', 1, 0), ('Dwarf_uint16', 2, 0), ('Dwarf_uint24', 3, 0),
                                      ('Dwarf_uint32', 4, 0), ('Dwarf_uint64', 8, 0), ('Dwarf_int8', 1, 1),
                                      ('Dwarf_int16', 2, 1), ('Dwarf_int32', 4, 1), ('Dwarf_int64', 8, 1),
                                      ('Dwarf_offset', fmt // 8, 0), ('Dwarf_length', fmt // 8, 0),
                                      ('Dwarf_target_addr', asz, 0)):
                    raw = bytes(rng.randrange(256) for _ in range(w))
                    raw = rng.choice([raw, b'\xff' * w, b'\x80' + bytes(w - 1), bytes(w - 1) + b'\x80'])
                    want = int.from_bytes(raw, order, signed=bool(signed))
                    got = parse(sh, getattr(ds, nm)(''), raw + b'\x01')
                    expect(sh, 'dwarf.' + nm, got, ('ok', want, w), ('dwarf', nm, le, fmt, asz), input=raw)
            for cls_ in (32, 64):
                es = L['ES'](le, cls_)
                es.create_basic_structs()
                W = cls_ // 8
                for nm, w, signed in (('Elf_byte', 1, 0), ('Elf_half', 2, 0), ('Elf_word', 4, 0),
                                      ('Elf_word64', 8, 0), ('Elf_addr', W, 0), ('Elf_offset', W, 0),
                                      ('Elf_sword', 4, 1), ('Elf_xword', W, 0), ('Elf_sxword', W, 1)):
                    raw = bytes(rng.randrange(256) for _ in range(w))
                    raw = rng.choice([raw, b'\xff' * w, b'\x80' + bytes(w - 1), bytes(w - 1) + b'\x80'])
                    want = int.from_bytes(raw, 'little' if le else 'big', signed=bool(signed))
                    got = parse(sh, getattr(es, nm)(''), raw + b'\x01')
                    expect(sh, 'elf.' + nm, got, ('ok', want, w), ('elf', nm, le, cls_), input=raw)
        if idx == 0:
            sh.sample({'decoder': name, 'raw': raw.hex(), 'value': want})
    elif kind == 'cstr':
        pcs = L['utils'].parse_cstring_from_stream
        CS = L['con'].CString('')
        step = 8 if sh.tier == 'quick' else 32
        # lengths 0..300, and lengths on both sides of the powers of two up to 2**17 (a linker map or a mangled C++ name
        # can be that long; the reader has no business bounding it)
        big = [[1023, 1024, 1025], [4095, 4096, 4097], [16383, 16384, 16385], [65535, 65536, 65537], [65599, 65600, 131072], [100000]]
        for n in list(range(idx, 301, step)) + big[idx % len(big)]:
            body = bytes(rng.randrange(1, 256) for _ in range(n))
            for term in (True, False):
                for off in (0, 1, 63, 64):
                    data = b'\0' * off + body + (b'\0' + b'tail\0' if term else b'')
                    st = TracedBytesIO(data)
                    r = pcs(st, off)
                    want = body if term else None
                    if r != want:
                        sh.violation('C16:parse_cstring_from_stream', n=n, term=term, off=off, got=r)
                    else:
                        sh.held(('pcs', n, term, off))
                    # relative to the current position
                    st = TracedBytesIO(data)
                    st.seek(off)
                    r = pcs(st)
                    if r != want:
                        sh.violation('C16:parse_cstring_from_stream(current pos)', n=n, term=term, off=off, got=r)
                    else:
                        sh.held(('pcs-cur', n, term, off))
                    got = parse(sh, CS, data, off)
                    want2 = ('ok', body, off + n + 1) if term else ('parse_error',)
                    expect(sh, 'CString', got, want2, ('CString', n, term, off))
        if idx == 0:
            sh.sample({'decoder': 'parse_cstring_from_stream/CString', 'lengths': '0..300 step %d' % step})
    elif kind == 'blocks':
        con, cu = L['con'], L['cu']
        for k in range(60):
            le = rng.random() < 0.5
            ds = L['DS'](le, rng.choice([32, 64]), rng.choice([4, 8]), rng.choice([2, 3, 4, 5]))
            E = '<' if le else '>'
            form = rng.choice(['DW_FORM_block1', 'DW_FORM_block2', 'DW_FORM_block4', 'DW_FORM_block',
                               'DW_FORM_exprloc'])
            maxn = {'DW_FORM_block1': 255, 'DW_FORM_block2': 65535}.get(form, 70000)
            n = rng.choice([0, 1, 2, 127, 128, 255, 256, rng.randrange(0, 600), maxn if rng.random() < 0.1 else 3])
            n = min(n, maxn)
            pad = rng.randrange(3) if form in ('DW_FORM_block', 'DW_FORM_exprloc') else 0
            pre = {'DW_FORM_block1': lambda: struct.pack('B', n), 'DW_FORM_block2': lambda: struct.pack(E + 'H', n),
                   'DW_FORM_block4': lambda: struct.pack(E + 'I', n)}.get(form, lambda: uleb(n, pad))()
            body = bytes(rng.randrange(256) for _ in range(n))
            data = pre + body + b'\x07\x08'
            got = parse(sh, ds.Dwarf_dw_form[form], data)
            if got[0] == 'ok':
                got = ('ok', bytes(got[1]), got[2], got[3])
            expect(sh, form, got, ('ok', body, len(pre) + n),
                   (form, le, min(n, 300), pad), n=n)
            if n:
                cut = rng.randrange(len(pre) + n)
                expect(sh, form + '-trunc', parse(sh, ds.Dwarf_dw_form[form], data[:cut]), ('parse_error',),
                       (form, 'trunc', cut < len(pre)))
            # read_blob: the block reader of the expression parser (length already decoded by the caller)
            m = rng.choice([0, 1, 2, 63, 64, 65, 300])
            blob = bytes(rng.randrange(256) for _ in range(m))
            for data, want in ((blob + b'\x07', ('ok', list(blob), m)), (blob, ('ok', list(blob), m))) + \
                    (((blob[:rng.randrange(m)], ('parse_error',)),) if m else ()):
                st = TracedBytesIO(data)
                try:
                    got = ('ok', list(L['utils'].read_blob(st, m)), io.BytesIO.tell(st))
                except L['PE']:
                    got = ('parse_error',)
                except Exception as e:      # any other exception type is a wrong report of truncation
                    got = ('err', type(e).__name__)
                expect(sh, 'read_blob' + ('-trunc' if want[0] != 'ok' else ''), got, want, ('read_blob', min(m, 66), len(data) - m))
            # data16 and flag_present
            raw = bytes(rng.randrange(256) for _ in range(16))
            got = parse(sh, ds.Dwarf_dw_form['DW_FORM_data16'], raw + b'\1')
            if got[0] == 'ok':
                got = ('ok', bytes(got[1]), got[2])
            expect(sh, 'data16', got, ('ok', raw, 16), ('data16',))
            got = parse(sh, ds.Dwarf_dw_form['DW_FORM_flag_present'], b'\x55')
            expect(sh, 'flag_present', ('ok', got[2]) if got[0] == 'ok' else got, ('ok', 0), ('flag_present',))
            # PrefixedArray (length field = element count) and RepeatUntilExcluding
            cnt = rng.choice([0, 1, 2, 7, 255])
            elems = [rng.randrange(65536) for _ in range(cnt)]
            data = struct.pack('B', cnt) + b''.join(struct.pack(E + 'H', e) for e in elems) + b'\xfe'
            c = con.PrefixedArray(ds.Dwarf_uint16('e'), ds.Dwarf_uint8('n'))
            got = parse(sh, c, data)
            if got[0] == 'ok':
                got = ('ok', list(got[1]), got[2])
            expect(sh, 'PrefixedArray', got, ('ok', elems, 1 + 2 * cnt), ('PrefixedArray', cnt, le))
            if cnt:
                cut = rng.randrange(1, 1 + 2 * cnt)
                expect(sh, 'PrefixedArray-trunc', parse(sh, c, data[:cut]), ('parse_error',),
                       ('PrefixedArray', 'trunc'))
            vals = [rng.randrange(1, 2 ** 20) for _ in range(rng.choice([0, 1, 3, 40]))]
            data = b''.join(uleb(v) for v in vals) + b'\0' + b'\x33'
            c = cu.RepeatUntilExcluding(lambda obj, ctx: obj == 0, ds.Dwarf_uleb128('x'))
            got = parse(sh, c, data)
            if got[0] == 'ok':
                got = ('ok', list(got[1]), got[2])
            expect(sh, 'RepeatUntilExcluding', got, ('ok', vals, len(data) - 1), ('RUE', len(vals)))
            expect(sh, 'RepeatUntilExcluding-trunc', parse(sh, c, data[:-2]), ('parse_error',), ('RUE', 'trunc'))
        if idx == 0:
            sh.sample({'decoder': form, 'n': n, 'prefix': pre.hex()})
    elif kind == 'initlen':
        firsts = [0, 1, 0x7fffffff, 0x80000000, 0xfffffeff, 0xffffff00, 0xffffff01, 0xffffffee,
                  0xffffffef] + [rng.randrange(0xffffff00, 0xfffffff0) for _ in range(8)] + \
                 [rng.randrange(0, 0xffffff00) for _ in range(8)]
        reserved = list(range(0xfffffff0, 0xffffffff))
        for le in (True, False):
            E = '<' if le else '>'
            for fmt in (32, 64):
                ds = L['DS'](le, fmt, 8, 4)
                IL = ds.Dwarf_initial_length('unit_length')
                for f in firsts:
                    data = struct.pack(E + 'I', f) + b'\x11\x22\x33\x44\x55\x66\x77\x88\x99'
                    expect(sh, 'initial-length-32', parse(sh, IL, data), ('ok', f, 4),
                           ('il32', le, f >> 28, f >= 0xffffff00), first=hex(f))
                for f in reserved:
                    data = struct.pack(E + 'I', f) + b'\x11\x22\x33\x44\x55\x66\x77\x88\x99'
                    expect(sh, 'initial-length-reserved', parse(sh, IL, data), ('parse_error',),
                           ('ilres', le, f), first=hex(f))
                for second in (0, 1, 0xffffffff, 0x100000000, 2 ** 64 - 1, rng.getrandbits(64)):
                    data = struct.pack(E + 'IQ', 0xffffffff, second) + b'\x01'
                    expect(sh, 'initial-length-64', parse(sh, IL, data), ('ok', second, 12),
                           ('il64', le, second.bit_length() // 16))
                    for cut in (0, 1, 3, 4, 5, 11):
                        expect(sh, 'initial-length-trunc', parse(sh, IL, data[:cut]), ('parse_error',),
                               ('iltrunc', cut))
                # format detection is observable through the unit header parse: is64 in the context
                hdr = ds.Dwarf_aranges_header
                for is64 in (False, True):
                    pre = struct.pack(E + 'IQ', 0xffffffff, 40) if is64 else struct.pack(E + 'I', 40)
                    # the struct set fixes the offset width; only matching pairs are well formed
                    if is64 != (fmt == 64):
                        continue
                    off = struct.pack(E + ('Q' if is64 else 'I'), 0x1234)
                    data = pre + struct.pack(E + 'H', 2) + off + b'\x08\x00' + b'\xcc' * 4
                    got = parse(sh, hdr, data)
                    if got[0] == 'ok':
                        h = got[1]
                        got = ('ok', (h['unit_length'], h['version'], h['debug_info_offset'],
                                      h['address_size'], h['segment_size']), got[2])
                    expect(sh, 'aranges-header', got, ('ok', (40, 2, 0x1234, 8, 0), len(data) - 4),
                           ('arh', le, is64))
        if idx == 0:
            sh.sample({'decoder': 'Dwarf_initial_length', 'first_words': [hex(f) for f in firsts[:9]],
                       'reserved_all': '0xfffffff0..0xfffffffe'})


def finish(m, tier, seed):
    ex = {}
    for e in m['extra']:
        ex.update(e)
    ex['exhaustive'] = False
    ex['exhaustive_subspaces'] = ['LEB128 byte strings of length <= %d (both signednesses, with and without trailing bytes)'
                                  % ex.get('leb_prefix_space_exhaustive_len', 2)] + (
        ['all 2^24 24-bit values per byte order'] if ex.get('int24_exhaustive') else [])
    return ex
