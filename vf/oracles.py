"""Third implementations on the image (GNU binutils 2.40, LLVM 14) used to cross-validate
my own generators and reference models. A missing tool skips its sub-workload."""
import os
import shutil
import subprocess
import tempfile

from .gen import elfgen


def have(tool):
    return shutil.which(tool) is not None


def run(cmd, timeout=30, cwd=None):
    """-> (returncode, stdout, stderr); a tool that hangs or crashes on an input has declined it:
    returncode -999 and 'timeout' on stderr, never an exception into the check."""
    try:
        p = subprocess.run(cmd, stdout=subprocess.PIPE, stderr=subprocess.PIPE, timeout=timeout, cwd=cwd)
    except subprocess.TimeoutExpired:
        return -999, '', 'error: timeout'
    except OSError as e:
        return -998, '', 'error: %s' % e
    return p.returncode, p.stdout.decode('latin-1'), p.stderr.decode('latin-1')


class Scratch:
    def __enter__(self):
        self.d = tempfile.mkdtemp(prefix='vf-')
        return self

    def __exit__(self, *a):
        shutil.rmtree(self.d, ignore_errors=True)

    def write(self, name, data):
        p = os.path.join(self.d, name)
        with open(p, 'wb') as f:
            f.write(data)
        return p


def wrap_debug(sections, le, cls=64, etype=1, machine=None, addrs=None):
    """Minimal ELF holding the given debug sections."""
    if machine is None:
        machine = 62 if le else 21
    secs = [elfgen.Sec('.text', 1, flags=6, data=b'\0' * 16, addr=0x1000)]
    for n, b in sections.items():
        secs.append(elfgen.Sec(n, 1, data=b, addr=(addrs or {}).get(n, 0), flags=2 if n == '.eh_frame' else 0))
    img, info = elfgen.build(cls=cls, le=le, machine=machine, etype=etype, sections=secs)
    return img
