"""Case runner, verdict bookkeeping, evidence, findings and replay files.

A property module (vf/props/cXX.py) provides:
  PROP, LEVEL, RULE, ASSUMPTIONS
  KINDS = {kind: (n_quick, n_thorough)}         case kinds and their sizes
  run_case(kind, idx, rng, sh)                   generate + observe + judge one case
optional:
  setup_worker()                                 install monitors in a worker
  REACH = ['module:qualname', ...]               functions watched by the reach observer
  finish(merged, tier)                           extra evidence keys / global verdict steps
  FLOOR = {tier: minimal number of decided cases}
"""
import base64
import collections
import hashlib
import json
import os
import random
import signal
import sys
import time
import traceback
from concurrent.futures import ProcessPoolExecutor, as_completed

from . import VERIF_DIR, REPO, use_repo

NWORKERS = int(os.environ.get('VERIF_JOBS', '16'))
CASE_TIMEOUT = int(os.environ.get("VERIF_CASE_TIMEOUT", "120"))


class CaseTimeout(BaseException):
    pass


class BudgetExceeded(BaseException):
    pass


class Mismatch(Exception):
    """Raised by property code to report a violation from deep inside a comparison."""
    def __init__(self, key, **detail):
        Exception.__init__(self, key)
        self.key = key
        self.detail = detail


def jsonable(o, depth=0):
    if depth > 12:
        return repr(o)[:200]
    if isinstance(o, (bytes, bytearray)):
        return {'hex': bytes(o[:256]).hex(), 'len': len(o)}
    if isinstance(o, (str, int, float, bool)) or o is None:
        if isinstance(o, str) and len(o) > 2000:
            return o[:2000] + '...'
        return o
    if isinstance(o, dict):
        return {str(k): jsonable(v, depth + 1) for k, v in list(o.items())[:200]}
    if isinstance(o, (list, tuple, set, frozenset)):
        return [jsonable(v, depth + 1) for v in list(o)[:200]]
    return repr(o)[:300]


def lib_frame(exc):
    """Innermost elftools frame of an exception, as 'file.py:func' (line numbers are
    left out so that keys survive unrelated edits), or None."""
    tb = traceback.extract_tb(exc.__traceback__)
    for fr in reversed(tb):
        fn = fr.filename.replace('\\', '/')
        if '/elftools/' in fn or '/scripts/readelf' in fn:
            return '%s:%s' % (os.path.basename(fn), fr.name)
    return None


class Findings:
    """KNOWN_FINDINGS.json, read-only. Only status == 'open' entries ever suppress."""
    def __init__(self, path=None):
        path = path or os.path.join(VERIF_DIR, 'KNOWN_FINDINGS.json')
        try:
            with open(path) as f:
                self.all = json.load(f)['findings']
        except FileNotFoundError:
            self.all = []
        self.open = {}
        for e in self.all:
            if e.get('status') == 'open':
                self.open[(e['property'], e['id'])] = e

    def open_ids(self, prop):
        return frozenset(i for (p, i) in self.open if p == prop)

    def what(self, prop, fid):
        return self.open[(prop, fid)]['what']


class Shard:
    """Accumulates what one worker observed."""
    MAX_SAMPLES = 3

    def __init__(self, prop, tier, seed, quirks):
        self.prop, self.tier, self.seed = prop, tier, seed
        self.quirks = frozenset(quirks)      # ids of OPEN findings of this property
        self.evaluations = 0
        self.sigs = set()
        self.violations = {}                 # key -> dict
        self.known = collections.Counter()
        self.counters = collections.Counter()
        self.samples = []
        self.sample_kinds = set()
        self.disputed = 0
        self.skipped = collections.Counter()
        self.timeouts = []
        self.harness_errors = []
        self.cur = None
        self.extra = {}

    # -- per case verdicts -------------------------------------------------
    def held(self, sig=None, n=1):
        """n decided cases held; sig (hashable or list of hashables) names the deciding
        features they exercised - None for a trivial case."""
        self.evaluations += n
        if sig is not None:
            self._sig(sig)

    def _sig(self, sig):
        h = hashlib.blake2b(repr(sig).encode(), digest_size=8).digest()
        self.sigs.add(h)

    def sig(self, sig):
        self._sig(sig)

    def violation(self, key, **detail):
        self.evaluations += 1
        self.note_violation(key, **detail)

    def note_violation(self, key, **detail):
        v = self.violations.get(key)
        if v is None:
            self.violations[key] = {'key': key, 'count': 1, 'case': self.cur,
                                    'detail': jsonable(detail)}
        else:
            v['count'] += 1

    def known_finding(self, fid, sig=None):
        """A failing case reproduced bit for bit by switching on an OPEN finding."""
        if fid not in self.quirks:
            self.violation('finding-not-open:' + fid)
            return
        self.evaluations += 1
        self.known[fid] += 1

    def dispute(self, what=''):
        self.disputed += 1
        self.counters['disputed:' + what] += 1

    def skip(self, why):
        self.skipped[why] += 1

    def count(self, name, n=1):
        self.counters[name] += n

    def sample(self, obj, kind=None):
        kind = kind or (self.cur[0] if self.cur else '')
        if kind in self.sample_kinds or len(self.samples) >= self.MAX_SAMPLES:
            return
        self.sample_kinds.add(kind)
        self.samples.append({'kind': kind, 'case': self.cur, 'observed': jsonable(obj)})

    def result(self):
        return {
            'evaluations': self.evaluations, 'sigs': self.sigs,
            'violations': self.violations, 'known': self.known,
            'counters': self.counters, 'samples': self.samples,
            'disputed': self.disputed, 'skipped': self.skipped,
            'timeouts': self.timeouts, 'harness_errors': self.harness_errors,
            'extra': self.extra,
        }


def case_rng(seed, kind, idx):
    return random.Random('%d:%s:%d' % (seed, kind, idx))


def _alarm(signum, frame):
    raise CaseTimeout()


_WORKER = {}


def _worker_init(modname):
    use_repo()
    import importlib
    mod = importlib.import_module(modname)
    _WORKER['mod'] = mod
    if hasattr(mod, 'setup_worker'):
        mod.setup_worker()
    reach = None
    if getattr(mod, 'REACH', None):
        from .monitor import Reach
        reach = Reach(mod.REACH)
    _WORKER['reach'] = reach
    signal.signal(signal.SIGALRM, _alarm)


_METER = []


def run_one(mod, sh, kind, idx, metered=False):
    """Run one case under the harness' exception classification. A case that trips the
    wall-clock watchdog is re-run under the logical step meter: only exceeding the step
    budget is a verdict (non-termination); a second watchdog firing is inconclusive."""
    sh.cur = [kind, idx]
    rng = case_rng(sh.seed, kind, idx)
    timeout = getattr(mod, 'CASE_TIMEOUT', CASE_TIMEOUT)
    signal.alarm(timeout * (4 if metered else 1))
    meter = None
    if metered:
        from .monitor import StepMeter
        if not _METER:
            _METER.append(StepMeter())
        meter = _METER[0]
        meter.start(getattr(mod, 'STEP_BUDGET', 30000000))
    try:
        mod.run_case(kind, idx, rng, sh)
    except Mismatch as m:
        sh.violation(m.key, **m.detail)
    except CaseTimeout:
        if meter:
            meter.stop()
            meter = None
        signal.alarm(0)
        if metered:
            sh.timeouts.append([kind, idx])
        else:
            sh.count('watchdog_reruns_under_step_meter')
            run_one(mod, sh, kind, idx, metered=True)
    except BudgetExceeded as e:
        fr = lib_frame(e)
        sh.violation('nontermination:logical step budget exceeded@%s' % fr, steps=str(e),
                     tb=traceback.format_exc()[-1200:])
    except RecursionError as e:
        fr = lib_frame(e)
        sh.violation('exception:RecursionError@%s' % fr)
    except Exception as e:
        fr = lib_frame(e)
        obj = getattr(e, 'obj', None) if isinstance(e, AttributeError) else None
        if fr is None and obj is not None and type(obj).__module__.split('.')[0] == 'elftools':
            # the library handed out an object of another shape than its interface promises
            sh.violation('wrong-shaped result: %s object lacks %r' % (type(obj).__name__, getattr(e, 'name', '?')),
                         tb=traceback.format_exc()[-1200:])
        elif fr is None:
            sh.harness_errors.append({'case': [kind, idx],
                                      'error': traceback.format_exc()[-1500:]})
        else:
            sh.violation('exception:%s@%s' % (type(e).__name__, fr),
                         message=str(e)[:300],
                         tb=traceback.format_exc()[-1200:])
    finally:
        signal.alarm(0)
        if meter:
            meter.stop()


def _worker_job(job):
    modname, tier, seed, quirks, kind, start, stop = job
    mod = _WORKER['mod']
    sh = Shard(mod.PROP, tier, seed, quirks)
    reach = _WORKER['reach']
    if reach:
        reach.reset()
        reach.enable()
    try:
        dev = os.environ.get('VF_DEV_IDXMOD')       # development aid "m:r": only the cases with idx % m == r
        for idx in range(start, stop):
            if dev and idx % int(dev.split(':')[0]) != int(dev.split(':')[1]):
                continue
            run_one(mod, sh, kind, idx)
    finally:
        if reach:
            reach.disable()
    res = sh.result()
    res['reach'] = reach.snapshot() if reach else {}
    return res


def make_jobs(mod, tier, seed, quirks):
    jobs = []
    col = 0 if tier == 'quick' else 1
    only_kinds = os.environ.get('VF_DEV_KINDS')          # development aid (never set by a registered command)
    for kind, sizes in mod.KINDS.items():
        n = sizes[col]
        if n <= 0 or (only_kinds and kind not in only_kinds.split(',')):
            continue
        chunk = sizes[2] if len(sizes) > 2 and sizes[2] else max(1, -(-n // (NWORKERS * 4)))
        for start in range(0, n, chunk):
            jobs.append((mod.__name__, tier, seed, quirks, kind, start, min(n, start + chunk)))
    # longest-looking kinds first does not matter much; interleave kinds for balance
    return jobs


def merge(results):
    m = {'evaluations': 0, 'sigs': set(), 'violations': {}, 'known': collections.Counter(),
         'counters': collections.Counter(), 'samples': [], 'disputed': 0,
         'skipped': collections.Counter(), 'timeouts': [], 'harness_errors': [],
         'reach': collections.Counter(), 'extra': []}
    for r in results:
        m['evaluations'] += r['evaluations']
        m['sigs'] |= r['sigs']
        for k, v in r['violations'].items():
            if k in m['violations']:
                m['violations'][k]['count'] += v['count']
            else:
                m['violations'][k] = v
        m['known'].update(r['known'])
        m['counters'].update(r['counters'])
        m['samples'].extend(r['samples'])
        m['disputed'] += r['disputed']
        m['skipped'].update(r['skipped'])
        m['timeouts'].extend(r['timeouts'])
        m['harness_errors'].extend(r['harness_errors'])
        m['reach'].update(r.get('reach', {}))
        if r['extra']:
            m['extra'].append(r['extra'])
    return m


def write_replay(prop, seed, tier, v):
    d = os.path.join(VERIF_DIR, 'replays', prop)
    os.makedirs(d, exist_ok=True)
    name = hashlib.sha1(v['key'].encode()).hexdigest()[:12] + '.json'
    path = os.path.join(d, name)
    with open(path, 'w') as f:
        json.dump({'property': prop, 'seed': seed, 'tier': tier, 'case': v['case'],
                   'key': v['key'], 'count': v['count'], 'detail': v['detail']}, f, indent=1)
    return path


def validate_evidence(ev):
    """Structural check mirroring EVIDENCE.schema.json for the levels used here."""
    for k in ('property_id', 'tier', 'seed', 'level', 'coverage', 'wall_s'):
        assert k in ev, 'evidence lacks ' + k
    assert ev['tier'] in ('quick', 'thorough')
    assert isinstance(ev['seed'], int)
    c = ev['coverage']
    assert isinstance(c['evaluations'], int) and c['evaluations'] >= 1
    assert isinstance(c['distinct_nontrivial'], int) and c['distinct_nontrivial'] >= 2
    assert isinstance(c['rule'], str)
    assert isinstance(c['samples'], list) and len(c['samples']) >= 1


def run_property(mod, tier, seed, only_case=None):
    use_repo()
    t0 = time.time()
    findings = Findings()
    quirks = findings.open_ids(mod.PROP)
    if only_case is not None:
        _worker_init(mod.__name__)
        sh = Shard(mod.PROP, tier, seed, quirks)
        run_one(mod, sh, only_case[0], only_case[1])
        results = [dict(sh.result(), reach={})]
    else:
        jobs = make_jobs(mod, tier, seed, quirks)
        results = []
        nw = max(1, min(NWORKERS, len(jobs)))
        with ProcessPoolExecutor(max_workers=nw, initializer=_worker_init,
                                 initargs=(mod.__name__,)) as ex:
            futs = [ex.submit(_worker_job, j) for j in jobs]
            for f in as_completed(futs):
                results.append(f.result())
    # every OPEN finding has a committed minimal witness; it is replayed on every invocation so the
    # KNOWN-FINDING line is printed exactly while the witness still fails
    if quirks and hasattr(mod, 'witness') and only_case is None:
        _worker_init(mod.__name__) if 'mod' not in _WORKER else None
        wsh = Shard(mod.PROP, tier, seed, quirks)
        for fid in sorted(quirks):
            wsh.cur = ['witness', fid]
            try:
                mod.witness(fid, wsh)
            except Mismatch as mm:
                wsh.violation(mm.key, **mm.detail)
            except Exception as e:
                fr = lib_frame(e)
                wsh.violation('witness %s: exception:%s@%s' % (fid, type(e).__name__, fr), tb=traceback.format_exc()[-800:])
        results.append(dict(wsh.result(), reach={}))
    m = merge(results)
    extra_cov = {}
    if hasattr(mod, 'finish') and only_case is None:
        extra_cov = mod.finish(m, tier, seed) or {}
    wall = time.time() - t0
    return report(mod, tier, seed, m, extra_cov, wall, findings, replaying=only_case is not None)


def report(mod, tier, seed, m, extra_cov, wall, findings, replaying=False):
    prop = mod.PROP
    viol = sorted(m['violations'].values(), key=lambda v: v['key'])
    floor = getattr(mod, 'FLOOR', {}).get(tier, 2)
    reach_summary = {}
    if m['reach']:
        from .monitor import summarize_reach
        reach_summary = summarize_reach(mod.REACH, m['reach'])
    coverage = {
        'evaluations': m['evaluations'],
        'distinct_nontrivial': len(m['sigs']),
        'rule': mod.RULE,
        'samples': m['samples'][:8],
        'monitor_counters': dict(sorted(m['counters'].items())),
        'known_finding_cases': dict(m['known']),
        'model_disputed_cases': m['disputed'],
        'skipped': dict(m['skipped']),
        'watchdog_timeouts': len(m['timeouts']),
        'reach': reach_summary,
        'violation_keys': [v['key'] for v in viol][:40],
    }
    merged_extra = {}
    for ex in m['extra']:
        for k, v in ex.items():
            if isinstance(v, list):
                merged_extra.setdefault(k, [])
                merged_extra[k] = (merged_extra[k] + v)[:20]
            elif k.startswith('max_') and isinstance(v, (int, float)):
                merged_extra[k] = max(merged_extra.get(k, v), v)
            else:
                merged_extra[k] = v
    if merged_extra:
        coverage['details'] = jsonable(merged_extra)
    coverage.update(extra_cov)
    ev = {'property_id': prop, 'tier': tier, 'seed': seed, 'level': mod.LEVEL,
          'coverage': coverage, 'assumptions': list(mod.ASSUMPTIONS),
          'wall_s': round(wall, 2), 'violations': len(viol),
          'repo': REPO}
    rc = 0
    for fid, n in sorted(m['known'].items()):
        print('KNOWN-FINDING: property=%s %s: %s (%d cases this run)' % (
            prop, fid, findings.what(prop, fid), n))
    maxv = int(os.environ.get("VERIF_MAX_VIOLATIONS", "20"))
    for v in viol[:maxv]:
        path = write_replay(prop, seed, tier, v)
        print('VIOLATION property=%s replay=%s' % (prop, path))
        print('  key=%s count=%d case=%s' % (v['key'], v['count'], v['case']))
        rc = 1
    if len(viol) > maxv:
        print('  ... %d further distinct violation keys' % (len(viol) - maxv))
    for he in m['harness_errors'][:5]:
        print('HARNESS-ERROR property=%s case=%s\n%s' % (prop, he['case'], he['error']))
    if not replaying:
        inconclusive = []
        if m['harness_errors']:
            inconclusive.append('%d harness errors' % len(m['harness_errors']))
        if m['timeouts']:
            inconclusive.append('watchdog fired on cases %s' % m['timeouts'][:5])
        if m['evaluations'] < floor or len(m['sigs']) < 2:
            inconclusive.append('only %d cases decided (floor %d), %d distinct' % (
                m['evaluations'], floor, len(m['sigs'])))
        for msg in extra_cov.get('inconclusive_reasons', []):
            inconclusive.append(msg)
        if inconclusive and rc == 0:
            rc = 2
            print('INCONCLUSIVE property=%s reason=%s' % (prop, '; '.join(inconclusive)))
        try:
            validate_evidence(ev)
        except (AssertionError, KeyError) as e:
            if rc == 0:
                rc = 2
                print('INCONCLUSIVE property=%s reason=evidence invalid: %s' % (prop, e))
        os.makedirs(os.path.join(VERIF_DIR, 'evidence'), exist_ok=True)
        with open(os.path.join(VERIF_DIR, 'evidence', prop + '.json'), 'w') as f:
            json.dump(ev, f, indent=1, sort_keys=True, default=repr)
            f.write('\n')
    print('%s tier=%s seed=%d: %d cases decided, %d distinct non-trivial, %d violation keys, '
          '%d known, %d disputed, %.1fs -> exit %d' % (
              prop, tier, seed, m['evaluations'], len(m['sigs']), len(viol),
              sum(m['known'].values()), m['disputed'], wall, rc))
    return rc
