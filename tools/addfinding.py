"""Maintenance helper (never run by a check): append an entry to KNOWN_FINDINGS.json.
usage: addfinding.py fixed PROP ID COMMIT WHAT   |   addfinding.py open PROP ID WHAT WHERE TRIGGER WHY_NOT_FIXED"""
import json, sys, os
p = os.path.join(os.path.dirname(os.path.dirname(os.path.abspath(__file__))), 'KNOWN_FINDINGS.json')
d = json.load(open(p))
a = sys.argv[1:]
if a[0] == 'fixed':
    e = {'property': a[1], 'id': a[2], 'status': 'fixed', 'commit': a[3],
         'what': 'fixed: property=%s %s %s' % (a[1], a[3], a[4])}
else:
    e = {'property': a[1], 'id': a[2], 'status': 'open', 'what': a[3], 'where': a[4], 'trigger': a[5], 'why_not_fixed': a[6]}
d['findings'] = [x for x in d['findings'] if (x['property'], x['id']) != (e['property'], e['id'])] + [e]
with open(p, 'w') as f:
    f.write('{"findings": [\n' + ',\n'.join(' ' + json.dumps(x) for x in d['findings']) + '\n]}\n')
print(len(d['findings']), 'entries')
