"""Development aid: write the image of one dwdescr/descr table to a file and show both dumps.
usage: /venv/bin/python tools/dwdescr_dump.py <table name> <out dir>"""
import sys, os, subprocess
sys.path.insert(0, os.path.dirname(os.path.dirname(os.path.abspath(__file__))))
from vf import core
core.use_repo()
from vf.props import c18
name, out = sys.argv[1], sys.argv[2]
for t in c18.dw_tables():
    if t[0] == name:
        img, n = t[2]()
        p = os.path.join(out, name.replace('/', '_') + '.elf')
        open(p, 'wb').write(img)
        g = subprocess.run(['readelf', t[1], p], capture_output=True, text=True)
        c = subprocess.run(['/venv/bin/python', '/repo/scripts/readelf.py', t[1], p], capture_output=True, text=True)
        open(p + '.gnu', 'w').write(g.stdout + g.stderr)
        open(p + '.clone', 'w').write(c.stdout + c.stderr)
        print(p, g.returncode, c.returncode)
