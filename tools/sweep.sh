#!/bin/bash
# usage: tools/sweep.sh <tier> <seed> [<seed> ...]   - run every registered check; one line per run
cd "$(dirname "$0")/.."
tier=$1; shift
for seed in "$@"; do
  for p in $(/venv/bin/python -c "import json; print(' '.join(c['property_id'] for c in json.load(open('MANIFEST.json'))['checks']))"); do
    s=$(date +%s)
    out=$(VERIF_SEED=$seed ./check $p --tier $tier 2>&1); rc=$?
    echo "seed=$seed $p rc=$rc $(( $(date +%s) - s ))s :: $(echo "$out" | tail -1)"
    if [ $rc -ne 0 ]; then echo "$out" | grep -E "VIOLATION|key=|INCONCLUSIVE|HARNESS" | head -8; fi
  done
done
