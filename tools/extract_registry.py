"""One-off extractor (already run; output vendored under /verif/registry/).
Reads glibc's elf.h and LLVM 14 BinaryFormat headers and writes (name -> value)
tables with provenance. The checks read only the vendored JSON."""
import glob, json, re, subprocess, sys, os
out = os.path.join(os.path.dirname(os.path.dirname(os.path.abspath(__file__))), 'registry')
os.makedirs(out, exist_ok=True)
def ev(expr, env):
    expr = re.sub(r'/\*.*?\*/', '', expr).strip()
    expr = re.sub(r'/\*.*$', '', expr).strip()
    expr = re.sub(r'\b(0x[0-9a-fA-F]+|\d+)[uUlL]+\b', r'\1', expr)
    try:
        return int(eval(expr, {'__builtins__': {}}, env))
    except Exception:
        return None
glibc = {}
for line in open('/usr/include/elf.h'):
    m = re.match(r'#\s*define\s+(\w+)\s+(.+)$', line)
    if m:
        v = ev(m.group(2), glibc)
        if v is not None:
            glibc[m.group(1)] = v
llvm = {}
base = '/usr/lib/llvm-14/include/llvm/BinaryFormat/'
for f in sorted(glob.glob(base + 'ELFRelocs/*.def')):
    for m in re.finditer(r'ELF_RELOC\((\w+),\s*(0x[0-9a-fA-F]+|\d+)\)', open(f).read()):
        llvm[m.group(1)] = int(m.group(2), 0)
for m in re.finditer(r'(?:\w*DYNAMIC_TAG)\((\w+),\s*(0x[0-9a-fA-F]+|\d+)\)', open(base + 'DynamicTags.def').read()):
    llvm['DT_' + m.group(1)] = int(m.group(2), 0)
txt = open(base + 'Dwarf.def').read()
for m in re.finditer(r'HANDLE_DW_(TAG|AT|FORM|OP|LANG|ATE|LNS|LNE|CFA|UT|LLE|RLE|LNCT|CC|VIRTUALITY|DEFAULTED|MACRO|IDX|END|DS)\((0x[0-9a-fA-F]+|\d+),\s*(\w+)', txt):
    llvm['DW_%s_%s' % (m.group(1), m.group(3))] = int(m.group(2), 0)
txt = open(base + 'ELF.h').read()
env = {}
for m in re.finditer(r'^\s*(\w+)\s*=\s*([^,/\n]+?)\s*,?\s*(?://.*)?$', txt, re.M):
    v = ev(m.group(2), env)
    if v is not None:
        env.setdefault(m.group(1), v)
for k, v in env.items():
    llvm.setdefault(k, v)
# Dwarf.h carries a few enumerators outside Dwarf.def (DW_EH_PE_*, DW_CHILDREN_*, DW_ID_*, ...)
txt = open(base + 'Dwarf.h').read()
env = {}
for m in re.finditer(r'^\s*(DW_\w+)\s*=\s*([^,/\n]+?)\s*,?\s*(?://.*)?$', txt, re.M):
    v = ev(m.group(2), env)
    if v is not None:
        env.setdefault(m.group(1), v); llvm.setdefault(m.group(1), v)
def ver(cmd):
    try: return subprocess.run(cmd, capture_output=True, text=True).stdout.splitlines()[0]
    except Exception: return '?'
json.dump({'provenance': {'file': '/usr/include/elf.h', 'package': ver(['dpkg-query', '-W', 'libc6-dev'])}, 'names': glibc}, open(out + '/glibc_elf_h.json', 'w'), indent=0, sort_keys=True)
json.dump({'provenance': {'dir': base, 'package': ver(['dpkg-query', '-W', 'llvm-14-dev']), 'files': ['ELF.h', 'Dwarf.h', 'Dwarf.def', 'DynamicTags.def', 'ELFRelocs/*.def']}, 'names': llvm}, open(out + '/llvm14_binaryformat.json', 'w'), indent=0, sort_keys=True)
print(len(glibc), 'glibc names;', len(llvm), 'llvm names')
