#!/bin/bash
# usage: tools/try_seeded.sh <dir-with-patch.diff> <PROP> [tier]   - apply, run the check, undo
d=$1; p=$2; t=${3:-quick}
cd /verif
git -C /repo apply "$d/patch.diff" || { echo "APPLY FAILED $d"; exit 3; }
out=$(./check $p --tier $t 2>&1); rc=$?
git -C /repo checkout -- elftools scripts
echo "$out" | grep -m3 "key=" | cut -c1-160
echo "== $d on $p ($t): exit $rc"
git checkout -q -- evidence 2>/dev/null
