NOT_YET = {}
chk('C17', 'exploration',
    'Exhaustive walk of every exported (name, value) table against two vendored independent registries, plus observation of the '
    'name translation on the real parse path in 9 machine/OS contexts x class x byte order. Exhaustive over the finite table space, '
    'so a wrong value for any registry-defined name is found; names no registry defines are out of reach.',
    'Trusts glibc elf.h and LLVM 14 BinaryFormat headers (vendored as JSON); accepts a value if either registry agrees.',
    'invariant walk over live tables + parse-path translation monitor vs vendored registries', 'DESIGN.md section 4 C17')
chk('C16', 'exploration',
    'Direct calls of the real primitive decoders on traced streams against the arithmetic definition of each encoding: '
    'LEB128 prefixes enumerated exhaustively up to length 2 (quick) / 3 (thorough) in both signednesses with and without trailing bytes, '
    '24-bit integers (all 2^24 per byte order in thorough), fixed-width integers, C strings around the 64-byte chunk, blocks, arrays, '
    'initial-length classes and every truncation point. Exhaustive where the space is finite and small, sampled elsewhere.',
    'Oracle = arithmetic definitions written from DWARF 5 sections 7.4/7.6 and the gABI; consumption judged by tell().',
    'reference-model oracle over exhaustive/stratified encodings, traced stream consumption', 'DESIGN.md section 4 C16')
chk('C12', 'exploration',
    'Reference-model oracle: expressions generated from my own operand table over all 159 operation codes (every code alone in all 64 '
    'configurations at operand boundaries, random sequences up to 300 ops, nesting to depth 4) are parsed by the real parser; the '
    'result must equal the generated tree, names must map back to opcodes, and re-encoding must reproduce the input bytes.',
    'Operand table transcribed from DWARF 5 2.5/7.7.1 and the GNU/WASM extension notes; minimal LEB128 operands.',
    'ground-truth generator + reference operand table, round-trip re-encoding oracle', 'DESIGN.md section 4 C12')
chk('C14', 'exploration',
    'Ground-truth oracle: generated note extents (all name/descriptor residues, header-only final note, colliding foreign-owner types, GNU '
    'and core descriptors) in real images are read through the section and the segment front end with the shared stream repositioned '
    'at every yield; order, fields, decoded descriptors, offsets, padded sizes, exact tiling of the extent and view equality are compared. A second kind reads one file object through overlapping views (a PT_NOTE segment over two or three adjacent note sections, a second segment over the last one) in random order, every view several times, abandoned walks included, each against the encoded notes',
    'Generator independent of elftools; type names expected from the table selected by e_type; x86/aarch64 property values 4 bytes.',
    'ground-truth generator oracle + stream-position poisoning at generator yields + conservation check over offsets', 'DESIGN.md section 4 C14')
chk('C15', 'exploration',
    'Ground-truth oracle: generated verdef/verneed/versym sections (dense, gapped with garbage, interleaved out of order; arbitrary '
    'indices incl. hidden bit) in real images; entries, auxiliary chains, names, index resolution incl. misses, has_indexes and versym '
    'pairing are compared under nested, outer-first (lazy auxiliary iterators consumed later) and partial consumption with stream poisoning. A fourth kind holds a definition and a need section whose sh_link name string tables of their own (same names, other offsets), created and walked in either order',
    'Only forward displacements are encodable; indices unique among definitions and non-zero requirement auxiliaries.',
    'ground-truth generator oracle + stream-position poisoning + lazy-iterator consumption patterns', 'DESIGN.md section 4 C15')
chk('C20', 'exploration',
    'Ground-truth oracle for generated attribute sections (ARM, RISC-V; several subsections/sub-subsections) under four consumption '
    'patterns with stream poisoning at every yield; ground truth for generated .ARM.exidx/.ARM.extab pairs over all prel31 displacement '
    'classes and nine entry shapes; reference EHABI disassembler over all 65536 (opcode, operand) pairs plus random sequences. Every attribute case visits the same section, subsection and sub-subsection objects a second time after the pattern ran (a walk given up, then a full walk, counts and lists)',
    'Tag kinds and the opcode table transcribed from the ARM ABI documents; register-list text as llvm-readobj prints it.',
    'ground-truth generators + reference disassembler + consumption-pattern and stream-poisoning monitors', 'DESIGN.md section 4 C20')
chk('C04', 'exploration',
    'Ground-truth oracle: generated multi-unit .debug_info/.debug_abbrev/.debug_types sets over version x format x address size x byte '
    'order x unit kind x sibling-reference form x every attribute form are decoded by the real reader; unit headers, the complete entry '
    'sequence (offset, size, code, tag, child flag, ordered attribute tuples), exact tiling, children/parent/terminator relations and '
    'reference resolution are compared, with the section streams repositioned during iteration. The generator itself is cross-validated '
    'against llvm-dwarfdump on a sample of every run.',
    'Generator independent of elftools; names from vendored registries; llvm-dwarfdump 14 as cross-validator (declines unknown forms).',
    'ground-truth generator oracle + stream-position poisoning + third-implementation cross-validation', 'DESIGN.md section 4 C04')
chk('C13', 'exploration',
    'Ground-truth / interval-model oracle: generated .debug_aranges (mixed address sizes, empty sets, unsorted ranges) queried at every '
    'boundary class; generated .debug_pubnames/.debug_pubtypes through the whole mapping interface; get_CU_containing at EVERY offset of '
    'generated multi-unit .debug_info sections in ascending, descending and random order on fresh objects, offset-exact lookups first in '
    'arbitrary order followed by containing lookups and full iteration, out-of-range offsets; streams repositioned between calls.',
    'Non-overlapping ranges, unique names, tuple-aligned set starts (unaligned starts are ambiguous between implementations); aranges '
    'generator cross-validated against llvm-dwarfdump in every run.',
    'ground-truth generator + interval model oracle, exhaustive offset queries per section, stream poisoning', 'DESIGN.md section 4 C13')
chk('C05', 'exploration',
    'Reference-model oracle: a state machine written from DWARF 5 6.2.5 against the real decoder on generated line tables (header '
    'versions 2-5, all header parameters incl. max_ops > 1 and opcode_base from 1 to 255, v5 entry formats, unknown standard/extended '
    'opcodes, define_file) reached through line_program_for_CU of generated units; header tables, every row, exact consumption of the '
    'declared extent (traced stream). The model is cross-validated against llvm-dwarfdump -v on programs with max_ops = 1 in every run.',
    'Model from the standard; VLIW rows validated against the text only; unit and line table share format and address size.',
    'reference state machine oracle + traced-stream consumption check + third-implementation cross-validation', 'DESIGN.md section 4 C05')
chk('C06', 'exploration',
    'Ground truth for structure (entry order, kinds, header fields, CIE links incl. FDE-before-CIE, augmentation data, all nine pointer '
    'encodings x pcrel, LSDA pointers, exact instruction lists) and a reference interpreter written from DWARF 5 6.4.2 for the decoded '
    'tables (alignment factors, restore to initial rules, remember/restore nesting, expression rules) on generated .debug_frame and '
    '.eh_frame sections; tables decoded in arbitrary order with stream poisoning.',
    'Interpreter and generator mine; well-formedness constraints of 6.4.2 kept by the generator; canonicalised table comparison.',
    'ground-truth generator + reference interpreter oracle, stream poisoning', 'DESIGN.md section 4 C06')
chk('C07', 'exploration',
    'Ground-truth oracle: generated v5 (.debug_rnglists/.debug_loclists with several unit blocks, offset tables, every DW_RLE/DW_LLE '
    'kind incl. indexed ones over .debug_addr, gaps, view pairs, trailing gaps) and pre-v5 (.debug_loc/.debug_ranges) sections with the '
    'referring units; fetch by offset / attribute / index, translation, block headers and offset arrays, all four enumerators and the '
    'attribute classification are compared, with the shared section streams repositioned at every generator yield and between calls.',
    'Generators independent of elftools; address size = container default; classification judged only where DWARF fixes it.',
    'ground-truth generator oracle + stream-position poisoning at generator yields', 'DESIGN.md section 4 C07')
chk('C01', 'exploration',
    'Ground-truth oracle: generated images over class x byte order x machine x OS ABI x table placement x enlarged entry sizes x '
    'extended-numbering escapes (small counts in quick; real counts >= 0xff00 sections / 0xffff segments in two quick and six thorough '
    'images) with every specialised section kind, machine-specific and unknown type codes and awkward names; every header field, name, '
    'specialised class, order, count, lookup and type filter is compared; coded fields are judged against the vendored registries with '
    'my own machine map. The image writer is cross-validated against llvm-readobj in every run.',
    'Image writer independent of elftools; section payloads well formed for their type; registries vendored.',
    'ground-truth generator oracle + registry name oracle + stream poisoning + third-implementation cross-validation', 'DESIGN.md section 4 C01')
chk('C02', 'exploration',
    'Ground truth for section/segment bytes (boundary sizes, NOBITS, every zlib mode under both compression-header layouts, the three '
    'rejecting cases), string lookups at every offset of the table, interpreter path and PT_LOAD address mapping at every boundary query; '
    'traced streams assert data() reads only its own extent. For section_in_segment the library is compared with my transcription of '
    "binutils' ELF_SECTION_IN_SEGMENT_STRICT over a boundary-geometry grid, and the transcription is itself compared with `readelf -lW` "
    'on real files in every run (pairs readelf suppresses are not judged).',
    'Macro transcribed from binutils and cross-validated against readelf 2.40 each run; size >= 1 address ranges.',
    'ground-truth oracle + reference rule cross-validated against GNU readelf + traced-stream extent monitor', 'DESIGN.md section 4 C02')
chk('C03', 'exploration',
    'Ground-truth oracle: generated symbol tables (all boundary st_info/st_other/st_shndx values, duplicate/empty/non-ASCII/long names, '
    'SHN_XINDEX companion, Solaris tables) enumerated and queried by name; valid SysV and GNU hash tables built over them with engineered '
    'collisions (equal full hash, hash equal except bit 0, bloom false positives into occupied buckets) - every present name must be '
    'found and every absent one rejected, counts must equal the true length - with the shared stream repositioned between calls.',
    'Hash builders follow the gABI/glibc algorithms; the GNU ld spelling of an empty GNU table is an open finding (KNOWN_FINDINGS.json).',
    'ground-truth generator oracle with engineered collisions + stream poisoning', 'DESIGN.md section 4 C03')
chk('C08', 'exploration',
    'Ground truth for REL/RELA/MIPS64 tables (section and dynamic views) and a reference RELR expander; for application, a psABI model '
    'with my own recipe table over every supported (machine, type) pair x class x byte order with random symbol values, addends, in-place '
    'values, unaligned/last offsets and several relocations on one field: the whole relocated stream must equal the model and be '
    'untouched with relocation off; the four rejection classes must raise ELFRelocationError. The model is compared with `readelf -R` on '
    'a sample in every run (fields readelf leaves unrelocated give no information).',
    'psABI formulas transcribed per type; P = offset in the section; R_ARM_CALL/BPF outside the quantifier.',
    'reference-model oracle (psABI formulas, RELR expander) cross-validated against GNU readelf -R', 'DESIGN.md section 4 C08')
chk('C09', 'exploration',
    'Ground truth + equivalence oracle: one generated logical dynamic image (machine/OS-specific tags, duplicates, entries after DT_NULL, '
    'string tags, dynamic symbols, SysV/GNU hash in occupied and both empty spellings, REL/RELA/RELR/JMPREL, PT_LOAD address != offset, '
    'arbitrarily named or shadowed dynamic string table) is emitted with section headers, without them, and with the .dynamic section away '
    'from PT_DYNAMIC; the tag sequence and strings are compared with ground truth and every view with every other (tags, strings, symbols, '
    'relocation tables, table offsets, recovered symbol count), under stream poisoning. A metamorphic pass strips the section headers of '
    'every corpus file that has a dynamic section.',
    'Section link and DT_STRTAB designate the same table; valid UTF-8 strings; symbol count judged only when a hash table exists.',
    'ground-truth generator + cross-view equivalence (metamorphic) oracle + stream poisoning', 'DESIGN.md section 4 C09')
chk('C19', 'fault_enumeration',
    'Fault enumeration over ~60 seeds (repository binaries under 12 KiB + generated images with every section kind): random byte strings, '
    'every truncation length / table boundary, every single-byte substitution of the 64-byte header region with four values, single-byte '
    'substitutions over whole seeds (every byte in thorough), all pairs (triples in thorough) of Ehdr count/size/offset/index fields x '
    '{0,1,max}, random multi-field corruption. The exception classifier requires ELFError from the constructor; the enumeration battery '
    'runs under a logical step meter (function entries + taken jumps + traced stream operations) that raises inside the call, and a '
    'tracemalloc peak bound on every 4th case; every other measured case reads a real file on disk whose read(n) requests are recorded with '
    'the requesting library frame and served clipped to the file size (the request beyond the bound is the observation).',
    'Logical-step and tracemalloc budgets calibrated on the seeds; BytesIO inputs and real files; any exception may end a battery step.',
    'fault injection (byte/field/truncation enumeration) + exception classifier + logical step meter + allocation meter + read-request monitor on real files', 'DESIGN.md section 4 C19')
chk('C10', 'model_checking',
    'History + executable model, the model of a query being the same query on a freshly opened object. (a) Bounded-exhaustive '
    'breadth-first search over sequences of a 35-55 operation alphabet on small generated DWARF sets with deduplication on the abstract '
    'cache state (states restored by replaying the shortest path on a fresh object; replay determinism checked): every operation applied '
    'to every distinct state up to the bound; the tiny files close their frontier. (b) Random histories of 60-400 operations on corpus '
    'binaries and generated files at the DWARF and the ELF level (every other ELF history re-uses the section and segment objects it was handed, single-object histories send 6-30 calls to one section object of each class in turn, walks are interrupted by other uses of the stream and judged against the undisturbed walk, '
    'so that what an object remembers from an earlier walk meets the next query). Streams are repositioned before every operation; cache invariants '
    '(sorted, duplicate-free, parallel unit/entry caches; cached parent/terminator links vs ground truth; section-name map) are asserted '
    'after every operation.',
    'Abstract state = hash of private cache attributes (read only); exhaustive only over abstract states within the depth/state bound.',
    'history checker against a fresh-object model: bounded BFS with abstract-state deduplication + random histories + cache invariants at hooks + stream poisoning',
    'DESIGN.md section 4 C10')
chk('C11', 'exploration',
    'Differential (metamorphic) oracle: each payload - debug sections of corpus binaries read with my own section reader, gcc-compiled '
    'shared objects and relocatable objects at DWARF 2-5, synthesized multi-unit sets with line/frame/aranges/pubnames tables - is '
    're-emitted plain, SHF_COMPRESSED (4 zlib levels, both compression-header layouts), as legacy .zdebug (all or only shrunk sections '
    'renamed), behind .gnu_debuglink (right/wrong CRC, file-name lengths of every residue mod 4), with .gnu_debugaltlink/.debug_sup links '
    '(with and without loader, follow_links on/off) and by objcopy as a second producer; the complete dump of the resulting DWARF info '
    'must be identical across containers, alt forms must resolve into the supplementary file, has_dwarf_info(strict) and the three '
    'rejections are checked; half of the cases also put the stripped file and its debug file on disk, follow the link by path, change the debug '
    'file in place (same size) and follow it again in the same process (must be rejected), then restore it (must be accepted).',
    'Containers keep class, byte order, machine and .eh_frame address; objcopy/gcc used when present (skipped otherwise).',
    'differential oracle across container re-encodings (own writer + binutils as second producer)', 'DESIGN.md section 4 C11')
chk('C18', 'translation_validation',
    'Output-equivalence monitor: every (file, option) pair is run through GNU readelf and through `python scripts/readelf.py` from /repo, '
    'and the two outputs are compared with a frozen copy of the project\'s own compare_output (its documented tolerated differences). '
    'Workloads: the regression corpus x 18 options (a seed-rotated third in quick, all in thorough); gcc/clang-compiled objects at DWARF 2-5 '
    'for 8 targets; one synthesized file (or DIE / frame instruction / attribute) per entry of the clone\'s description tables - ELF header, '
    'machine flags, section, segment, symbol, dynamic-tag, note, relocation tables, every DW_OP per machine incl. a 64-bit-format unit, '
    'DW_CFA, DW_TAG, DW_AT by class, DW_FORM, DW_LANG/ATE/... values, DW_UT, ARM and RISC-V build attributes - in the machine/OS context '
    'the entry belongs to; and generated linker/compiler-shaped files (version sections, notes, symbol tables, relocation sections, '
    'segment layouts, hex/string dumps, line tables v2-5, call-frame tables, aranges/pubnames/pubtypes, location and range lists). '
    'A further kind dumps some 70 files in one interpreter through the clone\'s main() and requires every text to equal that of a process of its own. '
    'Decides equality on exactly the pairs run; says nothing about options or table entries not driven.',
    'Oracle is GNU readelf 2.40 on the image (the project pins 2.41): pairs where 2.40 is known to print an older layout are excluded and '
    'counted; a description entry for which GNU itself prints a placeholder is unjudged and counted; oracle_gaps_C18.json lists the '
    'three vendor attribute names the oracle cannot decide.',
    'differential output monitor against GNU readelf under the project\'s tolerated-difference comparator', 'DESIGN.md sections 4 C18 and 11.6')
