NOT_YET = {}
chk('C17', 'exploration',
    'Exhaustive walk of every exported (name, value) table against two vendored independent registries, plus observation of the '
    'name translation on the real parse path in 9 machine/OS contexts x class x byte order. Exhaustive over the finite table space, '
    'so a wrong value for any registry-defined name is found; names no registry defines are out of reach.',
    'Trusts glibc elf.h and LLVM 14 BinaryFormat headers (vendored as JSON); accepts a value if either registry agrees.',
    'invariant walk over live tables + parse-path translation monitor vs vendored registries', 'DESIGN.md section 4 C17')
