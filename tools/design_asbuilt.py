import json, os
p='/verif/DESIGN.md'; s=open(p).read()
old=s[:s.index("Contents\n")]
new='''# Runtime monitoring of pyelftools: design

Status: **built**. Sections 1-10 are the design as written before any code
existed (kept unchanged apart from this paragraph, so that plan and outcome can
be compared); **section 11, "As built"**, records what was actually built, how
it deviates from the plan, every defect found and what was done about it, the
false alarms of my own machinery and how they were corrected, and which check
catches which seeded property-breaking change. Where section 11 and an earlier
section disagree, section 11 is what the code does.

'''
s=s.replace(old,new)
s=s.replace("10. Layout of /verif\n","10. Layout of /verif\n11. As built: deviations, defects found, false alarms corrected, monitor validation results\n")
if '## 11. As built' in s:
    s=s[:s.index('\n---------------------------------------------------------------------------\n\n## 11. As built')]
body=open('/verif/tools/design_asbuilt.md').read()
rows=[]
for n in sorted(os.listdir('/verif/seeded')):
    mp='/verif/seeded/%s/meta.json'%n
    if not os.path.exists(mp): continue
    m=json.load(open(mp))
    title=open('/verif/seeded/%s/notes.md'%n).readline().strip().lstrip('# ').split(' - ',1)[-1]
    key=(m.get('first_violation_keys') or ['(not detected)'])[0].replace('|','/')
    rows.append('| %s | %s | `%s` |' % (n, title.replace('|','/'), key[:110]))
body=body.replace('@@SEEDED_ROWS@@','\n'.join(rows))
fixes=os.popen('git -C /repo log --oneline | grep -c "fix:"').read().strip()
body=body.replace('@@NFIX@@',fixes)
d=json.load(open('/verif/KNOWN_FINDINGS.json'))['findings']
import collections
c=collections.Counter(x['property'] for x in d if x['status']=='fixed')
body=body.replace('@@PERPROP@@', ', '.join('%s %d'%(k,v) for k,v in sorted(c.items())))
s += body
open(p,'w').write(s)
print('ok', len(s.splitlines()))
