#!/bin/bash
# usage: tools/try_wt.sh <seeded name> <PROP> [kinds] [m:r]  - run a check against a scratch worktree with the seeded change applied (/repo untouched)
n=$1; p=$2; k=$3; m=$4
wt=/tmp/wt/try_${n}_$p
git -C /repo worktree remove --force $wt >/dev/null 2>&1
git -C /repo worktree add -q --detach $wt HEAD || exit 3
git -C $wt apply /verif/seeded/$n/patch.diff || { echo "APPLY FAILED"; git -C /repo worktree remove --force $wt; exit 3; }
cd /verif
out=$(VERIF_REPO=$wt VF_DEV_KINDS=$k VF_DEV_IDXMOD=$m ./check $p --tier ${TIER:-quick} 2>&1); rc=$?
git -C /repo worktree remove --force $wt
echo "$out" | grep -m5 "key=" | cut -c1-200
echo "$out" | tail -1
echo "== $n on $p kinds=$k: exit $rc"
git checkout -q -- evidence/$p.json 2>/dev/null
