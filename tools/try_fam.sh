#!/bin/bash
# usage: tools/try_fam.sh <patch dir or -> <PROP> <kinds> [m:r]   - development aid: run part of a check, optionally with a seeded change applied
d=$1; p=$2; k=$3; m=$4
cd /verif
[ "$d" != "-" ] && { git -C /repo apply "$d/patch.diff" || { echo "APPLY FAILED $d"; exit 3; }; }
out=$(VF_DEV_KINDS=$k VF_DEV_IDXMOD=$m ./check $p --tier ${TIER:-quick} 2>&1); rc=$?
[ "$d" != "-" ] && git -C /repo checkout -- elftools scripts
echo "$out" | grep -m6 "key=" | cut -c1-220
echo "$out" | tail -1
echo "== $d on $p kinds=$k mod=$m: exit $rc"
git checkout -q -- evidence 2>/dev/null
