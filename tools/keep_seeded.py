"""Maintenance tool: confirm a sub-agent's seeded change and file it under /verif/seeded/<id>/.
usage: keep_seeded.py <src dir with patch.diff demo.py notes.md> <PROP> [--tier quick|thorough]
Confirms in a scratch worktree (removed afterwards): demo passes on clean, fails when patched; the
pinned suite's per-test outcome is unchanged; then applies the patch to /repo, runs ./check, undoes it."""
import json, os, shutil, subprocess, sys, re
src, prop = sys.argv[1], sys.argv[2]
tier = sys.argv[sys.argv.index('--tier') + 1] if '--tier' in sys.argv else 'quick'
name = os.path.basename(src.rstrip('/'))
wt = '/tmp/wt/confirm_' + name
def sh(cmd, **kw):
    return subprocess.run(cmd, shell=True, capture_output=True, text=True, **kw)
sh('git -C /repo worktree remove --force %s' % wt)
assert sh('git -C /repo worktree add -q --detach %s HEAD' % wt).returncode == 0
PYT = "/venv/bin/python -m pytest -q -p no:cacheprovider --timeout=900 --continue-on-collection-errors -rA 2>&1 | grep -E '^(PASSED|FAILED|ERROR)' | sort"
try:
    base = sh('cd %s && %s' % (wt, PYT)).stdout
    d0 = sh('cd %s && /venv/bin/python %s/demo.py %s' % (wt, src, wt), timeout=600)
    ap = sh('git -C %s apply %s/patch.diff' % (wt, src))
    assert ap.returncode == 0, 'patch does not apply: ' + ap.stderr
    pat = sh('cd %s && %s' % (wt, PYT)).stdout
    try:
        d1 = sh('cd %s && /venv/bin/python %s/demo.py %s' % (wt, src, wt), timeout=600)
        d1rc = d1.returncode
    except subprocess.TimeoutExpired:
        d1rc = 'timeout'
    # the check runs against the scratch worktree with the change applied (VERIF_REPO), so that /repo is never touched
    # and several changes can be confirmed at once; the evidence file it writes is put back afterwards
    c = sh('cd /verif && VERIF_REPO=%s ./check %s --tier %s' % (wt, prop, tier))
    sh('cd /verif && git checkout -q -- evidence/%s.json' % prop)
finally:
    sh('git -C /repo worktree remove --force %s' % wt)
ok_demo = d0.returncode == 0 and d1rc != 0
ok_tests = base == pat and base.count('PASSED') >= 100
keys = re.findall(r'key=(.*?) count=', c.stdout)
res = dict(property=prop, name=name, demo_clean_rc=d0.returncode, demo_patched_rc=d1rc, demo_ok=ok_demo,
           suite_outcome_unchanged=ok_tests, suite_passed=base.count('PASSED'),
           check_cmd='./check %s --tier %s' % (prop, tier), check_exit=c.returncode, detected=c.returncode == 1,
           first_violation_keys=keys[:3])
print(json.dumps(res, indent=1))
if ok_demo and ok_tests:
    dst = os.path.join('/verif/seeded', name)
    os.makedirs(dst, exist_ok=True)
    for f in ('patch.diff', 'demo.py', 'notes.md'):
        if os.path.exists(os.path.join(src, f)):
            shutil.copy(os.path.join(src, f), dst)
    notes = open(os.path.join(src, 'notes.md')).read() if os.path.exists(os.path.join(src, 'notes.md')) else ''
    res['needs_to_manifest'] = notes[:1500]
    res['ran'] = ['demo.py on a clean scratch worktree (exit 0) and with the patch (non-zero)',
                  'pinned pytest suite in the scratch worktree before/after: identical per-test outcomes',
                  res['check_cmd'] + ' against a scratch worktree of /repo with the patch applied (VERIF_REPO)']
    json.dump(res, open(os.path.join(dst, 'meta.json'), 'w'), indent=1)
    print('kept as', dst)
else:
    print('NOT KEPT: demo_ok=%s tests_ok=%s' % (ok_demo, ok_tests))
