"""Maintenance tool: re-run a check against a filed seeded change and bring its meta.json up to date.
usage: recheck_seeded.py <name> [<PROP> ...]   (first PROP defaults to the one in meta.json; further ones are recorded as also_detected_by)"""
import json, os, re, subprocess, sys
name = sys.argv[1]
d = os.path.join('/verif/seeded', name)
meta = json.load(open(os.path.join(d, 'meta.json')))
props = sys.argv[2:] or [meta['property']]
def sh(cmd):
    return subprocess.run(cmd, shell=True, capture_output=True, text=True)
for prop in props:
    wt = '/tmp/wt/recheck_%s_%s' % (name, prop)     # a scratch worktree with the change applied; /repo is not touched
    sh('git -C /repo worktree remove --force %s' % wt)
    assert sh('git -C /repo worktree add -q --detach %s HEAD' % wt).returncode == 0
    try:
        assert sh('git -C %s apply %s/patch.diff' % (wt, d)).returncode == 0, 'patch does not apply'
        c = sh('cd /verif && VERIF_REPO=%s ./check %s --tier quick' % (wt, prop))
    finally:
        sh('git -C /repo worktree remove --force %s' % wt)
        sh('cd /verif && git checkout -q -- evidence/%s.json' % prop)
    keys = re.findall(r'key=(.*?) count=', c.stdout)
    det = c.returncode == 1
    print(name, prop, 'exit', c.returncode, keys[:2])
    if prop == meta['property']:
        meta.update(check_exit=c.returncode, detected=det, first_violation_keys=keys[:3], check_cmd='./check %s --tier quick' % prop)
    elif det:
        meta.setdefault('also_detected_by', {})
        if isinstance(meta['also_detected_by'], list):
            meta['also_detected_by'] = {p: [] for p in meta['also_detected_by']}
        meta['also_detected_by'][prop] = keys[:2]
json.dump(meta, open(os.path.join(d, 'meta.json'), 'w'), indent=1)
