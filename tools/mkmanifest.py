"""Regenerates MANIFEST.json from the table below (hand-maintained)."""
import json, os, sys
ROOT = os.path.dirname(os.path.dirname(os.path.abspath(__file__)))
BASELINE = ("cd /repo && env -u PYELFTOOLS_VERIF /venv/bin/python -m pytest -ra -q -p no:cacheprovider "
            "--timeout=900 --continue-on-collection-errors")
CHECKS = {}
def chk(pid, category, text, note, technique, design):
    CHECKS[pid] = dict(property_id=pid, quick_cmd='./check %s --tier quick' % pid,
        thorough_cmd='./check %s --tier thorough' % pid, evidence_file='evidence/%s.json' % pid,
        replay_cmd_template='./check %s --replay {path}' % pid, engine='vf',
        level_claimed=dict(category=category, text=text, design_ref=design), level_note=note, technique=technique)
exec(open(os.path.join(ROOT, 'tools', 'manifest_checks.py')).read())
props = [json.loads(l)['id'] for l in open(os.path.join(ROOT, 'properties.jsonl'))]
na = [dict(property_id=p, reason=NOT_YET.get(p, 'check not built yet in this session; no claim is made')) for p in props if p not in CHECKS]
man = dict(version=1,
    setup_cmd="/venv/bin/python -c \"import sys; sys.path.insert(0,'/verif'); import vf.core, vf.monitor; print('vf ready')\"",
    hooks=dict(guard='PYELFTOOLS_VERIF', enable='no source hooks: every monitor (wrapped methods, traced streams, sys.monitoring callbacks) is attached from the harness process after importing /repo; ./check sets PYELFTOOLS_VERIF=1 for its own children only and nothing in /repo reads it',
               baseline_off_cmd=BASELINE, source_commits=[], add_only=True),
    engines=[dict(name='vf', path='vf/', serves_properties=sorted(CHECKS), kind_free_text='runtime monitors and reference-model oracles over generated workloads (Python, in-process; GNU/LLVM binutils as cross-validators)')],
    checks=[CHECKS[p] for p in sorted(CHECKS)],
    not_applicable=na,
    notes='See DESIGN.md. Fix commits in /repo are listed in KNOWN_FINDINGS.json (status fixed); open findings print KNOWN-FINDING lines.')
json.dump(man, open(os.path.join(ROOT, 'MANIFEST.json'), 'w'), indent=1)
print('MANIFEST.json: %d checks, %d not claimed' % (len(CHECKS), len(na)))
